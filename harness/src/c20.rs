//! C20 — a page imported into another document is equal and self-contained.
//!
//! Correspondence streams (model = lean/PdfModel/Model/Import.lean; compared up to renaming of the new
//! object numbers: every created object carries the number of its source object as payload):
//!   c20.clone.exhaustive  every graph over ≤ 2 (quick) / ≤ 3 (thorough) primitive nodes, every kid list over
//!                         {node, missing object} of length ≤ 2, every root sequence of length ≤ 2
//!                         → `Importer::clone_plainref` on a real document
//!   c20.clone.random      random graphs of dictionaries / arrays / streams (prim edges), /Resources
//!                         dictionaries (ref edges to form XObjects, prim edges through /Font) and form
//!                         XObjects (rc edge to their /Resources), shared sub-graphs, cycles, missing objects;
//!                         random root sequences through clone_plainref / clone_ref / clone_rcref
//!   c20.page              random pages (resources of all seven categories, direct / indirect / inherited
//!                         resource dictionaries, operations naming them, page-level extra entries) over a
//!                         shared random graph → `PageBuilder::clone_page`, several pages per importer
//! Oracle (the real library against the property itself):
//!   c20.import            every page of PDF_REPO/files/*.pdf and of generated documents × subsets/orders →
//!                         clone_page + PdfBuilder::build + reload → boxes, rotation, operations, resources by
//!                         name (deep equality modulo renaming of references, stream data), closure from the
//!                         new trailer, single copy of shared objects, no panic / abort / hang
//! Every call into the library that can overflow the stack or hang runs in a child process
//! (`pdfverif C20 --replay <request with "child">`) with a time limit.

use crate::driver::{hex, unhex, Driver};
use crate::pdfwrite::*;
use crate::report::*;
use crate::rng::Rng;
use pdf::build::{CatalogBuilder, Importer, PageBuilder, PdfBuilder};
use pdf::content::{Color, Op};
use pdf::error::PdfError;
use pdf::file::{FileOptions, PromisedRef};
use pdf::object::{Cloner, Object, ObjectWrite, PlainRef, RcRef, Ref, Resolve, Resources, Updater, XObject};
use pdf::primitive::{Dictionary, Primitive};
use serde_json::{json, Value};
use std::collections::{BTreeMap, BTreeSet};
use std::panic::{catch_unwind, AssertUnwindSafe};
use std::time::{Duration, Instant};

type PdfResult<T> = std::result::Result<T, PdfError>;

// =====================================================================================================
// recording updater: which objects the importer created, in order

struct Rec<'a, U: Updater> {
    inner: &'a mut U,
    created: Vec<PlainRef>,
}
impl<'a, U: Updater> Updater for Rec<'a, U> {
    fn create<T: ObjectWrite>(&mut self, obj: T) -> PdfResult<RcRef<T>> {
        let r = self.inner.create(obj)?;
        self.created.push(r.get_ref().get_inner());
        Ok(r)
    }
    fn update<T: ObjectWrite>(&mut self, old: PlainRef, obj: T) -> PdfResult<RcRef<T>> {
        self.inner.update(old, obj)
    }
    fn promise<T: Object>(&mut self) -> PromisedRef<T> {
        self.inner.promise()
    }
    fn fulfill<T: ObjectWrite>(&mut self, promise: PromisedRef<T>, obj: T) -> PdfResult<RcRef<T>> {
        self.inner.fulfill(promise, obj)
    }
}

// =====================================================================================================
// graph documents

#[derive(Clone, Copy, Debug, PartialEq, Eq)]
enum NT {
    /// plain dictionary `<< /P id /K [..] >>`
    Dict,
    /// array `[id refs..]`
    Arr,
    /// stream whose dictionary holds /P and /K
    Stm,
    /// /Resources dictionary: /XObject << /X0 f >> (Ref<XObject>), /Font << /F0 p >> (Lazy = primitive)
    Res,
    /// form XObject: /Resources r (MaybeRef: rc), /P, /K in `other`
    Form,
}

#[derive(Clone, Debug)]
struct GNode {
    ty: NT,
    /// Dict/Arr/Stm/Form: the /K references
    k: Vec<u64>,
    /// Res: /XObject entry;  Form: /Resources
    a: Option<u64>,
    /// Res: /Font entry
    b: Option<u64>,
}

type Graph = BTreeMap<u64, GNode>;

fn edges_str(es: &[(char, u64)]) -> String {
    if es.is_empty() { "-".into() } else { es.iter().map(|(k, t)| format!("{}{}", k, t)).collect::<Vec<_>>().join("+") }
}

/// (kidsPrim, kidsTyped) of a node in the model's terms
fn model_kids(n: &GNode) -> (Vec<(char, u64)>, Vec<(char, u64)>) {
    match n.ty {
        NT::Dict | NT::Arr | NT::Stm => {
            let k: Vec<_> = n.k.iter().map(|t| ('p', *t)).collect();
            (k.clone(), k)
        }
        NT::Res => {
            let mut p = vec![];
            let mut t = vec![];
            if let Some(x) = n.a { p.push(('p', x)); t.push(('t', x)); }
            if let Some(f) = n.b { p.push(('p', f)); t.push(('p', f)); }
            (p, t)
        }
        NT::Form => {
            let mut p = vec![];
            let mut t = vec![];
            if let Some(r) = n.a { p.push(('p', r)); t.push(('r', r)); }
            for x in &n.k { p.push(('p', *x)); t.push(('p', *x)); }
            (p, t)
        }
    }
}

fn nodes_str(g: &Graph) -> String {
    if g.is_empty() {
        return "-".into();
    }
    g.iter()
        .map(|(id, n)| {
            let (p, t) = model_kids(n);
            format!("{}:{}:{}:{}", id, id, edges_str(&p), edges_str(&t))
        })
        .collect::<Vec<_>>()
        .join(";")
}

fn refs_txt(k: &[u64]) -> String {
    k.iter().map(|t| format!("{} 0 R", t)).collect::<Vec<_>>().join(" ")
}

/// the string object every dictionary / stream node carries, as PDF text and as bytes
fn node_string(id: u64) -> String { format!("(text \\({}\\) of node {})", id % 7, id) }
fn node_string_bytes(id: u64) -> Vec<u8> { format!("text ({}) of node {}", id % 7, id).into_bytes() }
/// the data of a stream node (a form's content is a content stream)
fn node_data(id: u64) -> Vec<u8> { format!("q {} 0 0 {} 0 0 cm Q % data of node {}", 1 + id % 5, 1 + id % 3, id).into_bytes() }

fn node_body(id: u64, n: &GNode) -> Vec<u8> {
    match n.ty {
        NT::Dict => format!("<< /P {} /S {} /K [{}] >>", id, node_string(id), refs_txt(&n.k)).into_bytes(),
        NT::Arr => format!("[{} {}]", id, refs_txt(&n.k)).into_bytes(),
        NT::Stm => stream_body(&format!("/P {} /S {} /K [{}]", id, node_string(id), refs_txt(&n.k)), &node_data(id)),
        NT::Res => {
            let mut s = format!("<< /ColorSpace << /Id{} /DeviceRGB >>", id);
            if let Some(x) = n.a { s.push_str(&format!(" /XObject << /X0 {} 0 R >>", x)); }
            if let Some(f) = n.b { s.push_str(&format!(" /Font << /F0 {} 0 R >>", f)); }
            s.push_str(" >>");
            s.into_bytes()
        }
        NT::Form => {
            let mut d = String::from("/Type /XObject /Subtype /Form /BBox [0 0 1 1]");
            if let Some(r) = n.a { d.push_str(&format!(" /Resources {} 0 R", r)); }
            d.push_str(&format!(" /P {} /S {} /K [{}]", id, node_string(id), refs_txt(&n.k)));
            stream_body(&d, &node_data(id))
        }
    }
}

/// how the source document is laid out
#[derive(Clone, Copy, Debug)]
struct Layout {
    xref_stream: bool,
    /// put the non-stream graph nodes into an object stream (needs xref_stream)
    objstm: bool,
    flate: bool,
    /// standard security handler: index into `crate::c06::doc::variants()` (R2 RC4-40 … R6 AES-256), empty user
    /// password; every string and every stream is encrypted with the harness's own implementation of the standard
    encrypt: Option<usize>,
    /// V ≥ 4: the /EncryptMetadata flag (part of the key derivation)
    encrypt_metadata: bool,
    /// junk bytes before the header (all offsets in the file are relative to the header)
    prefix: usize,
    /// two revisions: some objects are first written with stale contents and replaced by an incremental update
    revisions: bool,
    /// seed of the writer's own choices (initialisation vectors, junk, which objects are stale)
    seed: u64,
}

const PLAIN: Layout = Layout { xref_stream: false, objstm: false, flate: false, encrypt: None, encrypt_metadata: true, prefix: 0, revisions: false, seed: 0 };

fn random_layout(rng: &mut Rng, p_encrypt: (u64, u64)) -> Layout {
    let xs = rng.chance(1, 2);
    let nvar = crate::c06::doc::variants().len();
    let encrypt = if rng.chance(p_encrypt.0, p_encrypt.1) {
        // the six families evenly; within RC4 any key length
        let fam = ["R2-RC4-40", "R3-RC4", "R4-RC4", "R4-AES128", "R5-AES256", "R6-AES256"][rng.usize(6)];
        let c: Vec<usize> = (0..nvar).filter(|i| crate::c06::doc::variants()[*i].name == fam).collect();
        Some(*rng.pick(&c))
    } else { None };
    Layout { xref_stream: xs, objstm: xs && rng.chance(1, 2), flate: rng.chance(1, 2), encrypt, encrypt_metadata: rng.chance(2, 3),
        prefix: if rng.chance(1, 4) { 1 + rng.usize(300) } else { 0 }, revisions: rng.chance(1, 4), seed: rng.next() }
}

fn layout_label(l: &Layout) -> Vec<String> {
    let mut v = vec![];
    v.push(match l.encrypt { Some(i) => format!("source=encrypted:{}", crate::c06::doc::variants()[i].name), None => "source=not-encrypted".to_string() });
    v.push(if l.objstm { "layout=object-streams" } else if l.xref_stream { "layout=xref-stream" } else { "layout=classic" }.to_string());
    if l.prefix > 0 { v.push("source=behind-junk-prefix".into()); }
    if l.revisions { v.push("source=two-revisions".into()); }
    v
}

fn hex_string(b: &[u8]) -> String {
    format!("<{}>", b.iter().map(|x| format!("{:02X}", x)).collect::<String>())
}

/// a stream body produced by `stream_body`: (dictionary text without `/Length n >>`, data)
fn split_stream_body(body: &[u8]) -> Option<(Vec<u8>, Vec<u8>)> {
    let marker = b">>\nstream\n";
    let p = body.windows(marker.len()).position(|w| w == marker)?;
    let end = body.len().checked_sub(b"\nendstream".len())?;
    let head = &body[..p];
    let l = head.windows(8).rposition(|w| w == b"/Length ")?;
    Some((head[..l].to_vec(), body[p + marker.len()..end].to_vec()))
}

/// the plaintext (still filter-encoded) data of every stream object, by object number: the ground truth the
/// oracle compares imported streams with
fn plain_streams(objects: &[(u64, Vec<u8>, bool)]) -> BTreeMap<u64, Vec<u8>> {
    objects.iter().filter(|o| o.2).filter_map(|(id, b, _)| split_stream_body(b).map(|(_, d)| (*id, d))).collect()
}

/// a string object in literal or hexadecimal form (chosen by its content, so that both forms occur)
fn string_object(b: &[u8]) -> Vec<u8> {
    if b.iter().fold(0u32, |a, x| a.wrapping_mul(31).wrapping_add(*x as u32)) % 2 == 0 { return hex_string(b).into_bytes(); }
    let mut o = vec![b'('];
    for &c in b {
        match c {
            b'\\' => o.extend_from_slice(b"\\\\"),
            b'(' => o.extend_from_slice(b"\\("),
            b')' => o.extend_from_slice(b"\\)"),
            b'\r' => o.extend_from_slice(b"\\r"),
            b'\n' => o.extend_from_slice(b"\\n"),
            _ => o.push(c),
        }
    }
    o.push(b')');
    o
}

/// pass every string object of PDF text (outside stream data) through `f`
fn transform_strings(text: &[u8], f: &mut dyn FnMut(&[u8]) -> Vec<u8>) -> Vec<u8> {
    let mut out = vec![];
    let mut i = 0;
    let n = text.len();
    while i < n {
        let b = text[i];
        if b == b'(' {
            let mut s = vec![];
            let mut depth = 1;
            i += 1;
            while i < n && depth > 0 {
                match text[i] {
                    b'\\' if i + 1 < n => {
                        i += 1;
                        match text[i] {
                            b'n' => s.push(b'\n'), b'r' => s.push(b'\r'), b't' => s.push(b'\t'), b'b' => s.push(8), b'f' => s.push(12),
                            c @ b'0'..=b'7' => {
                                let mut v = (c - b'0') as u32;
                                let mut k = 0;
                                while k < 2 && i + 1 < n && (b'0'..=b'7').contains(&text[i + 1]) { i += 1; v = v * 8 + (text[i] - b'0') as u32; k += 1; }
                                s.push(v as u8);
                            }
                            c => s.push(c),
                        }
                    }
                    b'(' => { depth += 1; s.push(b'('); }
                    b')' => { depth -= 1; if depth > 0 { s.push(b')'); } }
                    c => s.push(c),
                }
                i += 1;
            }
            out.extend_from_slice(&string_object(&f(&s)));
        } else if b == b'<' && i + 1 < n && text[i + 1] == b'<' {
            out.extend_from_slice(b"<<");
            i += 2;
        } else if b == b'<' {
            let mut j = i + 1;
            let mut digits = vec![];
            while j < n && text[j] != b'>' { if !text[j].is_ascii_whitespace() { digits.push(text[j]); } j += 1; }
            if digits.len() % 2 == 1 { digits.push(b'0'); }
            let s = unhex(std::str::from_utf8(&digits).unwrap_or("")).unwrap_or_default();
            out.extend_from_slice(&string_object(&f(&s)));
            i = j + 1;
        } else if b == b'>' && i + 1 < n && text[i + 1] == b'>' {
            out.extend_from_slice(b">>");
            i += 2;
        } else {
            out.push(b);
            i += 1;
        }
    }
    out
}

/// objects 1 (catalog), 2 (page tree root), then `objects` (number, body, is a stream); returns the file.
/// Independent of pdf-rs: framing by `pdfwrite.rs`, encryption by the harness's implementation of the standard.
fn write_doc(root_body: &[u8], objects: &[(u64, Vec<u8>, bool)], layout: Layout) -> Vec<u8> {
    use crate::c06::std_sec::*;
    let mut wr = Rng::derive(layout.seed, "c20.writer", 0);
    let junk: Vec<u8> = (0..layout.prefix).map(|_| b"junk before the header \n\r%!PS 0123456789 obj endobj"[wr.usize(51)]).collect();
    let variant = layout.encrypt.map(|i| crate::c06::doc::variants()[i].clone());
    let mut w = PdfWriter::new(&junk, if variant.as_ref().map(|v| v.v >= 5).unwrap_or(false) { "2.0" } else { "1.7" });
    w.free(0, 0, 65535);
    let mut max_id = objects.iter().map(|o| o.0).max().unwrap_or(2).max(2);
    // --- encryption set-up
    let enc = variant.as_ref().map(|var| {
        // the password-dependent entries are expensive for R5 / R6: computed once per (variant, flag, /P) and process
        thread_local! { static ENTRIES: std::cell::RefCell<BTreeMap<(usize, bool, i32), (Entries, Vec<u8>)>> = std::cell::RefCell::new(BTreeMap::new()); }
        let p: i32 = *wr.pick(&[-4, -44, -1340, -1]);
        let em = if var.v >= 4 { layout.encrypt_metadata } else { true };
        let key = (layout.encrypt.unwrap_or(0), em, p);
        let (entries, id0) = ENTRIES.with(|c| {
            c.borrow_mut().entry(key).or_insert_with(|| {
                let mut src = Rng::derive((0xC20u64 + key.0 as u64 * 31).wrapping_add(p as u64), "c20.writer.entries", em as u64);
                let id0 = src.bytes(16);
                let params = Params { r: var.r, n: var.n, cipher: var.cipher, p, id0: id0.clone(), encrypt_metadata: em };
                let mut rnd = |k: usize| src.bytes(k);
                (make_entries(&mut Rec::off(), &params, b"", b"owner", &mut rnd), id0)
            }).clone()
        });
        let (fields, _) = crate::c06::doc::dict_fields(&mut wr, var, &entries, p, em);
        (var.cipher, entries.file_key.clone(), fields, id0)
    });
    let mut ivs = Rng::derive(layout.seed, "c20.writer.iv", 0);
    let mut encrypt_body = |id: u64, body: &[u8], is_stream: bool| -> Vec<u8> {
        let (cipher, key) = match &enc { Some(e) => (e.0, e.1.clone()), None => return body.to_vec() };
        let mut one = |data: &[u8]| -> Vec<u8> {
            let mut iv = [0u8; 16];
            iv.copy_from_slice(&ivs.bytes(16));
            encrypt_object(&mut Rec::off(), cipher, &key, id, 0, data, &iv)
        };
        if is_stream {
            match split_stream_body(body) {
                Some((dict, data)) => {
                    let d = transform_strings(&dict, &mut one);
                    let stored = one(&data);
                    let mut out = d;
                    out.extend_from_slice(format!("/Length {} >>\nstream\n", stored.len()).as_bytes());
                    out.extend_from_slice(&stored);
                    out.extend_from_slice(b"\nendstream");
                    out
                }
                None => body.to_vec(),
            }
        } else {
            transform_strings(body, &mut one)
        }
    };
    // --- which objects are first written stale (revision 1) and replaced in revision 2
    let stale: BTreeSet<u64> = if layout.revisions { objects.iter().filter(|_| wr.chance(1, 3)).map(|o| o.0).collect() } else { BTreeSet::new() };
    let stale_body = |id: u64, body: &[u8], is_stream: bool| -> Vec<u8> {
        if is_stream {
            match split_stream_body(body) {
                Some((dict, data)) => {
                    let mut d: Vec<u8> = data.iter().map(|b| b ^ 0x55).collect();
                    d.extend_from_slice(format!(" stale {}", id).as_bytes());
                    let mut out = dict;
                    out.extend_from_slice(format!("/Length {} >>\nstream\n", d.len()).as_bytes());
                    out.extend_from_slice(&d);
                    out.extend_from_slice(b"\nendstream");
                    out
                }
                None => body.to_vec(),
            }
        } else {
            format!("<< /Stale {} /S (stale text) >>", id).into_bytes()
        }
    };
    w.object(1, 0, b"<< /Type /Catalog /Pages 2 0 R >>");
    w.object(2, 0, root_body);
    let use_objstm = layout.objstm && layout.xref_stream;
    let mut members: Vec<(u64, Vec<u8>)> = vec![];
    for (id, body, is_stream) in objects {
        if stale.contains(id) {
            let b = stale_body(*id, body, *is_stream);
            w.object(*id, 0, &encrypt_body(*id, &b, *is_stream));
        } else if use_objstm && !*is_stream {
            members.push((*id, body.clone())); // strings inside an object stream are not encrypted individually
        } else {
            w.object(*id, 0, &encrypt_body(*id, body, *is_stream));
        }
    }
    if !members.is_empty() {
        max_id += 1;
        let stm = max_id;
        let mut head = String::new();
        let mut bodies = Vec::new();
        for (id, b) in &members {
            head.push_str(&format!("{} {} ", id, bodies.len()));
            bodies.extend_from_slice(b);
            bodies.push(b'\n');
        }
        let first = head.len();
        let mut data = head.into_bytes();
        data.extend_from_slice(&bodies);
        let (f, data) = if layout.flate { ("/Filter /FlateDecode", zlib(&data)) } else { ("", data) };
        let body = stream_body(&format!("/Type /ObjStm /N {} /First {} {}", members.len(), first, f), &data);
        w.object(stm, 0, &encrypt_body(stm, &body, true));
        for (i, (id, _)) in members.iter().enumerate() {
            w.record(*id, Entry::Compressed { stm, idx: i as u64 });
        }
    }
    let trailer = match &enc {
        Some((_, _, fields, id0)) => {
            // the encryption dictionary: an indirect object, never encrypted
            max_id += 1;
            let mut b = vec![];
            crate::c06::doc::ser_opt(&fields.to_pv(), &mut |s: &[u8]| s.to_vec(), &mut wr, &mut b, true);
            w.object(max_id, 0, &b);
            format!("/Root 1 0 R /Encrypt {} 0 R /ID [{} {}]", max_id, hex_string(id0), hex_string(id0))
        }
        None => "/Root 1 0 R".to_string(),
    };
    let fmt = if layout.xref_stream { XrefFormat::Stream } else { XrefFormat::Classic };
    let size = max_id + 4;
    w.finish(fmt, size, &trailer, &[], max_id + 1);
    if !stale.is_empty() {
        for (id, body, is_stream) in objects {
            if stale.contains(id) {
                w.object(*id, 0, &encrypt_body(*id, body, *is_stream));
            }
        }
        w.finish(fmt, size, &trailer, &[], max_id + 2);
    }
    w.out
}

const PAGE_MIN: &str = "<< /Type /Page /Parent 2 0 R /MediaBox [0 0 10 10] /Resources << >> >>";

fn graph_objects(g: &Graph) -> Vec<(u64, Vec<u8>, bool)> {
    let mut objs: Vec<(u64, Vec<u8>, bool)> = vec![(3, PAGE_MIN.as_bytes().to_vec(), false)];
    for (id, n) in g {
        objs.push((*id, node_body(*id, n), matches!(n.ty, NT::Stm | NT::Form)));
    }
    objs
}

fn graph_doc(g: &Graph, layout: Layout) -> Vec<u8> {
    write_doc(b"<< /Type /Pages /Kids [3 0 R] /Count 1 >>", &graph_objects(g), layout)
}

// ---------------------------------------------------------------------------------------------------
// reading the copies back

fn collect_refs(p: &Primitive, out: &mut Vec<u64>) {
    match p {
        Primitive::Reference(r) => out.push(r.id),
        Primitive::Array(a) => a.iter().for_each(|x| collect_refs(x, out)),
        Primitive::Dictionary(d) => d.iter().for_each(|(_, v)| collect_refs(v, out)),
        Primitive::Stream(s) => s.info.iter().for_each(|(_, v)| collect_refs(v, out)),
        _ => {}
    }
}

/// the source object number planted in a copy
fn payload_of(p: &Primitive) -> Option<u64> {
    let from_dict = |d: &Dictionary| -> Option<u64> {
        if let Some(v) = d.get("P") {
            return v.as_integer().ok().map(|i| i as u64);
        }
        if let Some(Primitive::Dictionary(cs)) = d.get("ColorSpace") {
            for (k, _) in cs.iter() {
                if let Some(n) = k.as_str().strip_prefix("Id") {
                    return n.parse().ok();
                }
            }
        }
        None
    };
    match p {
        Primitive::Dictionary(d) => from_dict(d),
        Primitive::Stream(s) => from_dict(&s.info),
        Primitive::Array(a) => a.first().and_then(|x| x.as_integer().ok()).map(|i| i as u64),
        _ => None,
    }
}

/// canonical description of what was created: one item per created object, keyed by the source object it
/// is a copy of, kids translated back to source numbers. `sort_kids(old)`: compare as multiset (typed
/// values are re-serialised field by field).
fn fnv8(b: &[u8]) -> String {
    let mut h: u64 = 0xcbf29ce484222325;
    for x in b { h ^= *x as u64; h = h.wrapping_mul(0x100000001b3); }
    format!("{:08x}", h as u32)
}

/// payload digest of a copy as it is in the new document: stream data (raw, as stored) and the string /S
fn content_digest<R: Resolve>(p: &Primitive, r: &R) -> String {
    let (info, data) = match p {
        Primitive::Stream(s) => (Some(&s.info), s.raw_data(r).ok().map(|d| fnv8(&d)).or(Some("unreadable".into()))),
        Primitive::Dictionary(d) => (Some(d), None),
        _ => (None, None),
    };
    let st = info.and_then(|d| d.get("S")).and_then(|x| x.as_string().ok()).map(|x| fnv8(x.as_bytes()));
    format!("{}.{}", data.unwrap_or("-".into()), st.unwrap_or("-".into()))
}

/// the digest the copy of generated node `id` must have, from what the generator wrote (plaintext)
fn expected_digest(kind: &str, id: u64) -> String {
    match kind {
        "Dict" => format!("-.{}", fnv8(&node_string_bytes(id))),
        "Stm" | "Form" => format!("{}.{}", fnv8(&node_data(id)), fnv8(&node_string_bytes(id))),
        _ => "-.-".to_string(),
    }
}

fn canon_objects(objs: &[(u64, Option<u64>, Vec<u64>)], sort_kids: &dyn Fn(u64) -> bool, digests: &BTreeMap<u64, String>) -> String {
    let back: BTreeMap<u64, Option<u64>> = objs.iter().map(|(n, o, _)| (*n, *o)).collect();
    let mut items: Vec<String> = objs
        .iter()
        .map(|(new, old, kids)| {
            let mut ks: Vec<String> = kids
                .iter()
                .map(|k| match back.get(k) {
                    Some(Some(o)) => format!("{}", o),
                    Some(None) => format!("?nopayload{}", k),
                    None => format!("?outside{}", k),
                })
                .collect();
            match old {
                Some(o) => {
                    if sort_kids(*o) { ks.sort(); }
                    format!("{}[{}]#{}", o, ks.join(","), digests.get(new).cloned().unwrap_or_default())
                }
                None => format!("?nopayload{}[{}]", new, ks.join(",")),
            }
        })
        .collect();
    items.sort();
    if items.is_empty() { "-".into() } else { items.join(";") }
}

/// parse the model's `<map>|<objs>` (objs `id:payload:kids`)
fn model_objects(objs: &str) -> Vec<(u64, Option<u64>, Vec<u64>)> {
    if objs == "-" {
        return vec![];
    }
    objs.split(';')
        .filter_map(|o| {
            let f: Vec<&str> = o.split(':').collect();
            if f.len() != 3 { return None; }
            let kids = if f[2] == "-" { vec![] } else { f[2].split('+').filter_map(|x| x.parse().ok()).collect() };
            Some((f[0].parse().ok()?, f[1].parse().ok(), kids))
        })
        .collect()
}

// ---------------------------------------------------------------------------------------------------
// the real importer on a graph document

fn pref(id: u64) -> PlainRef {
    PlainRef { id, gen: 0 }
}

fn outcome<T>(r: std::thread::Result<PdfResult<T>>) -> (&'static str, Option<T>) {
    match r {
        Ok(Ok(v)) => ("ok", Some(v)),
        Ok(Err(_)) => ("err", None),
        Err(_) => ("panic", None),
    }
}

/// case = {"kind":"clone","doc":hex,"roots":"p10+t12+r11","types":{"10":"Dict",..}}
/// → "<results>|<canonical objects>"
fn exec_clone(case: &Value) -> String {
    let doc = unhex(case["doc"].as_str().unwrap_or("-")).unwrap_or_default();
    let roots: Vec<(char, u64)> = parse_edges(case["roots"].as_str().unwrap_or("-"));
    let types = &case["types"];
    let ty = |id: u64| types[id.to_string()].as_str().unwrap_or("").to_string();
    let old = match FileOptions::uncached().load(doc) {
        Ok(f) => f,
        Err(e) => return format!("load-failed:{}", e),
    };
    let mut builder = PdfBuilder::new(FileOptions::uncached());
    let mut rec = Rec { inner: &mut builder.storage, created: vec![] };
    let mut results = vec![];
    {
        let mut imp = Importer::new(old.resolver(), &mut rec);
        for (k, t) in &roots {
            let t = *t;
            let r: (&str, Option<u64>) = match (*k, ty(t).as_str()) {
                ('p', _) => outcome(catch_unwind(AssertUnwindSafe(|| imp.clone_plainref(pref(t)).map(|r| r.id)))),
                ('t', "Res") => outcome(catch_unwind(AssertUnwindSafe(|| imp.clone_ref::<Resources>(Ref::new(pref(t))).map(|r| r.get_inner().id)))),
                ('t', _) => outcome(catch_unwind(AssertUnwindSafe(|| imp.clone_ref::<XObject>(Ref::new(pref(t))).map(|r| r.get_inner().id)))),
                ('r', "Res") => outcome(catch_unwind(AssertUnwindSafe(|| {
                    let rc = imp.get::<Resources>(Ref::new(pref(t)))?;
                    imp.clone_rcref(&rc).map(|r| r.get_ref().get_inner().id)
                }))),
                ('r', "Form") => outcome(catch_unwind(AssertUnwindSafe(|| {
                    let rc = imp.get::<XObject>(Ref::new(pref(t)))?;
                    imp.clone_rcref(&rc).map(|r| r.get_ref().get_inner().id)
                }))),
                ('r', _) => outcome(catch_unwind(AssertUnwindSafe(|| {
                    let rc = imp.get::<Dictionary>(Ref::new(pref(t)))?;
                    imp.clone_rcref(&rc).map(|r| r.get_ref().get_inner().id)
                }))),
                _ => ("bad-root", None),
            };
            results.push((r.0.to_string(), r.1, t));
            if r.0 == "panic" {
                break; // the importer's state is not to be trusted after an unwind
            }
        }
    }
    let created = rec.created;
    let res = builder.storage.resolver();
    let objs: Vec<(u64, Option<u64>, Vec<u64>)> = created
        .iter()
        .map(|r| match res.resolve(*r) {
            Ok(p) => {
                let mut ks = vec![];
                collect_refs(&p, &mut ks);
                (r.id, payload_of(&p), ks)
            }
            Err(_) => (r.id, None, vec![]),
        })
        .collect();
    let back: BTreeMap<u64, Option<u64>> = objs.iter().map(|(n, o, _)| (*n, *o)).collect();
    let rs: Vec<String> = results
        .iter()
        .map(|(o, n, t)| match n {
            Some(n) => if back.get(n) == Some(&Some(*t)) { "ok".to_string() } else { format!("ok-but-wrong-object:{}", n) },
            None => o.clone(),
        })
        .collect();
    let typed = |o: u64| matches!(ty(o).as_str(), "Res" | "Form");
    let digests: BTreeMap<u64, String> = created.iter().filter_map(|r| res.resolve(*r).ok().map(|p| (r.id, content_digest(&p, &res)))).collect();
    format!("{}|{}", if rs.is_empty() { "-".to_string() } else { rs.join(",") }, canon_objects(&objs, &typed, &digests))
}

fn parse_edges(s: &str) -> Vec<(char, u64)> {
    if s == "-" {
        return vec![];
    }
    s.split('+').filter_map(|e| { let c = e.chars().next()?; Some((c, e[1..].parse().ok()?)) }).collect()
}

/// the model's answer in the same canonical form
fn model_digests(objs: &[(u64, Option<u64>, Vec<u64>)], kind_of: &dyn Fn(u64) -> String) -> BTreeMap<u64, String> {
    objs.iter().filter_map(|(n, o, _)| o.map(|o| (*n, expected_digest(&kind_of(o), o)))).collect()
}

fn canon_model_clone(resp: &str, roots: &[(char, u64)], kind_of: &dyn Fn(u64) -> String) -> String {
    let typed = &|o: u64| matches!(kind_of(o).as_str(), "Res" | "Form");
    let parts: Vec<&str> = resp.split('|').collect();
    if parts.len() != 3 {
        return format!("model:{}", resp);
    }
    let objs = model_objects(parts[2]);
    let back: BTreeMap<u64, Option<u64>> = objs.iter().map(|(n, o, _)| (*n, *o)).collect();
    let rs: Vec<String> = if parts[0] == "-" { vec![] } else {
        parts[0].split(',').zip(roots.iter()).map(|(r, (_, t))| {
            if let Some(n) = r.strip_prefix("ok.") {
                let n: u64 = n.parse().unwrap_or(u64::MAX);
                if back.get(&n) == Some(&Some(*t)) { "ok".to_string() } else { format!("ok-but-wrong-object:{}", n) }
            } else { r.to_string() }
        }).collect()
    };
    // the real run stops at the first panic; the model has none after the fixes
    format!("{}|{}", if rs.is_empty() { "-".to_string() } else { rs.join(",") }, canon_objects(&objs, typed, &model_digests(&objs, kind_of)))
}

// =====================================================================================================
// child processes

/// one case, by kind
fn exec_case(c: &Value) -> Value {
    match c["kind"].as_str().unwrap_or("") {
        "clone" => json!(exec_clone(c)),
        "import" => exec_import(c),
        "page" => json!(exec_page(c)),
        "frompage" => json!(exec_frompage(c)),
        _ => json!("bad-case"),
    }
}

/// Run `cases` in child processes (a crash or a time-out of one case does not take the others down).
/// Result per case: Ok(answer) | Err("abort: …" | "timeout").
fn run_in_children(cases: &[Value], secs_per_case: u64) -> Vec<Result<Value, String>> {
    let exe = std::env::current_exe().expect("current_exe");
    let mut results: Vec<Result<Value, String>> = vec![];
    let mut start = 0usize;
    let mut restarts = 0;
    static COUNTER: std::sync::atomic::AtomicU64 = std::sync::atomic::AtomicU64::new(0);
    while start < cases.len() {
        let n = COUNTER.fetch_add(1, std::sync::atomic::Ordering::SeqCst);
        let base = std::env::temp_dir().join(format!("pdfverif-c20-{}-{}", std::process::id(), n));
        let req = base.with_extension("req.json");
        let prog = base.with_extension("progress");
        let out = base.with_extension("out.json");
        let batch = &cases[start..];
        std::fs::write(&req, serde_json::to_string(&json!({"child": true, "progress": prog.to_string_lossy(), "cases": batch})).unwrap()).expect("write child request");
        let _ = std::fs::remove_file(&prog);
        let mut child = std::process::Command::new(&exe)
            .args(["C20", "--driver", "/nonexistent", "--out", &out.to_string_lossy(), "--replay", &req.to_string_lossy()])
            .stdout(std::process::Stdio::null())
            .stderr(std::process::Stdio::null())
            .spawn()
            .expect("spawn child");
        let t0 = Instant::now();
        let limit = Duration::from_secs(secs_per_case * (batch.len() as u64).min(40) + 10);
        let mut done_lines = 0usize;
        let mut last_progress = Instant::now();
        let status: Result<std::process::ExitStatus, &str> = loop {
            match child.try_wait() {
                Ok(Some(st)) => break Ok(st),
                Ok(None) => {}
                Err(_) => break Err("wait-failed"),
            }
            let lines = std::fs::read_to_string(&prog).map(|s| s.lines().count()).unwrap_or(0);
            if lines != done_lines { done_lines = lines; last_progress = Instant::now(); }
            if last_progress.elapsed() > Duration::from_secs(secs_per_case) || t0.elapsed() > limit {
                let _ = child.kill();
                let _ = child.wait();
                break Err("timeout");
            }
            std::thread::sleep(Duration::from_millis(15));
        };
        let text = std::fs::read_to_string(&prog).unwrap_or_default();
        let got: Vec<Value> = text.lines().filter_map(|l| serde_json::from_str(l).ok()).collect();
        for v in &got {
            results.push(Ok(v.clone()));
        }
        let _ = std::fs::remove_file(&req);
        let _ = std::fs::remove_file(&prog);
        let _ = std::fs::remove_file(&out);
        start += got.len();
        if start < cases.len() {
            // the case after the last finished one took the child down
            let why = match status {
                Err(e) => e.to_string(),
                Ok(st) => format!("abort: child ended with {:?} (stack overflow / abort)", st),
            };
            results.push(Err(why));
            start += 1;
            restarts += 1;
            if restarts > 40 {
                while results.len() < cases.len() { results.push(Err("not-run: too many child crashes".into())); }
                break;
            }
        }
    }
    results
}

fn child_main(req: &Value) -> Report {
    let prog = req["progress"].as_str().unwrap_or("").to_string();
    let mut text = String::new();
    for c in req["cases"].as_array().cloned().unwrap_or_default() {
        let v = exec_case(&c);
        text.push_str(&serde_json::to_string(&v).unwrap());
        text.push('\n');
        std::fs::write(&prog, &text).ok();
    }
    Report::new("C20")
}

// =====================================================================================================
// correspondence: clone

fn ty_name(t: NT) -> &'static str {
    match t { NT::Dict => "Dict", NT::Arr => "Arr", NT::Stm => "Stm", NT::Res => "Res", NT::Form => "Form" }
}

fn types_json(g: &Graph) -> Value {
    let mut m = serde_json::Map::new();
    for (id, n) in g {
        m.insert(id.to_string(), json!(ty_name(n.ty)));
    }
    Value::Object(m)
}

fn has_cycle(g: &Graph) -> bool {
    // colours: 0 white 1 grey 2 black
    fn visit(g: &Graph, v: u64, col: &mut BTreeMap<u64, u8>) -> bool {
        match col.get(&v) { Some(1) => return true, Some(2) => return false, _ => {} }
        let n = match g.get(&v) { Some(n) => n, None => return false };
        col.insert(v, 1);
        let mut ks = n.k.clone();
        ks.extend(n.a);
        ks.extend(n.b);
        for k in ks {
            if visit(g, k, col) { return true; }
        }
        col.insert(v, 2);
        false
    }
    let mut col = BTreeMap::new();
    g.keys().any(|v| visit(g, *v, &mut col))
}

struct CloneCase {
    g: Graph,
    roots: Vec<(char, u64)>,
    layout: Layout,
}

impl CloneCase {
    fn request(&self) -> String {
        // fuel: more than the number of objects (clone_total); the new document starts empty
        format!("c20.clone {} 0 {} {}", self.g.len() + 2, nodes_str(&self.g), edges_str(&self.roots))
    }
    fn case_json(&self) -> Value {
        json!({"kind": "clone", "doc": hex(&graph_doc(&self.g, self.layout)), "roots": edges_str(&self.roots), "types": types_json(&self.g)})
    }
}


fn run_clone_cases(driver: &Driver, st: &mut Stream, cases: &[CloneCase]) {
    let reqs: Vec<String> = cases.iter().map(|c| c.request()).collect();
    let resp = driver.ask(&reqs);
    // cyclic graphs may overflow the stack of a broken implementation: child processes
    let risky: Vec<usize> = (0..cases.len()).filter(|i| has_cycle(&cases[*i].g)).collect();
    let risky_json: Vec<Value> = risky.iter().map(|i| cases[*i].case_json()).collect();
    let risky_res = run_in_children(&risky_json, 10);
    let mut risky_map: BTreeMap<usize, String> = BTreeMap::new();
    for (i, r) in risky.iter().zip(risky_res.into_iter()) {
        risky_map.insert(*i, match r { Ok(v) => v.as_str().unwrap_or("bad-child-answer").to_string(), Err(e) => e });
    }
    for (i, c) in cases.iter().enumerate() {
        let imp = match risky_map.remove(&i) {
            Some(a) => { st.count("ran=child"); a }
            None => { st.count("ran=in-process"); exec_clone(&c.case_json()) }
        };
        let g = &c.g;
        let kind_of = |o: u64| g.get(&o).map(|n| ty_name(n.ty).to_string()).unwrap_or_default();
        let model = canon_model_clone(&resp[i], &c.roots, &kind_of);
        let oc = model.split('|').next().unwrap_or("").to_string();
        st.count(&format!("outcome={}", if oc.contains("err") { "some-err" } else if oc == "-" { "no-roots" } else { "all-ok" }));
        st.count(if has_cycle(g) { "graph=cyclic" } else { "graph=acyclic" });
        let nontrivial = g.values().any(|n| !n.k.is_empty() || n.a.is_some() || n.b.is_some());
        if model != imp {
            // a disagreement record carries the document, so that it can be replayed
            st.case(&format!("{} # {}", reqs[i], c.case_json()), &model, &imp, nontrivial);
        } else {
            st.case(&reqs[i], &model, &imp, nontrivial);
        }
    }
}

fn clone_exhaustive(driver: &Driver, max_nodes: u64) -> Stream {
    let mut st = Stream::new("c20.clone.exhaustive", true);
    st.exhaustive = true;
    let mut cases = vec![];
    for n in 1..=max_nodes {
        let ids: Vec<u64> = (0..n).map(|i| 10 + i).collect();
        // targets: the nodes and one missing object
        let mut targets = ids.clone();
        targets.push(99);
        // kid lists of length 0, 1, 2 (with repetition)
        let mut lists: Vec<Vec<u64>> = vec![vec![]];
        for a in &targets { lists.push(vec![*a]); }
        for a in &targets { for b in &targets { lists.push(vec![*a, *b]); } }
        let per = lists.len();
        let combos = per.pow(n as u32);
        // root sequences: one root or two roots
        let mut rootseqs: Vec<Vec<u64>> = vec![];
        for a in &targets { rootseqs.push(vec![*a]); }
        for a in &ids { for b in &ids { rootseqs.push(vec![*a, *b]); } }
        for c in 0..combos {
            let mut g = Graph::new();
            let mut x = c;
            for (ix, id) in ids.iter().enumerate() {
                let l = &lists[x % per];
                x /= per;
                let ty = [NT::Dict, NT::Arr, NT::Stm][(ix + c) % 3];
                g.insert(*id, GNode { ty, k: l.clone(), a: None, b: None });
            }
            for rs in &rootseqs {
                // 3-node graphs: all single roots, and the two-root sequences that start at the first node
                if n >= 3 && rs.len() == 2 && rs[0] != ids[0] { continue; }
                cases.push(CloneCase { g: g.clone(), roots: rs.iter().map(|r| ('p', *r)).collect(), layout: PLAIN });
            }
        }
    }
    run_clone_cases(driver, &mut st, &cases);
    st
}

fn random_graph(rng: &mut Rng, allow_cycles: bool, allow_missing: bool) -> Graph {
    let n = 1 + rng.below(9);
    let ids: Vec<u64> = (0..n).map(|i| 10 + i).collect();
    let mut tys: Vec<NT> = ids.iter().map(|_| *rng.pick(&[NT::Dict, NT::Dict, NT::Arr, NT::Stm, NT::Res, NT::Res, NT::Form, NT::Form])).collect();
    let forms: Vec<u64> = ids.iter().zip(tys.iter()).filter(|(_, t)| **t == NT::Form).map(|(i, _)| *i).collect();
    let ress: Vec<u64> = ids.iter().zip(tys.iter()).filter(|(_, t)| **t == NT::Res).map(|(i, _)| *i).collect();
    // a Res node needs forms to point at, a Form may go without /Resources
    if forms.is_empty() { for t in tys.iter_mut() { if *t == NT::Res && rng.chance(1, 2) { *t = NT::Dict; } } }
    let mut g = Graph::new();
    // edges go forward (towards larger numbers) unless a cycle is wanted; sharing comes from the small range
    let pick = |rng: &mut Rng, from: u64, pool: &[u64], back: bool| -> Option<u64> {
        let c: Vec<u64> = pool.iter().cloned().filter(|t| back || *t > from).collect();
        if c.is_empty() { None } else { Some(*rng.pick(&c)) }
    };
    for (ix, id) in ids.iter().enumerate() {
        let back = allow_cycles && rng.chance(1, 4);
        let mut any = |rng: &mut Rng| -> Option<u64> {
            if allow_missing && rng.chance(1, 25) { return Some(900 + rng.below(3)); }
            pick(rng, *id, &ids, back)
        };
        let node = match tys[ix] {
            NT::Dict | NT::Arr | NT::Stm => {
                let k: Vec<u64> = (0..rng.below(4)).filter_map(|_| any(rng)).collect();
                GNode { ty: tys[ix], k, a: None, b: None }
            }
            NT::Res => {
                let a = if rng.chance(3, 4) { if allow_missing && rng.chance(1, 30) { Some(950) } else { pick(rng, *id, &forms, back) } } else { None };
                let b = if rng.chance(1, 2) { any(rng) } else { None };
                GNode { ty: NT::Res, k: vec![], a, b }
            }
            NT::Form => {
                let a = if rng.chance(3, 4) { pick(rng, *id, &ress, back) } else { None };
                let k: Vec<u64> = (0..rng.below(3)).filter_map(|_| any(rng)).collect();
                GNode { ty: NT::Form, k, a, b: None }
            }
        };
        g.insert(*id, node);
    }
    g
}

fn random_roots(rng: &mut Rng, g: &Graph) -> Vec<(char, u64)> {
    let ids: Vec<u64> = g.keys().cloned().collect();
    let n = 1 + rng.below(4);
    (0..n)
        .map(|_| {
            let t = *rng.pick(&ids);
            let k = match g[&t].ty {
                NT::Dict => *rng.pick(&['p', 'p', 'r']),
                NT::Arr | NT::Stm => 'p',
                NT::Res => *rng.pick(&['p', 't', 'r', 'r']),
                NT::Form => *rng.pick(&['p', 't', 't', 'r']),
            };
            (k, t)
        })
        .collect()
}

fn clone_random(driver: &Driver, seed: u64, n: u64) -> Stream {
    let mut st = Stream::new("c20.clone.random", true);
    let mut cases = vec![];
    for case in 0..n {
        let mut rng = Rng::derive(seed, "c20.clone.random", case);
        let cyc = rng.chance(1, 5);
        let miss = rng.chance(1, 5);
        let g = random_graph(&mut rng, cyc, miss);
        let roots = random_roots(&mut rng, &g);
        let layout = random_layout(&mut rng, (1, 3));
        st.count(&format!("nodes={}", g.len()));
        for (k, _) in &roots { st.count(&format!("root-kind={}", k)); }
        for l in layout_label(&layout) { st.count(&l); }
        cases.push(CloneCase { g, roots, layout });
    }
    run_clone_cases(driver, &mut st, &cases);
    st
}

// =====================================================================================================
// page documents (correspondence c20.page / c20.frompage and generated inputs of the oracle)

#[derive(Clone, Debug)]
enum OpSpec {
    /// names resource `name` of category `kind` (index into RES_KINDS); the last field selects among the
    /// operators / positions that can name a resource of that category
    Use(usize, u64, u8),
    /// BDC with a property list holding references
    Inline(Vec<u64>),
    /// anything else
    Other(u64),
}

#[derive(Clone, Debug)]
struct ResSpec {
    kind: usize,
    name: u64,
    payload: u64,
    /// gs: /K references (prim); font: one target (prim); xobject: one form (ref); properties: one dictionary
    /// (MaybeRef: rc); others: one target, never followed
    kids: Vec<u64>,
    /// oracle documents only: the entry's value verbatim
    raw: Option<String>,
}

#[derive(Clone, Copy, Debug, PartialEq)]
enum ResMode {
    Direct,
    Indirect,
    /// the same /Resources object as page `i` of the document (that page is `Indirect`)
    SharedWith(usize),
}

/// the inheritable entries a node of the page tree (a page or a /Pages node) carries itself. Boxes are value
/// numbers: /MediaBox v (1..=40) = [0 0 100+v 200+v], /CropBox v (41..=80) = [1 1 50+v 60+v]
#[derive(Clone, Debug, Default)]
struct Attrs {
    media: Option<u64>,
    crop: Option<u64>,
    rotate: Option<u64>,
    res: Option<Vec<ResSpec>>,
}

#[derive(Clone, Debug)]
struct TNode {
    parent: Option<usize>,
    attrs: Attrs,
    /// the /Resources of this /Pages node as an indirect object
    res_indirect: bool,
}

#[derive(Clone, Debug)]
enum Kid { Node(usize), Page(usize) }

#[derive(Clone, Debug)]
struct PSpec {
    attrs: Attrs,
    /// /TrimBox v (81..=120) = [2 2 30+v 40+v]; not inheritable
    trim: Option<u64>,
    /// index into `PDoc::tree`
    parent: usize,
    res_mode: ResMode,
    ops: Vec<OpSpec>,
    /// page-level /K references (land in `Page::other`)
    rest: Vec<u64>,
    /// /Group << /CS [/ICCBased n 0 R] >> (oracle documents)
    group_cs: Option<u64>,
    /// /Metadata reference, references inside /VP
    meta: Option<u64>,
    vp: Vec<u64>,
    flate: bool,
    split: bool,
    no_contents: bool,
    /// bit k: the category dictionary of kind k is an indirect object
    cat_indirect: u8,
    /// ExtGState entries are indirect objects
    entry_indirect: bool,
}

struct PDoc {
    /// node 0 is the root (object 2)
    tree: Vec<TNode>,
    kids: Vec<Vec<Kid>>,
    pages: Vec<PSpec>,
    /// resource names are shared by all categories (`/R1` may be a font and an XObject and …)
    collide: bool,
}

const KIND_PREFIX: [&str; 7] = ["G", "F", "X", "C", "Pt", "Sh", "MC"];

fn res_name(kind: usize, name: u64, collide: bool) -> String {
    if collide { format!("R{}", name) } else { format!("{}{}", KIND_PREFIX[kind], name) }
}

/// the number at the end of a resource name
fn name_number(n: &str) -> String {
    n.trim_start_matches(|c: char| !c.is_ascii_digit()).to_string()
}

fn media_rect(v: u64) -> [i64; 4] { [0, 0, 100 + v as i64, 200 + v as i64] }
fn crop_rect(v: u64) -> [i64; 4] { [1, 1, 50 + v as i64, 60 + v as i64] }
fn trim_rect(v: u64) -> [i64; 4] { [2, 2, 30 + v as i64, 40 + v as i64] }

/// value number of a rectangle the library reports (inverse of the three encodings)
fn rect_value(r: &pdf::object::Rectangle) -> String {
    let (l, b, rt, t) = (r.left, r.bottom, r.right, r.top);
    if l == 0.0 && b == 0.0 && t == rt + 100.0 { format!("{}", rt - 100.0) }
    else if l == 1.0 && b == 1.0 && t == rt + 10.0 { format!("{}", rt - 50.0) }
    else if l == 2.0 && b == 2.0 && t == rt + 10.0 { format!("{}", rt - 30.0) }
    else { format!("?[{} {} {} {}]", l, b, rt, t) }
}

/// a /Resources dictionary; `alloc` turns a body into an indirect object and returns its number
fn res_dict_text(res: &[ResSpec], collide: bool, cat_indirect: u8, entry_indirect: bool, alloc: &mut dyn FnMut(Vec<u8>) -> u64) -> String {
    let mut s = String::from("<<");
    for kind in 0..7 {
        let es: Vec<&ResSpec> = res.iter().filter(|r| r.kind == kind).collect();
        if es.is_empty() { continue; }
        let mut c = String::from("<<");
        for e in es {
            let n = res_name(kind, e.name, collide);
            let val = if let Some(raw) = &e.raw { raw.clone() } else {
                match kind {
                    0 => format!("<< /Type /ExtGState /LW 2 /P {} /K [{}] >>", e.payload, refs_txt(&e.kids)),
                    3 => "/DeviceRGB".to_string(),
                    _ => match e.kids.first() { Some(t) => format!("{} 0 R", t), None => continue },
                }
            };
            if kind == 0 && entry_indirect {
                c.push_str(&format!(" /{} {} 0 R", n, alloc(val.into_bytes())));
            } else {
                c.push_str(&format!(" /{} {}", n, val));
            }
        }
        c.push_str(" >>");
        if cat_indirect & (1 << kind) != 0 {
            s.push_str(&format!(" /{} {} 0 R", RES_KINDS[kind], alloc(c.into_bytes())));
        } else {
            s.push_str(&format!(" /{} {}", RES_KINDS[kind], c));
        }
    }
    s.push_str(" >>");
    s
}

fn ops_text_of(ops: &[OpSpec], collide: bool) -> String {
    let mut s = String::new();
    for op in ops {
        match op {
            OpSpec::Use(0, n, _) => s.push_str(&format!("/{} gs\n", res_name(0, *n, collide))),
            OpSpec::Use(1, n, v) => if v % 2 == 0 { s.push_str(&format!("BT /{} 12 Tf ET\n", res_name(1, *n, collide))) } else { s.push_str(&format!("/{} 9.5 Tf\n", res_name(1, *n, collide))) },
            OpSpec::Use(2, n, _) => s.push_str(&format!("/{} Do\n", res_name(2, *n, collide))),
            OpSpec::Use(3, n, v) => match v % 3 {
                0 => s.push_str(&format!("/{} cs\n", res_name(3, *n, collide))),
                1 => s.push_str(&format!("/{} CS\n", res_name(3, *n, collide))),
                // an inline image whose colour space is a resource name
                _ => s.push_str(&format!("BI /W 1 /H 1 /BPC 8 /CS /{} ID\nA\nEI\n", res_name(3, *n, collide))),
            },
            OpSpec::Use(4, n, v) => if v % 2 == 0 { s.push_str(&format!("/Pattern cs /{} scn\n", res_name(4, *n, collide))) } else { s.push_str(&format!("/Pattern CS 0.5 /{} SCN\n", res_name(4, *n, collide))) },
            OpSpec::Use(5, n, _) => s.push_str(&format!("/{} sh\n", res_name(5, *n, collide))),
            OpSpec::Use(_, n, v) => if v % 2 == 0 { s.push_str(&format!("/OC /{} BDC EMC\n", res_name(6, *n, collide))) } else { s.push_str(&format!("/Tag /{} DP\n", res_name(6, *n, collide))) },
            OpSpec::Inline(k) => s.push_str(&format!("/Span << /K [{}] >> BDC EMC\n", refs_txt(k))),
            OpSpec::Other(t) => s.push_str(["q\n", "Q\n", "1 0 0 1 5 5 cm\n", "0 0 10 10 re\n", "f\n", "0.5 g\n", "BT (text) Tj ET\n", "1 0 0 RG\n"][(*t % 8) as usize]),
        }
    }
    s
}

fn res_model(res: &[ResSpec]) -> String {
    let v: Vec<String> = res.iter().map(|r| {
        let kids: Vec<(char, u64)> = match r.kind {
            0 | 1 => r.kids.iter().map(|t| ('p', *t)).collect(),
            2 | 4 => r.kids.iter().map(|t| ('t', *t)).collect(), // Ref<XObject>, Ref<Pattern>
            6 => r.kids.iter().map(|t| ('r', *t)).collect(), // MaybeRef<Dictionary>: clone_rcref
            _ => vec![],
        };
        let payload = if r.kind == 0 { r.payload } else { 0 };
        format!("{}.{}.{}:{}", r.kind, r.name, payload, edges_str(&kids))
    }).collect();
    if v.is_empty() { "-".into() } else { v.join(",") }
}

impl PDoc {
    /// the nodes above page `i`, nearest first
    fn ancestors(&self, i: usize) -> Vec<usize> {
        let mut v = vec![];
        let mut cur = Some(self.pages[i].parent);
        while let Some(n) = cur { v.push(n); cur = self.tree[n].parent; }
        v
    }
    fn chain<T>(&self, i: usize, f: &dyn Fn(&Attrs) -> Option<T>) -> Vec<Option<T>> {
        let mut v = vec![f(&self.pages[i].attrs)];
        for n in self.ancestors(i) { v.push(f(&self.tree[n].attrs)); }
        v
    }
    /// model request field of page `i`: `ops/resChain/rest/media/crop/trim/rotate`
    fn page_model(&self, i: usize) -> String {
        let p = &self.pages[i];
        let ops: Vec<String> = if p.no_contents { vec![] } else { p.ops.iter().map(|o| match o {
            OpSpec::Use(k, n, _) => format!("u{}.{}", k, n),
            OpSpec::Inline(k) => format!("i:{}", edges_str(&k.iter().map(|t| ('p', *t)).collect::<Vec<_>>())),
            OpSpec::Other(t) => format!("o{}", t),
        }).collect() };
        let opt = |c: Vec<Option<u64>>| c.iter().map(|x| x.map(|v| v.to_string()).unwrap_or("!".into())).collect::<Vec<_>>().join("~");
        let res: Vec<String> = self.chain(i, &|a| a.res.clone()).iter().map(|l| match l { None => "!".to_string(), Some(r) => res_model(r) }).collect();
        let mut rest: Vec<(char, u64)> = vec![];
        if let Some(m) = p.meta { rest.push(('p', m)); }
        for x in &p.vp { rest.push(('p', *x)); }
        for x in &p.rest { rest.push(('p', *x)); }
        if let Some(c) = p.group_cs { rest.push(('p', c)); }
        format!("{}/{}/{}/{}/{}/{}/{}", if ops.is_empty() { "-".to_string() } else { ops.join(",") }, res.join("~"), edges_str(&rest),
            opt(self.chain(i, &|a| a.media)), opt(self.chain(i, &|a| a.crop)), p.trim.map(|v| v.to_string()).unwrap_or("!".into()), opt(self.chain(i, &|a| a.rotate)))
    }
}

fn box_txt(b: &[i64; 4]) -> String { format!("[{} {} {} {}]", b[0], b[1], b[2], b[3]) }

fn attrs_text(a: &Attrs) -> String {
    let mut d = String::new();
    if let Some(v) = a.media { d.push_str(&format!(" /MediaBox {}", box_txt(&media_rect(v)))); }
    if let Some(v) = a.crop { d.push_str(&format!(" /CropBox {}", box_txt(&crop_rect(v)))); }
    if let Some(v) = a.rotate { d.push_str(&format!(" /Rotate {}", v)); }
    d
}

/// Object numbers: 2 root, pages 3.., content streams after them (two per page), /Pages nodes 30.., indirect
/// resource dictionaries / category dictionaries / entries 40..99; graph nodes keep their numbers (≥ 100)
fn page_doc(doc: &PDoc, g: &Graph, extra: &[(u64, Vec<u8>, bool)], layout: Layout) -> Vec<u8> {
    let (root_body, objs) = page_doc_parts(doc, g, extra);
    write_doc(&root_body, &objs, layout)
}

/// what the generator knows about a page document independently of any reader: the data of every stream object
/// and the operations of every page, in plaintext
fn ground_truth(doc: &PDoc, objs: &[(u64, Vec<u8>, bool)]) -> (Value, Value) {
    let mut plain = serde_json::Map::new();
    for (id, d) in plain_streams(objs) { plain.insert(id.to_string(), json!(hex(&d))); }
    let mut content = serde_json::Map::new();
    for (i, p) in doc.pages.iter().enumerate() {
        content.insert(i.to_string(), json!(hex(if p.no_contents { String::new() } else { ops_text_of(&p.ops, doc.collide) }.as_bytes())));
    }
    (Value::Object(plain), Value::Object(content))
}

fn page_doc_parts(doc: &PDoc, g: &Graph, extra: &[(u64, Vec<u8>, bool)]) -> (Vec<u8>, Vec<(u64, Vec<u8>, bool)>) {
    let mut objs: Vec<(u64, Vec<u8>, bool)> = vec![];
    let np = doc.pages.len() as u64;
    let node_id = |n: usize| if n == 0 { 2 } else { 29 + n as u64 };
    let mut next_extra = 40u64;
    let mut extras: Vec<(u64, Vec<u8>, bool)> = vec![];
    let mut alloc = |body: Vec<u8>| -> u64 { let id = next_extra; next_extra += 1; extras.push((id, body, false)); id };
    // own /Resources objects of the pages that have an indirect one
    let mut res_obj: BTreeMap<usize, u64> = BTreeMap::new();
    for (i, p) in doc.pages.iter().enumerate() {
        if let (ResMode::Indirect, Some(res)) = (p.res_mode, &p.attrs.res) {
            let body = res_dict_text(res, doc.collide, p.cat_indirect, p.entry_indirect, &mut alloc);
            let id = alloc(body.into_bytes());
            res_obj.insert(i, id);
        }
    }
    for (i, p) in doc.pages.iter().enumerate() {
        let pid = 3 + i as u64;
        let cid = 3 + np + 2 * i as u64;
        let mut d = format!("<< /Type /Page /Parent {} 0 R{}", node_id(p.parent), attrs_text(&p.attrs));
        if let Some(t) = p.trim { d.push_str(&format!(" /TrimBox {}", box_txt(&trim_rect(t)))); }
        if let Some(res) = &p.attrs.res {
            match p.res_mode {
                ResMode::Direct => { let t = res_dict_text(res, doc.collide, p.cat_indirect, p.entry_indirect, &mut alloc); d.push_str(&format!(" /Resources {}", t)); }
                ResMode::Indirect => d.push_str(&format!(" /Resources {} 0 R", res_obj[&i])),
                ResMode::SharedWith(j) => d.push_str(&format!(" /Resources {} 0 R", res_obj[&j])),
            }
        }
        if !p.no_contents {
            let text = ops_text_of(&p.ops, doc.collide);
            let mk = |t: &str| -> Vec<u8> { if p.flate { stream_body("/Filter /FlateDecode", &zlib(t.as_bytes())) } else { stream_body("", t.as_bytes()) } };
            if p.split && text.lines().count() >= 2 {
                let lines: Vec<&str> = text.lines().collect();
                let h = lines.len() / 2;
                objs.push((cid, mk(&(lines[..h].join("\n") + "\n")), true));
                objs.push((cid + 1, mk(&(lines[h..].join("\n") + "\n")), true));
                d.push_str(&format!(" /Contents [{} 0 R {} 0 R]", cid, cid + 1));
            } else {
                objs.push((cid, mk(&text), true));
                d.push_str(&format!(" /Contents {} 0 R", cid));
            }
        }
        if let Some(m) = p.meta { d.push_str(&format!(" /Metadata {} 0 R", m)); }
        if !p.vp.is_empty() { d.push_str(&format!(" /VP [<< /Type /Viewport /K [{}] >>]", refs_txt(&p.vp))); }
        if !p.rest.is_empty() { d.push_str(&format!(" /K [{}]", refs_txt(&p.rest))); }
        if let Some(c) = p.group_cs { d.push_str(&format!(" /Group << /S /Transparency /CS [/ICCBased {} 0 R] >>", c)); }
        d.push_str(" >>");
        objs.push((pid, d.into_bytes(), false));
    }
    // the /Pages nodes
    fn count(doc: &PDoc, n: usize) -> usize {
        doc.kids[n].iter().map(|k| match k { Kid::Page(_) => 1, Kid::Node(m) => count(doc, *m) }).sum()
    }
    let mut root_body = vec![];
    for (n, node) in doc.tree.iter().enumerate() {
        let kids: Vec<String> = doc.kids[n].iter().map(|k| match k { Kid::Page(i) => format!("{} 0 R", 3 + *i as u64), Kid::Node(m) => format!("{} 0 R", node_id(*m)) }).collect();
        let mut d = format!("<< /Type /Pages /Kids [{}] /Count {}{}", kids.join(" "), count(doc, n), attrs_text(&node.attrs));
        if let Some(p) = node.parent { d.push_str(&format!(" /Parent {} 0 R", node_id(p))); }
        if let Some(res) = &node.attrs.res {
            let t = res_dict_text(res, doc.collide, 0, false, &mut alloc);
            if node.res_indirect { d.push_str(&format!(" /Resources {} 0 R", alloc(t.into_bytes()))); } else { d.push_str(&format!(" /Resources {}", t)); }
        }
        d.push_str(" >>");
        if n == 0 { root_body = d.into_bytes(); } else { objs.push((node_id(n), d.into_bytes(), false)); }
    }
    objs.extend(extras);
    for (id, n) in g {
        objs.push((*id, node_body(*id, n), matches!(n.ty, NT::Stm | NT::Form)));
    }
    for e in extra { objs.push(e.clone()); }
    (root_body, objs)
}

/// entries of a resource dictionary as written by the library: `kind.name.payload:kids` (kids through `tr`)
fn res_entries(resd: &Primitive, tr: &dyn Fn(&u64) -> String) -> Vec<String> {
    let mut entries = vec![];
    if let Primitive::Dictionary(d) = resd {
        for (kind, kn) in RES_KINDS.iter().enumerate() {
            if let Some(Primitive::Dictionary(cat)) = d.get(kn) {
                for (name, v) in cat.iter() {
                    let mut ks = vec![];
                    collect_refs(v, &mut ks);
                    let payload = match v { Primitive::Dictionary(e) => e.get("P").and_then(|p| p.as_integer().ok()).unwrap_or(0), _ => 0 };
                    entries.push(format!("{}.{}.{}:{}", kind, name_number(name.as_str()), payload, ks.iter().map(tr).collect::<Vec<_>>().join("+")));
                }
            }
        }
    }
    entries.sort();
    entries
}

fn boxes_str(pb: &PageBuilder) -> String {
    format!("{}.{}.{}.{}", pb.media_box.as_ref().map(rect_value).unwrap_or("!".into()), pb.crop_box.as_ref().map(rect_value).unwrap_or("!".into()),
        pb.trim_box.as_ref().map(rect_value).unwrap_or("!".into()), pb.rotate)
}

/// case = {"kind":"page","doc":hex,"pages":[indices..],"types":{..},"pre":n} → "<page results> |<canonical objects>"
fn exec_page(case: &Value) -> String {
    let doc = unhex(case["doc"].as_str().unwrap_or("-")).unwrap_or_default();
    let pages: Vec<u32> = case["pages"].as_array().map(|a| a.iter().filter_map(|x| x.as_u64()).map(|x| x as u32).collect()).unwrap_or_default();
    let pre = case["pre"].as_u64().unwrap_or(0);
    let types = &case["types"];
    let ty = |id: u64| types[id.to_string()].as_str().unwrap_or("").to_string();
    let old = match FileOptions::uncached().load(doc) { Ok(f) => f, Err(e) => return format!("load-failed:{}", e) };
    let mut builder = PdfBuilder::new(FileOptions::uncached());
    // the target document is not empty
    for i in 0..pre { let _ = builder.storage.create(Primitive::Integer(i as i32)); }
    let mut rec = Rec { inner: &mut builder.storage, created: vec![] };
    // per page: Err(outcome) | Ok((resource dictionary as written, rest references, boxes))
    let mut outs: Vec<Result<(Primitive, Vec<u64>, String), String>> = vec![];
    {
        let mut imp = Importer::new(old.resolver(), &mut rec);
        for pi in pages {
            let page = match old.get_page(pi) { Ok(p) => p, Err(e) => { outs.push(Err(format!("get_page-failed:{}", e))); continue; } };
            match catch_unwind(AssertUnwindSafe(|| PageBuilder::clone_page(&page, &mut imp))) {
                Ok(Ok(pb)) => {
                    let resd = catch_unwind(AssertUnwindSafe(|| pb.resources.to_primitive(&mut pdf::object::NoUpdate))).ok().and_then(|r| r.ok()).unwrap_or(Primitive::Null);
                    let mut rest = vec![];
                    for o in [&pb.metadata, &pb.lgi, &pb.vp] { if let Some(p) = o { collect_refs(p, &mut rest); } }
                    collect_refs(&Primitive::Dictionary(pb.other.clone()), &mut rest);
                    outs.push(Ok((resd, rest, boxes_str(&pb))));
                }
                Ok(Err(_)) => outs.push(Err("err".into())),
                Err(_) => { outs.push(Err("panic".into())); break; }
            }
        }
    }
    let created = rec.created;
    let res = builder.storage.resolver();
    let objs: Vec<(u64, Option<u64>, Vec<u64>)> = created.iter().map(|r| match res.resolve(*r) {
        Ok(p) => { let mut ks = vec![]; collect_refs(&p, &mut ks); (r.id, payload_of(&p), ks) }
        Err(_) => (r.id, None, vec![]),
    }).collect();
    let back: BTreeMap<u64, Option<u64>> = objs.iter().map(|(n, o, _)| (*n, *o)).collect();
    let tr = |k: &u64| match back.get(k) { Some(Some(o)) => format!("{}", o), Some(None) => format!("?nopayload{}", k), None => format!("?outside{}", k) };
    let page_strs: Vec<String> = outs.iter().map(|o| match o {
        Err(e) => e.clone(),
        Ok((resd, rest, boxes)) => format!("ok/{}/{}/{}", res_entries(resd, &tr).join(","), rest.iter().map(tr).collect::<Vec<_>>().join("+"), boxes),
    }).collect();
    let typed = |o: u64| matches!(ty(o).as_str(), "Res" | "Form");
    let clobber = if created.iter().any(|r| r.id < pre) { " !copy-took-a-used-number" } else { "" };
    let digests: BTreeMap<u64, String> = created.iter().filter_map(|r| res.resolve(*r).ok().map(|p| (r.id, content_digest(&p, &res)))).collect();
    format!("{} |{}{}", page_strs.join(" "), canon_objects(&objs, &typed, &digests), clobber)
}

/// case = {"kind":"frompage","doc":hex,"pages":[..]} → per page `ok/<entries>/<boxes>` | `err`
fn exec_frompage(case: &Value) -> String {
    let doc = unhex(case["doc"].as_str().unwrap_or("-")).unwrap_or_default();
    let pages: Vec<u32> = case["pages"].as_array().map(|a| a.iter().filter_map(|x| x.as_u64()).map(|x| x as u32).collect()).unwrap_or_default();
    let old = match FileOptions::uncached().load(doc) { Ok(f) => f, Err(e) => return format!("load-failed:{}", e) };
    let res = old.resolver();
    let ident = |k: &u64| format!("{}", k);
    pages.iter().map(|pi| {
        let page = match old.get_page(*pi) { Ok(p) => p, Err(e) => return format!("get_page-failed:{}", e) };
        match catch_unwind(AssertUnwindSafe(|| PageBuilder::from_page(&page, &res))) {
            Ok(Ok(pb)) => {
                let resd = catch_unwind(AssertUnwindSafe(|| pb.resources.to_primitive(&mut pdf::object::NoUpdate))).ok().and_then(|r| r.ok()).unwrap_or(Primitive::Null);
                format!("ok/{}/{}", res_entries(&resd, &ident).join(","), boxes_str(&pb))
            }
            Ok(Err(_)) => "err".to_string(),
            Err(_) => "panic".to_string(),
        }
    }).collect::<Vec<_>>().join(" ")
}

/// the model's `c20.frompage` answer in the same form (edge kinds dropped, entries sorted)
fn canon_model_frompage(resp: &str) -> String {
    let f: Vec<&str> = resp.split('/').collect();
    if f.len() != 3 || f[0] != "ok" { return resp.to_string(); }
    let mut entries: Vec<String> = if f[1] == "-" { vec![] } else {
        f[1].split(',').map(|e| {
            let h: Vec<&str> = e.split(':').collect();
            let kids = h.get(1).cloned().unwrap_or("-");
            let ks = if kids == "-" { String::new() } else { kids.split('+').map(|k| k[1..].to_string()).collect::<Vec<_>>().join("+") };
            format!("{}:{}", h[0], ks)
        }).collect()
    };
    entries.sort();
    format!("ok/{}/{}", entries.join(","), f[2])
}

/// the model's `c20.tpage` answer in the same canonical form
fn canon_model_page(resp: &str, kind_of: &dyn Fn(u64) -> String) -> String {
    let typed = &|o: u64| matches!(kind_of(o).as_str(), "Res" | "Form");
    let parts: Vec<&str> = resp.split('|').collect();
    if parts.len() != 3 { return format!("model:{}", resp); }
    let objs = model_objects(parts[2]);
    let back: BTreeMap<u64, Option<u64>> = objs.iter().map(|(n, o, _)| (*n, *o)).collect();
    let tr = |k: &str| -> String { match k.parse::<u64>().ok().and_then(|k| back.get(&k).cloned()) { Some(Some(o)) => format!("{}", o), _ => format!("?{}", k) } };
    let trs = |ks: &str| -> String { if ks == "-" { String::new() } else { ks.split('+').map(tr).collect::<Vec<_>>().join("+") } };
    let page_strs: Vec<String> = parts[0].trim().split(' ').filter(|x| !x.is_empty() && *x != "-").map(|pg| {
        let f: Vec<&str> = pg.split('/').collect();
        if f.len() != 4 || f[0] != "ok" { return pg.to_string(); }
        let mut entries: Vec<String> = if f[1] == "-" { vec![] } else {
            f[1].split(',').map(|e| { let h: Vec<&str> = e.split(':').collect(); format!("{}:{}", h[0], trs(h.get(1).cloned().unwrap_or("-"))) }).collect()
        };
        entries.sort();
        format!("ok/{}/{}/{}", entries.join(","), trs(f[2]), f[3])
    }).collect();
    format!("{} |{}", page_strs.join(" "), canon_objects(&objs, typed, &model_digests(&objs, kind_of)))
}

fn random_res_list(rng: &mut Rng, g: &Graph, all_kinds: bool) -> Vec<ResSpec> {
    let ids: Vec<u64> = g.keys().cloned().collect();
    let forms: Vec<u64> = g.iter().filter(|(_, n)| n.ty == NT::Form).map(|(i, _)| *i).collect();
    let dicts: Vec<u64> = g.iter().filter(|(_, n)| n.ty == NT::Dict).map(|(i, _)| *i).collect();
    let mut res = vec![];
    for _ in 0..rng.below(7) {
        let kind = if all_kinds { rng.usize(7) } else { *rng.pick(&[0usize, 1, 2, 6]) };
        // a small name space: with shared names the same name turns up in several categories
        let name = 1 + rng.below(3);
        if res.iter().any(|r: &ResSpec| r.kind == kind && r.name == name) { continue; }
        let kids: Vec<u64> = match kind {
            0 => (0..rng.below(3)).filter_map(|_| if ids.is_empty() { None } else { Some(*rng.pick(&ids)) }).collect(),
            2 => if forms.is_empty() { continue } else { vec![*rng.pick(&forms)] },
            6 => if dicts.is_empty() { continue } else { vec![*rng.pick(&dicts)] },
            3 => vec![],
            _ => if ids.is_empty() { continue } else { vec![*rng.pick(&ids)] },
        };
        res.push(ResSpec { kind, name, payload: 1000 + rng.below(9000), kids, raw: None });
    }
    res
}

/// a page tree of depth ≤ 3 whose depth-first order is the page order; attributes placed at every level
fn random_tree(rng: &mut Rng, np: usize) -> (Vec<TNode>, Vec<Vec<Kid>>, Vec<usize>) {
    let mut tree = vec![TNode { parent: None, attrs: Attrs::default(), res_indirect: false }];
    let mut kids: Vec<Vec<Kid>> = vec![vec![]];
    let mut parents = vec![];
    let (mut cur1, mut cur2): (Option<usize>, Option<usize>) = (None, None);
    for i in 0..np {
        let depth = *rng.pick(&[0, 0, 1, 1, 1, 2, 2]);
        let mut new_node = |tree: &mut Vec<TNode>, kids: &mut Vec<Vec<Kid>>, parent: usize| -> usize {
            tree.push(TNode { parent: Some(parent), attrs: Attrs::default(), res_indirect: false });
            kids.push(vec![]);
            let n = tree.len() - 1;
            kids[parent].push(Kid::Node(n));
            n
        };
        let parent = match depth {
            0 => { cur1 = None; cur2 = None; 0 }
            1 => {
                if cur1.is_none() || rng.chance(1, 2) { cur1 = Some(new_node(&mut tree, &mut kids, 0)); }
                cur2 = None;
                cur1.unwrap()
            }
            _ => {
                if cur1.is_none() || rng.chance(1, 3) { cur1 = Some(new_node(&mut tree, &mut kids, 0)); cur2 = None; }
                if cur2.is_none() || rng.chance(1, 2) { cur2 = Some(new_node(&mut tree, &mut kids, cur1.unwrap())); }
                cur2.unwrap()
            }
        };
        kids[parent].push(Kid::Page(i));
        parents.push(parent);
    }
    (tree, kids, parents)
}

/// options of the random page documents
#[derive(Clone, Copy)]
struct DocOpts { all_kinds: bool, max_pages: u64 }

/// a document: page tree, inheritable attributes at every level (absent / own / parent / grand-parent, also at
/// several levels at once), resources per level, operations that name them
fn random_pdoc(rng: &mut Rng, g: &Graph, o: DocOpts, res_gen: &mut dyn FnMut(&mut Rng) -> Vec<ResSpec>) -> PDoc {
    let ids: Vec<u64> = g.keys().cloned().collect();
    let np = 1 + rng.below(o.max_pages) as usize;
    let (mut tree, kids, parents) = random_tree(rng, np);
    let mut next_media = 1 + rng.below(10);
    let mut next_crop = 41 + rng.below(10);
    let mut fill = |rng: &mut Rng, a: &mut Attrs, p_media: (u64, u64), p_crop: (u64, u64), p_rot: (u64, u64), p_res: (u64, u64), res_gen: &mut dyn FnMut(&mut Rng) -> Vec<ResSpec>| {
        if rng.chance(p_media.0, p_media.1) { a.media = Some(next_media); next_media += 1; }
        if rng.chance(p_crop.0, p_crop.1) { a.crop = Some(next_crop); next_crop += 1; }
        if rng.chance(p_rot.0, p_rot.1) { a.rotate = Some(*rng.pick(&[0u64, 90, 180, 270])); }
        if rng.chance(p_res.0, p_res.1) { a.res = Some(res_gen(rng)); }
    };
    for n in tree.iter_mut() {
        fill(rng, &mut n.attrs, (1, 2), (1, 3), (1, 4), (1, 2), res_gen);
        n.res_indirect = rng.chance(1, 3);
    }
    let mut pages: Vec<PSpec> = vec![];
    for i in 0..np {
        let mut attrs = Attrs::default();
        fill(rng, &mut attrs, (1, 2), (1, 3), (1, 3), (1, 2), res_gen);
        pages.push(PSpec {
            attrs,
            trim: if rng.chance(1, 4) { Some(81 + rng.below(40)) } else { None },
            parent: parents[i],
            res_mode: *rng.pick(&[ResMode::Direct, ResMode::Direct, ResMode::Indirect]),
            ops: vec![],
            rest: (0..rng.below(3)).filter_map(|_| if ids.is_empty() { None } else { Some(*rng.pick(&ids)) }).collect(),
            meta: if !ids.is_empty() && rng.chance(1, 5) { Some(*rng.pick(&ids)) } else { None },
            group_cs: None,
            vp: if !ids.is_empty() && rng.chance(1, 6) { vec![*rng.pick(&ids)] } else { vec![] },
            flate: rng.chance(1, 2),
            split: rng.chance(1, 4),
            no_contents: rng.chance(1, 12),
            cat_indirect: if rng.chance(1, 3) { rng.below(128) as u8 } else { 0 },
            entry_indirect: rng.chance(1, 5),
        });
    }
    let mut doc = PDoc { tree, kids, pages, collide: rng.chance(2, 3) };
    // nearly always there is a /MediaBox and a /Resources somewhere up the chain (else importing is an error)
    for i in 0..np {
        if doc.chain(i, &|a| a.media).iter().all(|x| x.is_none()) && rng.chance(9, 10) {
            let anc = doc.ancestors(i);
            let n = *rng.pick(&anc);
            doc.tree[n].attrs.media = Some(next_media); next_media += 1;
        }
        if doc.chain(i, &|a| a.res.clone()).iter().all(|x| x.is_none()) && rng.chance(9, 10) {
            let anc = doc.ancestors(i);
            let n = *rng.pick(&anc);
            doc.tree[n].attrs.res = Some(res_gen(rng));
        }
    }
    // several pages may share one /Resources object
    if np >= 2 && rng.chance(1, 3) {
        let i = rng.usize(np);
        let j = (i + 1 + rng.usize(np - 1)) % np;
        if let Some(r) = doc.pages[i].attrs.res.clone() {
            doc.pages[i].res_mode = ResMode::Indirect;
            doc.pages[j].attrs.res = Some(r);
            doc.pages[j].res_mode = ResMode::SharedWith(i);
        }
    }
    // operations: mostly names of the effective dictionary, also names that exist only in a shadowed
    // ancestor dictionary or nowhere; every category, every operator that can name it
    for i in 0..np {
        let levels: Vec<Vec<ResSpec>> = doc.chain(i, &|a| a.res.clone()).into_iter().flatten().collect();
        let mut ops = vec![];
        for _ in 0..rng.below(10) {
            let c = rng.below(10);
            if c < 6 && !levels.is_empty() {
                let lvl = if rng.chance(4, 5) { &levels[0] } else { rng.pick(&levels) };
                let (kind, name) = if !lvl.is_empty() && rng.chance(5, 6) {
                    let r = rng.pick(lvl);
                    // the same name in another category: the collision the per-category tables must keep apart
                    if rng.chance(1, 4) { (if o.all_kinds { rng.usize(7) } else { *rng.pick(&[0usize, 1, 2, 6]) }, r.name) } else { (r.kind, r.name) }
                } else { (if o.all_kinds { rng.usize(7) } else { *rng.pick(&[0usize, 1, 2, 6]) }, 1 + rng.below(4)) };
                ops.push(OpSpec::Use(kind, name, rng.below(6) as u8));
            } else if c < 7 && !ids.is_empty() {
                ops.push(OpSpec::Inline((0..1 + rng.below(2)).map(|_| *rng.pick(&ids)).collect()));
            } else {
                ops.push(OpSpec::Other(rng.below(8)));
            }
        }
        doc.pages[i].ops = ops;
    }
    doc
}

fn count_doc(st: &mut dyn FnMut(&str), doc: &PDoc) {
    st(if doc.collide { "names=shared-across-categories" } else { "names=per-category" });
    for i in 0..doc.pages.len() {
        let p = &doc.pages[i];
        let place = |c: Vec<bool>| -> &'static str {
            match c.iter().position(|x| *x) { None => "absent", Some(0) => "own", Some(1) => "parent", Some(2) => "grand-parent", _ => "great-grand-parent" }
        };
        st(&format!("MediaBox={}", place(doc.chain(i, &|a| a.media).iter().map(|x| x.is_some()).collect())));
        st(&format!("CropBox={}", place(doc.chain(i, &|a| a.crop).iter().map(|x| x.is_some()).collect())));
        st(&format!("Rotate={}", place(doc.chain(i, &|a| a.rotate).iter().map(|x| x.is_some()).collect())));
        st(&format!("Resources={}", place(doc.chain(i, &|a| a.res.clone()).iter().map(|x| x.is_some()).collect())));
        if matches!(p.res_mode, ResMode::SharedWith(_)) { st("resources=object-shared-by-two-pages"); }
        if p.no_contents { st("page=no-contents"); }
        if p.cat_indirect != 0 { st("resources=indirect-category-dictionary"); }
        // a name used by the operations in two categories
        let mut by_name: BTreeMap<u64, BTreeSet<usize>> = BTreeMap::new();
        for o in &p.ops { if let OpSpec::Use(k, n, _) = o { by_name.entry(*n).or_default().insert(*k); } }
        if doc.collide && by_name.values().any(|s| s.len() > 1) { st("page=one-name-used-in-several-categories"); }
    }
}

/// compare a batch of page documents: `c20.tpage` on every document, `c20.frompage` on every page of it
fn run_page_docs(driver: &Driver, st: &mut Stream, sf: &mut Stream, docs: &[(PDoc, Graph, Vec<u32>, Layout, u64)]) {
    let mut reqs = vec![];
    let mut cases = vec![];
    let mut freqs = vec![];
    let mut fcases = vec![];
    for (doc, g, order, layout, pre) in docs {
        let bytes = page_doc(doc, g, &[], *layout);
        let page_fields: Vec<String> = order.iter().map(|i| doc.page_model(*i as usize)).collect();
        reqs.push(format!("c20.tpage {} {} {} {}", g.len() + 2, pre, nodes_str(g), page_fields.join(" ")));
        cases.push(json!({"kind": "page", "doc": hex(&bytes), "pages": order, "types": types_json(g), "pre": pre}));
        for i in 0..doc.pages.len() {
            freqs.push(format!("c20.frompage {}", doc.page_model(i)));
            fcases.push(json!({"kind": "frompage", "doc": hex(&bytes), "pages": [i]}));
        }
    }
    let resp = driver.ask(&reqs);
    let risky: Vec<usize> = (0..cases.len()).filter(|i| has_cycle(&docs[*i].1)).collect();
    let risky_json: Vec<Value> = risky.iter().map(|i| cases[*i].clone()).collect();
    let mut risky_map: BTreeMap<usize, String> = BTreeMap::new();
    for (i, r) in risky.iter().zip(run_in_children(&risky_json, 10).into_iter()) {
        risky_map.insert(*i, match r { Ok(v) => v.as_str().unwrap_or("bad-child-answer").to_string(), Err(e) => e });
    }
    for i in 0..cases.len() {
        let imp = match risky_map.remove(&i) { Some(a) => a, None => exec_page(&cases[i]) };
        let g = &docs[i].1;
        let kind_of = |o: u64| g.get(&o).map(|n| ty_name(n.ty).to_string()).unwrap_or_default();
        let model = canon_model_page(&resp[i], &kind_of);
        st.count(if model.contains("err") { "outcome=some-err" } else { "outcome=all-ok" });
        if model != imp {
            st.case(&format!("{} # {}", reqs[i], cases[i]), &model, &imp, model.contains(':'));
        } else {
            st.case(&reqs[i], &model, &imp, model.contains(':'));
        }
    }
    let fresp = driver.ask(&freqs);
    for i in 0..fcases.len() {
        let imp = exec_frompage(&fcases[i]);
        let model = canon_model_frompage(&fresp[i]);
        sf.count(if model == "err" { "outcome=err" } else { "outcome=ok" });
        if model != imp {
            sf.case(&format!("{} # {}", freqs[i], fcases[i]), &model, &imp, true);
        } else {
            sf.case(&freqs[i], &model, &imp, true);
        }
    }
}

/// Exhaustive small domains for the two decisions that depend on *where* something is found:
///  * one resource name in every subset of the four copied categories × every sequence of ≤ 3 (quick: ≤ 2 plus
///    the 3-sequences that start with two different categories) operations naming it — "already copied?" is a
///    question per category;
///  * every inheritable attribute (MediaBox, CropBox, Resources, Rotate) absent / own / parent / grand-parent /
///    own + parent / parent + grand-parent, for a page two levels below the root, both entry points.
fn page_exhaustive(driver: &Driver, thorough: bool) -> (Stream, Stream) {
    let mut st = Stream::new("c20.page.exhaustive", true);
    let mut sf = Stream::new("c20.frompage.exhaustive", true);
    st.exhaustive = true;
    sf.exhaustive = true;
    let mut docs: Vec<(PDoc, Graph, Vec<u32>, Layout, u64)> = vec![];
    let kinds = [0usize, 1, 2, 6];
    let mut g = Graph::new();
    g.insert(100, GNode { ty: NT::Dict, k: vec![], a: None, b: None });
    g.insert(101, GNode { ty: NT::Form, k: vec![], a: None, b: None });
    g.insert(102, GNode { ty: NT::Dict, k: vec![101], a: None, b: None });
    // --- name collisions
    let mut seqs: Vec<Vec<usize>> = vec![];
    for a in kinds { seqs.push(vec![a]); for b in kinds { seqs.push(vec![a, b]); for c in kinds { if thorough || a != b { seqs.push(vec![a, b, c]); } } } }
    for subset in 0..16u32 {
        let res: Vec<ResSpec> = kinds.iter().enumerate().filter(|(i, _)| subset & (1 << i) != 0).map(|(_, k)| ResSpec {
            kind: *k, name: 1, payload: 50 + *k as u64,
            kids: match k { 0 => vec![100, 102], 1 => vec![102], 2 => vec![101], _ => vec![100] }, raw: None }).collect();
        for sq in &seqs {
            let p = simple_page(res.clone(), sq.iter().map(|k| OpSpec::Use(*k, 1, 0)).collect(), vec![]);
            st.count(&format!("categories-holding-the-name={}", subset.count_ones()));
            docs.push((flat_doc(vec![p], true), g.clone(), vec![0], PLAIN, 0));
        }
    }
    // --- inheritance: page below node 2 below node 1 below the root
    let places = 6u32;
    let place = |code: u32| -> (bool, bool, bool) { match code { 0 => (false, false, false), 1 => (true, false, false), 2 => (false, true, false), 3 => (false, false, true), 4 => (true, true, false), _ => (false, true, true) } };
    let font = |name: u64, tgt: u64| ResSpec { kind: 1, name, payload: 0, kids: vec![tgt], raw: None };
    for code in 0..places.pow(4) {
        let (m, c, r, ro) = (code % 6, code / 6 % 6, code / 36 % 6, code / 216 % 6);
        // (own, parent, grand-parent) values: distinct per level
        let lvl = |p: (bool, bool, bool), base: u64| -> [Option<u64>; 3] { [if p.0 { Some(base) } else { None }, if p.1 { Some(base + 1) } else { None }, if p.2 { Some(base + 2) } else { None }] };
        let (mv, cv, rv) = (lvl(place(m), 10), lvl(place(c), 50), lvl(place(ro), 0));
        let rotv = |x: Option<u64>| x.map(|v| [90u64, 180, 270][(v % 3) as usize]);
        let rp = place(r);
        // each level's dictionary has the font /F1 → a different object, so the copy tells which level was used
        let resv = [if rp.0 { Some(vec![font(1, 100)]) } else { None }, if rp.1 { Some(vec![font(1, 102)]) } else { None }, if rp.2 { Some(vec![font(1, 101), font(2, 100)]) } else { None }];
        let mut p = simple_page(vec![], vec![OpSpec::Use(1, 1, 0), OpSpec::Use(1, 2, 0)], vec![]);
        p.attrs = Attrs { media: mv[0], crop: cv[0], rotate: rotv(rv[0]), res: resv[0].clone() };
        p.parent = 2;
        let tree = vec![
            TNode { parent: None, attrs: Attrs { media: mv[2], crop: cv[2], rotate: rotv(rv[2]), res: resv[2].clone() }, res_indirect: code % 2 == 0 },
            TNode { parent: Some(0), attrs: Attrs { media: mv[1], crop: cv[1], rotate: rotv(rv[1]), res: resv[1].clone() }, res_indirect: code % 3 == 0 },
            TNode { parent: Some(1), attrs: Attrs::default(), res_indirect: false },
        ];
        let kids = vec![vec![Kid::Node(1)], vec![Kid::Node(2)], vec![Kid::Page(0)]];
        docs.push((PDoc { tree, kids, pages: vec![p], collide: false }, g.clone(), vec![0], PLAIN, 0));
    }
    st.count(&format!("inheritance-placements={}", places.pow(4)));
    run_page_docs(driver, &mut st, &mut sf, &docs);
    (st, sf)
}

fn page_streams(driver: &Driver, seed: u64, n: u64) -> (Stream, Stream) {
    let mut st = Stream::new("c20.page", true);
    let mut sf = Stream::new("c20.frompage", true);
    let mut reqs = vec![];
    let mut cases = vec![];
    let mut graphs = vec![];
    let mut freqs = vec![];
    let mut fcases = vec![];
    for case in 0..n {
        let mut rng = Rng::derive(seed, "c20.page", case);
        let cyc = rng.chance(1, 8);
        let miss = rng.chance(1, 8);
        // graph nodes are numbered from 100 so that pages, contents and resource objects fit below
        let g = shift_graph(random_graph(&mut rng, cyc, miss));
        let all_kinds = rng.chance(2, 3);
        let g2 = g.clone();
        let mut res_gen = move |rng: &mut Rng| random_res_list(rng, &g2, all_kinds);
        let doc = random_pdoc(&mut rng, &g, DocOpts { all_kinds, max_pages: 3 }, &mut res_gen);
        let np = doc.pages.len();
        let mut order: Vec<u32> = (0..np as u32).collect();
        rng.shuffle(&mut order);
        if rng.chance(1, 4) { let d = order[0]; order.push(d); }
        let layout = random_layout(&mut rng, (1, 3));
        for l in layout_label(&layout) { st.count(&l); }
        let bytes = page_doc(&doc, &g, &[], layout);
        let pre = if rng.chance(1, 3) { 1 + rng.below(4) } else { 0 };
        let page_fields: Vec<String> = order.iter().map(|i| doc.page_model(*i as usize)).collect();
        reqs.push(format!("c20.tpage {} {} {} {}", g.len() + 2, pre, nodes_str(&g), page_fields.join(" ")));
        cases.push(json!({"kind": "page", "doc": hex(&bytes), "pages": order, "types": types_json(&g), "pre": pre}));
        st.count(&format!("pages={}", order.len()));
        count_doc(&mut |k| st.count(k), &doc);
        st.count(if has_cycle(&g) { "graph=cyclic" } else { "graph=acyclic" });
        if pre > 0 { st.count("target=not-empty"); }
        // the other entry point, one request per page
        for i in 0..np {
            freqs.push(format!("c20.frompage {}", doc.page_model(i)));
            fcases.push(json!({"kind": "frompage", "doc": hex(&bytes), "pages": [i]}));
        }
        count_doc(&mut |k| sf.count(k), &doc);
        graphs.push(g);
    }
    let resp = driver.ask(&reqs);
    let risky: Vec<usize> = (0..cases.len()).filter(|i| has_cycle(&graphs[*i])).collect();
    let risky_json: Vec<Value> = risky.iter().map(|i| cases[*i].clone()).collect();
    let mut risky_map: BTreeMap<usize, String> = BTreeMap::new();
    for (i, r) in risky.iter().zip(run_in_children(&risky_json, 10).into_iter()) {
        risky_map.insert(*i, match r { Ok(v) => v.as_str().unwrap_or("bad-child-answer").to_string(), Err(e) => e });
    }
    for i in 0..cases.len() {
        let imp = match risky_map.remove(&i) { Some(a) => a, None => exec_page(&cases[i]) };
        let g = &graphs[i];
        let kind_of = |o: u64| g.get(&o).map(|n| ty_name(n.ty).to_string()).unwrap_or_default();
        let model = canon_model_page(&resp[i], &kind_of);
        st.count(if model.contains("err") { "outcome=some-err" } else { "outcome=all-ok" });
        if model != imp {
            st.case(&format!("{} # {}", reqs[i], cases[i]), &model, &imp, model.contains(':'));
        } else {
            st.case(&reqs[i], &model, &imp, model.contains(':'));
        }
    }
    let fresp = driver.ask(&freqs);
    for i in 0..fcases.len() {
        let imp = exec_frompage(&fcases[i]);
        let model = canon_model_frompage(&fresp[i]);
        sf.count(if model == "err" { "outcome=err" } else { "outcome=ok" });
        if model != imp {
            sf.case(&format!("{} # {}", freqs[i], fcases[i]), &model, &imp, true);
        } else {
            sf.case(&freqs[i], &model, &imp, true);
        }
    }
    (st, sf)
}

// =====================================================================================================
// oracle: import pages of a document, build, reload, compare with the source

/// deep comparison of a source value with its copy, modulo renaming of references
struct Cmp<'a, RO: Resolve, RN: Resolve> {
    ro: &'a RO,
    rn: &'a RN,
    /// source object → new object, as established by walking both sides in parallel
    fwd: BTreeMap<u64, u64>,
    bwd: BTreeMap<u64, u64>,
    visited: BTreeSet<(u64, u64)>,
    /// (signature, description)
    diffs: Vec<(String, String)>,
    steps: usize,
    /// generated sources: the plaintext data of the source's stream objects, as the generator wrote them (not
    /// as any reader sees them)
    plain: Option<BTreeMap<u64, Vec<u8>>>,
    /// what was compared with the ground truth: kind of stream → count
    plain_checked: BTreeMap<String, u64>,
}

fn num_of(p: &Primitive) -> Option<f64> {
    match p {
        Primitive::Integer(i) => Some(*i as f64),
        Primitive::Number(f) => Some(*f as f64),
        _ => None,
    }
}

fn kind_name(p: &Primitive) -> &'static str {
    match p {
        Primitive::Null => "null", Primitive::Integer(_) => "integer", Primitive::Number(_) => "real", Primitive::Boolean(_) => "bool",
        Primitive::String(_) => "string", Primitive::Stream(_) => "stream", Primitive::Dictionary(_) => "dict",
        Primitive::Array(_) => "array", Primitive::Reference(_) => "ref", Primitive::Name(_) => "name",
    }
}

/// does the value hold a name (key or value) that `serialize_name` cannot write (defect D8, owned by the
/// C04 package: no `#xx` escaping)? References are not followed.
fn has_irregular_name(p: &Primitive) -> bool {
    let bad = |n: &str| n.bytes().any(|b| !(b'!'..=b'~').contains(&b) || matches!(b, b'(' | b')' | b'<' | b'>' | b'[' | b']' | b'{' | b'}' | b'/' | b'%' | b'#' | b'\\'));
    match p {
        Primitive::Name(n) => bad(n.as_str()),
        Primitive::Array(a) => a.iter().any(has_irregular_name),
        Primitive::Dictionary(d) => d.iter().any(|(k, v)| bad(k.as_str()) || has_irregular_name(v)),
        Primitive::Stream(s) => s.info.iter().any(|(k, v)| bad(k.as_str()) || has_irregular_name(v)),
        _ => false,
    }
}

/// `…/ColorSpace[3]`, possibly followed by `@<object>` markers of resolved references
fn is_indexed_lookup_path(path: &str) -> bool {
    match path.rfind("[3]") {
        Some(p) => path[..p].contains("ColorSpace") && path[p + 3..].split('@').all(|seg| seg.chars().all(|c| c.is_ascii_alphanumeric())),
        None => false,
    }
}

/// a reference that does not lead to an object (as opposed to an object that cannot be parsed)
fn is_missing(e: &PdfError) -> bool {
    matches!(crate::util::err_class(e), "F" | "N" | "U")
}

/// entries a typed copy writes out although the source left them to their default: same meaning
fn is_default_entry(path: &str, d: &Dictionary, key: &str, v: &Primitive) -> bool {
    let name_is = |k: &str, n: &str| d.get(k).and_then(|p| p.as_name().ok()) == Some(n);
    let xobj = name_is("Subtype", "Image") || name_is("Subtype", "Form") || name_is("Subtype", "PS");
    match (key, v) {
        ("Type", Primitive::Name(n)) if n.as_str() == "XObject" => xobj,
        ("Type", Primitive::Name(n)) if n.as_str() == "ExtGState" => path.contains("/ExtGState/"),
        ("ImageMask", Primitive::Boolean(false)) | ("Interpolate", Primitive::Boolean(false)) => name_is("Subtype", "Image"),
        ("FormType", Primitive::Integer(1)) => name_is("Subtype", "Form"),
        _ => false,
    }
}

/// defaults of the filter parameters (a typed copy writes them out, the source may omit them)
fn parm_default(filter: &str, key: &str) -> Option<Primitive> {
    match (filter, key) {
        ("FlateDecode", "Predictor") | ("LZWDecode", "Predictor") => Some(Primitive::Integer(1)),
        ("FlateDecode", "Colors") | ("LZWDecode", "Colors") => Some(Primitive::Integer(1)),
        ("FlateDecode", "BitsPerComponent") | ("LZWDecode", "BitsPerComponent") => Some(Primitive::Integer(8)),
        ("FlateDecode", "Columns") | ("LZWDecode", "Columns") => Some(Primitive::Integer(1)),
        ("FlateDecode", "EarlyChange") | ("LZWDecode", "EarlyChange") => Some(Primitive::Integer(1)),
        ("CCITTFaxDecode", "K") => Some(Primitive::Integer(0)),
        ("CCITTFaxDecode", "EndOfLine") | ("CCITTFaxDecode", "EncodedByteAlign") | ("CCITTFaxDecode", "BlackIs1") => Some(Primitive::Boolean(false)),
        ("CCITTFaxDecode", "Columns") => Some(Primitive::Integer(1728)),
        ("CCITTFaxDecode", "Rows") | ("CCITTFaxDecode", "DamagedRowsBeforeError") => Some(Primitive::Integer(0)),
        ("CCITTFaxDecode", "EndOfBlock") => Some(Primitive::Boolean(true)),
        _ => None,
    }
}

impl<'a, RO: Resolve, RN: Resolve> Cmp<'a, RO, RN> {
    fn diff(&mut self, sig: &str, what: String) {
        if self.diffs.len() < 40 {
            self.diffs.push((sig.to_string(), what));
        }
    }
    /// pair a source object with a new object; reports a broken single-copy relation
    fn pair(&mut self, path: &str, o: u64, n: u64) {
        match self.fwd.get(&o) {
            Some(n0) if *n0 != n => { let n0 = *n0; self.diff("shared-object-copied-twice", format!("{}: source object {} has two copies, {} and {}", path, o, n0, n)); }
            _ => { self.fwd.insert(o, n); }
        }
        match self.bwd.get(&n) {
            Some(o0) if *o0 != o => { let o0 = *o0; self.diff("distinct-objects-merged", format!("{}: new object {} stands for two source objects, {} and {}", path, n, o0, o)); }
            _ => { self.bwd.insert(n, o); }
        }
    }
    fn equiv(&mut self, path: &str, a: &Primitive, b: &Primitive) {
        self.steps += 1;
        if self.steps > 400_000 {
            return;
        }
        match (a, b) {
            (Primitive::Reference(ra), Primitive::Reference(rb)) => {
                self.pair(path, ra.id, rb.id);
                if !self.visited.insert((ra.id, rb.id)) {
                    return;
                }
                let pa = self.ro.resolve(*ra);
                let pb = self.rn.resolve(*rb);
                match (pa, pb) {
                    (Ok(pa), Ok(pb)) => {
                        // ground truth: the copy of a stream holds the source's plaintext bytes
                        if let (Some(Some(want)), Primitive::Stream(sb)) = (self.plain.as_ref().map(|p| p.get(&ra.id).cloned()), &pb) {
                            let nm = |k: &str| sb.info.get(k).and_then(|x| x.as_name().ok()).map(|x| x.to_string());
                            let kind = if let Some(st) = nm("Subtype").filter(|s| s == "Image" || s == "Form" || s == "XML") { st }
                                else if sb.info.get("Length1").is_some() { "FontFile".to_string() }
                                else if sb.info.get("N").is_some() { "ICC".to_string() }
                                else if path.contains("ToUnicode") { "ToUnicode".to_string() } else { "other".to_string() };
                            *self.plain_checked.entry(format!("stream-vs-plaintext:{}{}", kind, if sb.info.get("Filter").is_some() { "(filtered)" } else { "" })).or_insert(0) += 1;
                            match sb.raw_data(self.rn) {
                                Ok(got) if got[..] == want[..] => {}
                                Ok(got) => self.diff("stream-data-differs-from-plaintext", format!("{}: the copy (object {}) of stream {} holds {} bytes that are not the {} bytes the source was written from", path, rb.id, ra.id, got.len(), want.len())),
                                Err(e) => self.diff("stream-data-unreadable", format!("{}: data of the copied stream cannot be read: {}", path, e)),
                            }
                        }
                        self.equiv(&format!("{}@{}", path, ra.id), &pa, &pb)
                    }
                    (Err(_), Ok(pb)) => { if !matches!(pb, Primitive::Null) { self.diff("copy-of-missing-object", format!("{}: source reference {} does not resolve but the copy does", path, ra.id)); } }
                    (Ok(pa), Err(e)) => {
                        if is_missing(&e) {
                            self.diff("dangling-reference-in-copy", format!("{}: new reference {} does not lead to an object", path, rb.id));
                        } else if has_irregular_name(&pa) {
                            self.diff("copy-unreadable:name-needs-escaping(D8)", format!("{}: the copy (object {}) of source object {} cannot be parsed; the source holds a name that needs #xx escaping", path, rb.id, ra.id));
                        } else {
                            self.diff("copy-unreadable", format!("{}: the copy (object {}) of source object {} cannot be parsed: {}", path, rb.id, ra.id, crate::util::err_root(&e)));
                        }
                    }
                    (Err(_), Err(_)) => {}
                }
            }
            (Primitive::Reference(ra), b) => {
                // the copy holds the value directly (typed values are written inline)
                match self.ro.resolve(*ra) {
                    Ok(pa) => self.equiv(&format!("{}@{}", path, ra.id), &pa, b),
                    Err(_) => { if !matches!(b, Primitive::Null) { self.diff("copy-of-missing-object", format!("{}: source reference {} does not resolve", path, ra.id)); } }
                }
            }
            (a, Primitive::Reference(rb)) => {
                match self.rn.resolve(*rb) {
                    Ok(pb) => self.equiv(&format!("{}@new{}", path, rb.id), a, &pb),
                    Err(e) => self.diff("dangling-reference-in-copy", format!("{}: new reference {} does not resolve: {}", path, rb.id, e)),
                }
            }
            (Primitive::Array(xa), Primitive::Array(xb)) => {
                if xa.len() != xb.len() {
                    self.diff("value-differs", format!("{}: array length {} vs {}", path, xa.len(), xb.len()));
                    return;
                }
                for (i, (x, y)) in xa.iter().zip(xb.iter()).enumerate() {
                    self.equiv(&format!("{}[{}]", path, i), x, y);
                }
            }
            (Primitive::Dictionary(da), Primitive::Dictionary(db)) => self.dicts(path, da, db, false),
            (Primitive::Stream(sa), Primitive::Stream(sb)) => {
                self.dicts(path, &sa.info, &sb.info, true);
                self.stream_data(path, sa, sb);
            }
            // the lookup table of an Indexed colour space may be a string or a stream (same bytes, same meaning)
            (Primitive::String(sa), Primitive::Stream(sb)) | (Primitive::Stream(sb), Primitive::String(sa)) if is_indexed_lookup_path(path) => {
                let rn_side = matches!(b, Primitive::Stream(_));
                let data = if rn_side { pdf::object::Stream::<()>::from_stream(sb.clone(), self.rn).and_then(|s| s.data(self.rn)) }
                           else { pdf::object::Stream::<()>::from_stream(sb.clone(), self.ro).and_then(|s| s.data(self.ro)) };
                match data {
                    Ok(d) if d[..] == sa.as_bytes()[..] => {}
                    _ => self.diff("value-differs", format!("{}: Indexed lookup table differs between string and stream form", path)),
                }
            }
            (a, b) => {
                let same = match (num_of(a), num_of(b)) {
                    (Some(x), Some(y)) => x == y,
                    _ => a == b,
                };
                if !same {
                    self.diff("value-differs", format!("{}: {} {:?} vs {} {:?}", path, kind_name(a), a, kind_name(b), b));
                }
            }
        }
    }
    fn dicts(&mut self, path: &str, da: &Dictionary, db: &Dictionary, is_stream: bool) {
        let skip = |k: &str| is_stream && matches!(k, "Length" | "Filter" | "DecodeParms");
        if self.plain.is_some() {
            // generated nodes: /S is a known function of /P
            if let (Some(Primitive::Integer(id)), Some(Primitive::String(sv))) = (da.get("P"), db.get("S")) {
                if sv.as_bytes() != &node_string_bytes(*id as u64)[..] {
                    self.diff("string-differs-from-plaintext", format!("{}: the copy of node {} holds the string {:?}", path, id, sv));
                }
            }
        }
        for (k, va) in da.iter() {
            if skip(k.as_str()) { continue; }
            match db.get(k.as_str()) {
                Some(vb) => self.equiv(&format!("{}/{}", path, k.as_str()), va, vb),
                None => {
                    // an explicit null is the same as an absent entry
                    if !matches!(va, Primitive::Null) {
                        self.diff(&format!("entry-lost:{}", k.as_str()), format!("{}: entry /{} {} of the source is missing in the copy", path, k.as_str(), va));
                    }
                }
            }
        }
        for (k, vb) in db.iter() {
            if skip(k.as_str()) { continue; }
            if da.get(k.as_str()).is_none() && !matches!(vb, Primitive::Null) && !is_default_entry(path, db, k.as_str(), vb) {
                self.diff(&format!("entry-added:{}", k.as_str()), format!("{}: entry /{} {} of the copy is not in the source", path, k.as_str(), vb));
            }
        }
    }
    /// the filter chain of a stream dictionary: (name, parameters)
    fn filters<R: Resolve>(d: &Dictionary, r: &R) -> Vec<(String, Dictionary)> {
        let res = |p: &Primitive| -> Primitive { p.clone().resolve(r).unwrap_or(Primitive::Null) };
        let names: Vec<String> = match d.get("Filter").map(res) {
            Some(Primitive::Name(n)) => vec![n.to_string()],
            Some(Primitive::Array(a)) => a.iter().map(|x| match res(x) { Primitive::Name(n) => n.to_string(), _ => "?".into() }).collect(),
            _ => vec![],
        };
        let parms: Vec<Primitive> = match d.get("DecodeParms").map(res) {
            Some(Primitive::Array(a)) => a.iter().map(res).collect(),
            Some(p @ Primitive::Dictionary(_)) => vec![p],
            _ => vec![],
        };
        names.into_iter().enumerate().map(|(i, n)| {
            let d = match parms.get(i) { Some(Primitive::Dictionary(d)) => d.clone(), _ => Dictionary::new() };
            (n, d)
        }).collect()
    }
    fn stream_data(&mut self, path: &str, sa: &pdf::primitive::PdfStream, sb: &pdf::primitive::PdfStream) {
        let fa = Self::filters(&sa.info, self.ro);
        let fb = Self::filters(&sb.info, self.rn);
        if std::env::var("C20_DEBUG").is_ok() { eprintln!("stream_data {} fa={:?} fb={:?}", path, fa, fb); }
        let da = sa.raw_data(self.ro);
        let db = sb.raw_data(self.rn);
        let (da, db) = match (da, db) {
            (Ok(a), Ok(b)) => (a, b),
            (Err(_), _) => return, // the source stream is unreadable: nothing to compare with
            (Ok(_), Err(e)) => { self.diff("stream-data-unreadable", format!("{}: data of the copied stream cannot be read: {}", path, e)); return; }
        };
        // declared /Length of the copy must match what is there
        if let Some(l) = sb.info.get("Length").and_then(|l| l.clone().resolve(self.rn).ok()).and_then(|l| l.as_integer().ok()) {
            if l as usize != db.len() {
                self.diff("stream-length-wrong", format!("{}: copy declares /Length {} but holds {} bytes", path, l, db.len()));
            }
        }
        let mut chain_same = fa.len() == fb.len();
        if chain_same {
            for ((na, pa), (nb, pb)) in fa.iter().zip(fb.iter()) {
                if na != nb { chain_same = false; break; }
                let keys: BTreeSet<String> = pa.iter().map(|(k, _)| k.as_str().to_string()).chain(pb.iter().map(|(k, _)| k.as_str().to_string())).collect();
                for k in keys {
                    let va = pa.get(&k).cloned().or_else(|| parm_default(na, &k)).unwrap_or(Primitive::Null);
                    let vb = pb.get(&k).cloned().or_else(|| parm_default(na, &k)).unwrap_or(Primitive::Null);
                    // compared on the side: a difference is reported once, as a difference of the chain
                    let before = self.diffs.len();
                    self.equiv(&format!("{}/DecodeParms/{}", path, k), &va, &vb);
                    if self.diffs.len() != before { chain_same = false; self.diffs.truncate(before); }
                }
            }
        }
        if !chain_same {
            self.diff("stream-filters-differ", format!("{}: filter chain {:?} became {:?}", path, fa.iter().map(|f| (&f.0, f.1.len())).collect::<Vec<_>>(), fb.iter().map(|f| (&f.0, f.1.len())).collect::<Vec<_>>()));
        }
        if da[..] != db[..] {
            self.diff("stream-data-differs", format!("{}: stream data differs ({} bytes vs {} bytes)", path, da.len(), db.len()));
        }
    }
}

/// effective value of an inheritable page attribute, read from the page dictionaries themselves
fn inherited<R: Resolve>(r: &R, page: PlainRef, key: &str) -> Option<Primitive> {
    let mut cur = page;
    for _ in 0..32 {
        let d = match r.resolve(cur).ok()? { Primitive::Dictionary(d) => d, _ => return None };
        if let Some(v) = d.get(key) {
            let v = v.clone().resolve(r).ok()?;
            if !matches!(v, Primitive::Null) { return Some(v); }
        }
        match d.get("Parent") { Some(Primitive::Reference(p)) => cur = *p, _ => return None }
    }
    None
}

fn nums(p: &Option<Primitive>, r: &impl Resolve) -> Option<Vec<f64>> {
    match p {
        Some(Primitive::Array(a)) => a.iter().map(|x| x.clone().resolve(r).ok().and_then(|x| num_of(&x))).collect(),
        _ => None,
    }
}

/// a rectangle is the same whichever two opposite corners are given
fn norm_rect(v: Option<Vec<f64>>) -> Option<Vec<f64>> {
    v.map(|v| if v.len() == 4 { vec![v[0].min(v[2]), v[1].min(v[3]), v[0].max(v[2]), v[1].max(v[3])] } else { v })
}

const RES_KINDS: [&str; 7] = ["ExtGState", "Font", "XObject", "ColorSpace", "Pattern", "Shading", "Properties"];

/// tokens of a content stream that name a shading (`/Name sh`): the typed operation list drops `sh`
fn shading_names(data: &[u8]) -> Vec<String> {
    let mut out = vec![];
    let mut toks: Vec<Vec<u8>> = vec![];
    let mut i = 0;
    let n = data.len();
    let is_ws = |b: u8| matches!(b, 0 | 9 | 10 | 12 | 13 | 32);
    let is_delim = |b: u8| matches!(b, b'(' | b')' | b'<' | b'>' | b'[' | b']' | b'{' | b'}' | b'/' | b'%');
    while i < n {
        let b = data[i];
        if is_ws(b) { i += 1; continue; }
        if b == b'%' { while i < n && data[i] != b'\n' && data[i] != b'\r' { i += 1; } continue; }
        if b == b'(' {
            let mut depth = 0;
            while i < n {
                match data[i] { b'\\' => i += 1, b'(' => depth += 1, b')' => { depth -= 1; if depth == 0 { i += 1; break; } } _ => {} }
                i += 1;
            }
            toks.push(b"(str)".to_vec());
            continue;
        }
        if b == b'<' && i + 1 < n && data[i + 1] != b'<' {
            while i < n && data[i] != b'>' { i += 1; }
            i += 1;
            toks.push(b"<hex>".to_vec());
            continue;
        }
        if b == b'/' {
            let st = i;
            i += 1;
            while i < n && !is_ws(data[i]) && !is_delim(data[i]) { i += 1; }
            toks.push(data[st..i].to_vec());
            continue;
        }
        if is_delim(b) { i += 1; if i < n && (data[i] == b'<' || data[i] == b'>') && data[i] == b { i += 1; } toks.push(vec![b]); continue; }
        let st = i;
        while i < n && !is_ws(data[i]) && !is_delim(data[i]) { i += 1; }
        let t = data[st..i].to_vec();
        if t == b"BI" { return vec![]; } // inline image data follows: do not guess
        if t == b"sh" {
            if let Some(prev) = toks.last() { if prev.first() == Some(&b'/') { out.push(String::from_utf8_lossy(&prev[1..]).to_string()); } }
        }
        toks.push(t);
    }
    out
}

/// the (category, name) pairs the operations of a page name
fn used_resources(ops: &[Op], content: &[u8]) -> BTreeSet<(String, String)> {
    let mut used = BTreeSet::new();
    let std_cs = |n: &str| matches!(n, "DeviceGray" | "DeviceRGB" | "DeviceCMYK" | "Pattern");
    for op in ops {
        match op {
            Op::GraphicsState { name } => { used.insert(("ExtGState".to_string(), name.as_str().to_string())); }
            Op::TextFont { name, .. } => { used.insert(("Font".to_string(), name.as_str().to_string())); }
            Op::XObject { name } => { used.insert(("XObject".to_string(), name.as_str().to_string())); }
            Op::StrokeColorSpace { name } | Op::FillColorSpace { name } => {
                if !std_cs(name.as_str()) { used.insert(("ColorSpace".to_string(), name.as_str().to_string())); }
            }
            Op::StrokeColor { color: Color::Other(args) } | Op::FillColor { color: Color::Other(args) } => {
                if let Some(Primitive::Name(n)) = args.last() { used.insert(("Pattern".to_string(), n.to_string())); }
            }
            Op::BeginMarkedContent { properties: Some(Primitive::Name(n)), .. } | Op::MarkedContentPoint { properties: Some(Primitive::Name(n)), .. } => {
                used.insert(("Properties".to_string(), n.to_string()));
            }
            Op::InlineImage { image } => {
                if let Some(pdf::object::ColorSpace::Named(n)) = &image.inner.info.info.color_space {
                    used.insert(("ColorSpace".to_string(), n.as_str().to_string()));
                }
            }
            _ => {}
        }
    }
    for n in shading_names(content) {
        used.insert(("Shading".to_string(), n));
    }
    used
}

fn res_entry<R: Resolve>(r: &R, resources: &Option<Primitive>, kind: &str, name: &str) -> Option<Primitive> {
    let d = match resources { Some(Primitive::Dictionary(d)) => d, _ => return None };
    let cat = d.get(kind)?.clone().resolve(r).ok()?;
    match cat { Primitive::Dictionary(c) => c.get(name).cloned(), _ => None }
}

/// the property list of a marked-content operator, if it is not just a name
fn op_props(op: &Op) -> Option<&Primitive> {
    match op {
        Op::BeginMarkedContent { properties: Some(p), .. } | Op::MarkedContentPoint { properties: Some(p), .. } if !matches!(p, Primitive::Name(_)) => Some(p),
        _ => None,
    }
}

fn ops_text(ops: &[Op]) -> Vec<String> {
    ops.iter().map(|o| match (o, op_props(o)) {
        (Op::BeginMarkedContent { tag, .. }, Some(_)) => format!("BeginMarkedContent {} <property list>", tag.as_str()),
        (Op::MarkedContentPoint { tag, .. }, Some(_)) => format!("MarkedContentPoint {} <property list>", tag.as_str()),
        _ => format!("{:?}", o),
    }).collect()
}

/// all references reachable from `start` resolve (closure); returns the number of objects visited
fn closure_check<R: Resolve, RO: Resolve>(r: &R, start: &Primitive, ro: &RO, bwd: &BTreeMap<u64, u64>, diffs: &mut Vec<(String, String)>) -> usize {
    let mut seen: BTreeSet<u64> = BTreeSet::new();
    let mut stack: Vec<Primitive> = vec![start.clone()];
    while let Some(p) = stack.pop() {
        let mut refs = vec![];
        collect_refs(&p, &mut refs);
        for id in refs {
            if !seen.insert(id) { continue; }
            match r.resolve(pref(id)) {
                Ok(q) => stack.push(q),
                Err(e) => {
                    let d8 = bwd.get(&id).and_then(|o| ro.resolve(pref(*o)).ok()).map(|p| has_irregular_name(&p)).unwrap_or(false);
                    let item = if is_missing(&e) {
                        ("dangling-reference-in-copy".to_string(), format!("object {} is referenced in the new document but does not exist", id))
                    } else if d8 {
                        ("copy-unreadable:name-needs-escaping(D8)".to_string(), format!("object {} of the new document cannot be parsed; its source holds a name that needs #xx escaping", id))
                    } else {
                        ("copy-unreadable".to_string(), format!("object {} of the new document cannot be parsed: {}", id, crate::util::err_root(&e)))
                    };
                    if diffs.len() < 40 && !diffs.contains(&item) { diffs.push(item); }
                }
            }
        }
        if seen.len() > 200_000 { break; }
    }
    seen.len()
}

/// case = {"kind":"import","doc":hex | "path":…, "password":hex, "pages":[..], "cached":bool}
/// → {"failures":[{"sig","what"}], "stats":{..}, "imported":n}
fn exec_import(case: &Value) -> Value {
    let doc = match case.get("path").and_then(|p| p.as_str()) {
        Some(p) => match std::fs::read(p) { Ok(d) => d, Err(e) => return json!({"skip": format!("read: {}", e)}) },
        None => unhex(case["doc"].as_str().unwrap_or("-")).unwrap_or_default(),
    };
    let password = unhex(case["password"].as_str().unwrap_or("-")).unwrap_or_default();
    let pages: Vec<u32> = case["pages"].as_array().map(|a| a.iter().filter_map(|x| x.as_u64()).map(|x| x as u32).collect()).unwrap_or_default();
    let mut failures: Vec<(String, String)> = vec![];
    let mut stats: BTreeMap<String, u64> = BTreeMap::new();
    let mut bump = |stats: &mut BTreeMap<String, u64>, k: &str| *stats.entry(k.to_string()).or_insert(0) += 1;

    let old = match catch_unwind(AssertUnwindSafe(|| FileOptions::cached().password(&password).load(doc.clone()))) {
        Ok(Ok(f)) => f,
        Ok(Err(e)) => return json!({"skip": format!("source does not load: {}", e)}),
        Err(_) => return json!({"skip": "source load panicked (not this property)"}),
    };
    let npages = old.num_pages();
    let mut builder = PdfBuilder::new(FileOptions::cached());
    let mut rec = Rec { inner: &mut builder.storage, created: vec![] };
    // (source page index, source page) of the pages that were imported
    let mut done: Vec<(u32, pdf::object::PageRc)> = vec![];
    let mut pbs = vec![];
    {
        let mut imp = Importer::new(old.resolver(), &mut rec);
        for &pi in &pages {
            if pi >= npages { continue; }
            let page = match catch_unwind(AssertUnwindSafe(|| old.get_page(pi))) {
                Ok(Ok(p)) => p,
                _ => { bump(&mut stats, "page=unreadable-in-source"); continue; }
            };
            match catch_unwind(AssertUnwindSafe(|| PageBuilder::clone_page(&page, &mut imp))) {
                Ok(Ok(pb)) => { bump(&mut stats, "clone_page=ok"); pbs.push(pb); done.push((pi, page)); }
                Ok(Err(e)) => { bump(&mut stats, "clone_page=err"); bump(&mut stats, &format!("clone_page-err:{}", trunc(&format!("{}", crate::util::err_root(&e)))[..].chars().take(60).collect::<String>())); }
                Err(_) => {
                    failures.push(("panic".into(), format!("clone_page panicked on page {}", pi)));
                    break;
                }
            }
        }
    }
    let created = rec.created.len();
    stats.insert("objects-created-by-importer".into(), created as u64);
    if !failures.is_empty() || done.is_empty() {
        return json!({"failures": failures.iter().map(|(s, w)| json!({"sig": s, "what": w})).collect::<Vec<_>>(), "stats": stats, "imported": 0});
    }
    let bytes = match catch_unwind(AssertUnwindSafe(|| builder.build(CatalogBuilder::from_pages(pbs)))) {
        Ok(Ok(b)) => b,
        Ok(Err(e)) => {
            // building is part of importing: an error is "importing did not succeed"
            bump(&mut stats, "build=err");
            bump(&mut stats, &format!("build-err:{}", format!("{}", crate::util::err_root(&e)).chars().take(60).collect::<String>()));
            return json!({"failures": [], "stats": stats, "imported": 0});
        }
        Err(_) => {
            failures.push(("panic".into(), "PdfBuilder::build panicked on imported pages".into()));
            return json!({"failures": failures.iter().map(|(s, w)| json!({"sig": s, "what": w})).collect::<Vec<_>>(), "stats": stats, "imported": 0});
        }
    };
    bump(&mut stats, "build=ok");
    let new = match catch_unwind(AssertUnwindSafe(|| FileOptions::cached().load(bytes.clone()))) {
        Ok(Ok(f)) => f,
        Ok(Err(e)) => {
            failures.push(("reload-failed".into(), format!("the new document does not load: {}", e)));
            return json!({"failures": failures.iter().map(|(s, w)| json!({"sig": s, "what": w})).collect::<Vec<_>>(), "stats": stats, "imported": done.len(), "new_hex": hex(&bytes)});
        }
        Err(_) => {
            failures.push(("reload-failed".into(), "loading the new document panicked".into()));
            return json!({"failures": failures.iter().map(|(s, w)| json!({"sig": s, "what": w})).collect::<Vec<_>>(), "stats": stats, "imported": done.len()});
        }
    };
    let ro = old.resolver();
    let rn = new.resolver();
    if new.num_pages() as usize != done.len() {
        failures.push(("page-count".into(), format!("{} pages imported, the new document has {}", done.len(), new.num_pages())));
    }
    let plain: Option<BTreeMap<u64, Vec<u8>>> = case.get("plain").and_then(|p| p.as_object()).map(|m| m.iter().filter_map(|(k, v)| Some((k.parse().ok()?, unhex(v.as_str()?)?))).collect());
    let content_plain = case.get("content_plain").cloned().unwrap_or(Value::Null);
    let mut cmp = Cmp { ro: &ro, rn: &rn, fwd: BTreeMap::new(), bwd: BTreeMap::new(), visited: BTreeSet::new(), diffs: vec![], steps: 0, plain, plain_checked: BTreeMap::new() };
    for (ix, (pi, opage)) in done.iter().enumerate() {
        let npage = match catch_unwind(AssertUnwindSafe(|| new.get_page(ix as u32))) {
            Ok(Ok(p)) => p,
            Ok(Err(e)) => { failures.push(("new-page-unreadable".into(), format!("page {} of the new document (source page {}) cannot be read: {}", ix, pi, e))); continue; }
            Err(_) => { failures.push(("new-page-unreadable".into(), format!("reading page {} of the new document panicked", ix))); continue; }
        };
        let oref = opage.get_ref().get_inner();
        let nref = npage.get_ref().get_inner();
        let tag = format!("page{}", pi);
        // --- boxes and rotation, from the dictionaries with inheritance
        let om = norm_rect(nums(&inherited(&ro, oref, "MediaBox"), &ro));
        let nm = norm_rect(nums(&inherited(&rn, nref, "MediaBox"), &rn));
        if om != nm { failures.push(("mediabox-differs".into(), format!("{}: MediaBox {:?} became {:?}", tag, om, nm))); }
        let oc = norm_rect(nums(&inherited(&ro, oref, "CropBox"), &ro)).or(om.clone());
        let nc = norm_rect(nums(&inherited(&rn, nref, "CropBox"), &rn)).or(nm.clone());
        if oc != nc { failures.push(("cropbox-differs".into(), format!("{}: CropBox {:?} became {:?}", tag, oc, nc))); }
        let page_key = |r: &dyn Fn(&str) -> Option<Primitive>, k: &str| r(k);
        let oget = |k: &str| -> Option<Primitive> { match ro.resolve(oref).ok()? { Primitive::Dictionary(d) => d.get(k).and_then(|v| v.clone().resolve(&ro).ok()), _ => None } };
        let nget = |k: &str| -> Option<Primitive> { match rn.resolve(nref).ok()? { Primitive::Dictionary(d) => d.get(k).and_then(|v| v.clone().resolve(&rn).ok()), _ => None } };
        let ot = norm_rect(nums(&page_key(&oget, "TrimBox"), &ro));
        let nt = norm_rect(nums(&page_key(&nget, "TrimBox"), &rn));
        if ot != nt { failures.push(("trimbox-differs".into(), format!("{}: TrimBox {:?} became {:?}", tag, ot, nt))); }
        let orot = inherited(&ro, oref, "Rotate").and_then(|p| num_of(&p)).unwrap_or(0.0);
        let nrot = inherited(&rn, nref, "Rotate").and_then(|p| num_of(&p)).unwrap_or(0.0);
        if orot != nrot {
            let own = oget("Rotate").is_some();
            failures.push((if own { "rotate-differs" } else { "rotate-inherited-dropped" }.into(), format!("{}: /Rotate {} became {}", tag, orot, nrot)));
        }
        let eff = (om.clone(), oc.clone(), ot.clone(), orot);
        // --- operations
        let oops = match opage.contents.as_ref().map(|c| c.operations(&ro)) { Some(Ok(o)) => o, Some(Err(_)) => { bump(&mut stats, "source-ops-unreadable"); continue; } None => vec![] };
        let nops = match npage.contents.as_ref().map(|c| c.operations(&rn)) {
            Some(Ok(o)) => o,
            Some(Err(e)) => { failures.push(("new-ops-unreadable".into(), format!("{}: the operations of the new page cannot be read: {}", tag, e))); continue; }
            None => vec![],
        };
        // ground truth for the operations: what the generator wrote, parsed without any document
        if let Some(h) = content_plain.get(pi.to_string()).and_then(|h| h.as_str()) {
            if let Ok(want) = pdf::content::parse_ops(&unhex(h).unwrap_or_default(), &ro) {
                bump(&mut stats, "operations-compared-with-plaintext");
                if ops_text(&want) != ops_text(&nops) {
                    let rt = pdf::content::serialize_ops(&want).ok().and_then(|d| pdf::content::parse_ops(&d, &ro).ok()).map(|o| ops_text(&o));
                    if rt.as_ref() != Some(&ops_text(&nops)) {
                        failures.push(("operations-differ-from-plaintext".into(), format!("{}: the new page has {} operations, the source page was written with {}", tag, nops.len(), want.len())));
                    }
                }
            }
        }
        let (ot, nt) = (ops_text(&oops), ops_text(&nops));
        *stats.entry("operations-compared".into()).or_insert(0) += ot.len() as u64;
        // property lists of marked-content operators may hold references: compared modulo renaming
        if ot == nt {
            for (j, (a, b)) in oops.iter().zip(nops.iter()).enumerate() {
                if let (Some(pa), Some(pb)) = (op_props(a), op_props(b)) {
                    let (pa, pb) = (pa.clone(), pb.clone());
                    cmp.equiv(&format!("{}/operation{}/properties", tag, j), &pa, &pb);
                }
            }
        }
        if ot != nt {
            // is the difference the serialiser's (C08: write + read of the same operations)?
            let rt = pdf::content::serialize_ops(&oops).ok().and_then(|d| pdf::content::parse_ops(&d, &ro).ok()).map(|o| ops_text(&o));
            if rt.as_ref() == Some(&nt) {
                bump(&mut stats, "ops-differ-only-by-serializer-roundtrip(C08)");
            } else {
                let at = ot.iter().zip(nt.iter()).position(|(a, b)| a != b).unwrap_or(ot.len().min(nt.len()));
                failures.push(("operations-differ".into(), format!("{}: {} operations became {}; first difference at {}: {:?} vs {:?}", tag, ot.len(), nt.len(), at, ot.get(at), nt.get(at))));
            }
        }
        // --- resources by name
        let mut content = vec![];
        if let Some(c) = opage.contents.as_ref() { for part in &c.parts { if let Ok(d) = part.data(&ro) { content.extend_from_slice(&d); content.push(b'\n'); } } }
        let used = used_resources(&oops, &content);
        let ores = inherited(&ro, oref, "Resources");
        let nres = inherited(&rn, nref, "Resources");
        // --- the other entry point: PageBuilder::from_page (same document, nothing is copied) must see the same
        //     effective boxes, rotation, operations and the resources the operations name
        match catch_unwind(AssertUnwindSafe(|| PageBuilder::from_page(opage, &ro))) {
            Err(_) => failures.push(("panic".into(), format!("{}: PageBuilder::from_page panicked", tag))),
            Ok(Err(_)) => bump(&mut stats, "from_page=err"),
            Ok(Ok(pb)) => {
                bump(&mut stats, "from_page=ok");
                let rect = |r: &Option<pdf::object::Rectangle>| norm_rect(r.as_ref().map(|r| vec![r.left as f64, r.bottom as f64, r.right as f64, r.top as f64]));
                if rect(&pb.media_box) != eff.0 { failures.push(("from_page:mediabox-differs".into(), format!("{}: from_page gives MediaBox {:?}, the page has {:?}", tag, rect(&pb.media_box), eff.0))); }
                if rect(&pb.crop_box) != eff.1 { failures.push(("from_page:cropbox-differs".into(), format!("{}: from_page gives CropBox {:?}, the page has {:?}", tag, rect(&pb.crop_box), eff.1))); }
                if rect(&pb.trim_box) != eff.2 { failures.push(("from_page:trimbox-differs".into(), format!("{}: from_page gives TrimBox {:?}, the page has {:?}", tag, rect(&pb.trim_box), eff.2))); }
                if pb.rotate as f64 != eff.3 {
                    let own = oget("Rotate").is_some();
                    failures.push((if own { "from_page:rotate-differs" } else { "rotate-inherited-dropped" }.into(), format!("{}: from_page gives /Rotate {}, the page has {}", tag, pb.rotate, eff.3)));
                }
                if ops_text(&pb.ops) != ops_text(&oops) { failures.push(("from_page:operations-differ".into(), format!("{}: from_page gives {} operations, the page has {}", tag, pb.ops.len(), oops.len()))); }
                for (kind, name) in &used {
                    if res_entry(&ro, &ores, kind, name).is_none() { continue; }
                    let r = &pb.resources;
                    let has = match kind.as_str() {
                        "ExtGState" => r.graphics_states.contains_key(name.as_str()),
                        "Font" => r.fonts.contains_key(name.as_str()),
                        "XObject" => r.xobjects.contains_key(name.as_str()),
                        "ColorSpace" => r.color_spaces.contains_key(name.as_str()),
                        "Pattern" => r.pattern.contains_key(name.as_str()),
                        "Properties" => r.properties.contains_key(name.as_str()),
                        _ => false, // the typed Resources has no /Shading
                    };
                    if !has { failures.push((if kind == "Shading" { "resource-not-copied:Shading".to_string() } else { format!("from_page:resource-missing:{}", kind) }, format!("{}: from_page: the operations name /{} of /{} but the builder's resources have no such entry", tag, name, kind))); }
                }
            }
        }
        for (kind, name) in &used {
            let oe = res_entry(&ro, &ores, kind, name);
            let ne = res_entry(&rn, &nres, kind, name);
            bump(&mut stats, &format!("used-resource:{}", kind));
            match (oe, ne) {
                (None, _) => bump(&mut stats, "used-resource-absent-in-source"),
                (Some(_), None) => failures.push((format!("resource-not-copied:{}", kind), format!("{}: the operations name /{} of /{} but the new page's resources have no such entry", tag, name, kind))),
                (Some(a), Some(b)) => {
                    let before = cmp.diffs.len();
                    cmp.equiv(&format!("{}/{}/{}", tag, kind, name), &a, &b);
                    if cmp.diffs.len() == before { bump(&mut stats, "used-resource-equal"); }
                }
            }
        }
        // --- the other entries of the page dictionary
        if let (Ok(Primitive::Dictionary(od)), Ok(Primitive::Dictionary(nd))) = (ro.resolve(oref), rn.resolve(nref)) {
            for (k, v) in od.iter() {
                if matches!(k.as_str(), "Type" | "Parent" | "Contents" | "Resources" | "Annots" | "MediaBox" | "CropBox" | "TrimBox" | "Rotate") { continue; }
                match nd.get(k.as_str()) {
                    Some(nv) => { let nv = nv.clone(); cmp.equiv(&format!("{}/{}", tag, k.as_str()), v, &nv); }
                    None => { if !matches!(v, Primitive::Null) { cmp.diff(&format!("page-entry-lost:{}", k.as_str()), format!("{}: page entry /{} is missing in the new page", tag, k.as_str())); } }
                }
            }
        }
    }
    stats.insert("object-pairs".into(), cmp.fwd.len() as u64);
    for (k, v) in &cmp.plain_checked { stats.insert(k.clone(), *v); }
    let mut diffs = std::mem::take(&mut cmp.diffs);
    // --- closure from the new trailer
    let roots = Primitive::Array(vec![Primitive::Reference(new.trailer.root.get_ref().get_inner())]);
    let bwd = cmp.bwd.clone();
    let visited = closure_check(&rn, &roots, &ro, &bwd, &mut diffs);
    stats.insert("new-objects-reachable".into(), visited as u64);
    for (s, w) in diffs { failures.push((s, w)); }
    let mut res = json!({"failures": failures.iter().map(|(s, w)| json!({"sig": s, "what": w})).collect::<Vec<_>>(), "stats": stats, "imported": done.len()});
    if case.get("dump").is_some() { res["new_hex"] = json!(hex(&bytes)); }
    res
}

// =====================================================================================================
// oracle driver

struct ImportCase {
    label: String,
    case: Value,
    /// run in a child process (anything that may overflow the stack or hang on a broken implementation)
    child: bool,
    nontrivial: bool,
}

fn corpus_files() -> Vec<(String, Vec<u8>)> {
    let root = crate::util::repo_root();
    let mut out = vec![];
    let mut add = |dir: &str, pw: &[u8]| {
        let mut names: Vec<_> = std::fs::read_dir(format!("{}/{}", root, dir)).map(|d| d.filter_map(|e| e.ok()).map(|e| e.path()).collect()).unwrap_or_else(|_| vec![]);
        names.sort();
        for p in names {
            if p.extension().map(|e| e == "pdf").unwrap_or(false) {
                out.push((p.to_string_lossy().to_string(), pw.to_vec()));
            }
        }
    };
    add("files", b"");
    add("files/password_protected", b"userpassword");
    out
}

fn page_count(path: &str, pw: &[u8]) -> Option<u32> {
    let data = std::fs::read(path).ok()?;
    catch_unwind(AssertUnwindSafe(|| FileOptions::uncached().password(pw).load(data).ok().map(|f| f.num_pages()))).ok().flatten()
}

/// subsets / orders of pages of an n-page document
fn page_selections(rng: &mut Rng, n: u32, how_many: usize) -> Vec<Vec<u32>> {
    let mut sels: Vec<Vec<u32>> = vec![];
    // every page alone, all pages in order, all pages reversed
    for i in 0..n.min(6) { sels.push(vec![i]); }
    if n > 1 {
        sels.push((0..n.min(8)).collect());
        sels.push((0..n.min(8)).rev().collect());
    }
    for _ in 0..how_many {
        let k = 1 + rng.below(n.min(5) as u64) as usize;
        let mut all: Vec<u32> = (0..n).collect();
        rng.shuffle(&mut all);
        all.truncate(k);
        if rng.chance(1, 4) && !all.is_empty() { let d = all[0]; all.push(d); } // the same page twice
        sels.push(all);
    }
    sels.sort();
    sels.dedup();
    sels
}

fn run_import_cases(or: &mut Oracle, seed: u64, stream: &str, cases: Vec<ImportCase>) {
    let child_ix: Vec<usize> = (0..cases.len()).filter(|i| cases[*i].child).collect();
    let child_json: Vec<Value> = child_ix.iter().map(|i| cases[*i].case.clone()).collect();
    let mut child_res: BTreeMap<usize, Result<Value, String>> = BTreeMap::new();
    for (i, r) in child_ix.iter().zip(run_in_children(&child_json, 20).into_iter()) {
        child_res.insert(*i, r);
    }
    for (i, c) in cases.iter().enumerate() {
        let res: Result<Value, String> = match child_res.remove(&i) {
            Some(r) => r,
            None => Ok(exec_import(&c.case)),
        };
        let replay = json!({"stream": stream, "seed": seed, "case": i, "label": c.label, "import": c.case});
        match res {
            Err(e) => {
                or.case(&c.label, c.nontrivial, || json!({"label": c.label}));
                let sig = if e.starts_with("timeout") { "hang" } else { "abort" };
                or.fail(sig, &format!("{}: importing took the process down: {}", c.label, e), replay);
            }
            Ok(v) => {
                if let Some(sk) = v.get("skip") {
                    or.count(&format!("skipped:{}", sk.as_str().unwrap_or("").chars().take(50).collect::<String>()));
                    continue;
                }
                let imported = v["imported"].as_u64().unwrap_or(0);
                if let Some(min) = c.case.get("min_streams").and_then(|m| m.as_u64()) {
                    let got: u64 = v["stats"].as_object().map(|m| m.iter().filter(|(k, _)| k.starts_with("stream-vs-plaintext")).map(|(_, n)| n.as_u64().unwrap_or(0)).sum()).unwrap_or(0);
                    if imported > 0 && got < min {
                        or.fail("witness-streams-not-compared", &format!("{}: only {} imported streams were compared with the plaintext (expected at least {})", c.label, got, min), replay.clone());
                    }
                }
                match c.case.get("expect").and_then(|e| e.as_str()) {
                    Some("success") if imported == 0 => or.fail("witness-import-failed", &format!("{}: importing was expected to succeed: {}", c.label, v["stats"]), replay.clone()),
                    Some("no-success") if imported != 0 => or.fail("witness-import-succeeded", &format!("{}: importing was expected to end with an error", c.label), replay.clone()),
                    _ => {}
                }
                or.case(&c.label, c.nontrivial && imported > 0, || json!({"label": c.label, "imported": imported, "stats": v["stats"]}));
                or.count(if imported > 0 { "import=compared" } else { "import=did-not-succeed" });
                if let Some(st) = v["stats"].as_object() {
                    for (k, n) in st { for _ in 0..n.as_u64().unwrap_or(0).min(1) { or.count(&format!("{}", k)); } }
                }
                let mut seen = BTreeSet::new();
                for f in v["failures"].as_array().cloned().unwrap_or_default() {
                    let sig = f["sig"].as_str().unwrap_or("?").to_string();
                    if seen.insert(sig.clone()) {
                        or.fail(&sig, &format!("{}: {}", c.label, f["what"].as_str().unwrap_or("")), replay.clone());
                    }
                }
            }
        }
    }
}

fn import_corpus(seed: u64, thorough: bool) -> Oracle {
    let mut or = Oracle::new("c20.import.corpus");
    let mut cases = vec![];
    for (path, pw) in corpus_files() {
        let n = match page_count(&path, &pw) { Some(n) if n > 0 => n, _ => { or.count("corpus-file-not-loadable"); continue; } };
        let mut rng = Rng::derive(seed, "c20.import.corpus", cases.len() as u64);
        let name = path.rsplit('/').next().unwrap_or("").to_string();
        for sel in page_selections(&mut rng, n, if thorough { 12 } else { 2 }) {
            cases.push(ImportCase {
                label: format!("{} pages {:?}", name, sel),
                case: json!({"kind": "import", "path": path, "password": hex(&pw), "pages": sel}),
                child: true,
                nontrivial: true,
            });
        }
    }
    run_import_cases(&mut or, seed, "c20.import.corpus", cases);
    or
}

// ---------------------------------------------------------------------------------------------------
// generated documents for the oracle

/// realistic resource objects, numbered from 200: fonts (with descriptor, /ToUnicode stream, /Widths),
/// images (raw / Flate / predictor / filter chains), forms with their own resources
struct Rich {
    objs: Vec<(u64, Vec<u8>, bool)>,
    fonts: Vec<u64>,
    images: Vec<u64>,
    forms: Vec<u64>,
    ocgs: Vec<u64>,
    iccs: Vec<u64>,
    metas: Vec<u64>,
}

fn png_up_rows(rows: &[Vec<u8>]) -> Vec<u8> {
    // PNG predictor "Up" (type 2) on every row
    let mut out = vec![];
    let mut prev = vec![0u8; rows[0].len()];
    for r in rows {
        out.push(2);
        for (i, b) in r.iter().enumerate() { out.push(b.wrapping_sub(prev[i])); }
        prev = r.clone();
    }
    out
}

fn rich_objects(rng: &mut Rng, g: &Graph) -> Rich {
    let mut r = Rich { objs: vec![], fonts: vec![], images: vec![], forms: vec![], ocgs: vec![], iccs: vec![], metas: vec![] };
    let gids: Vec<u64> = g.keys().cloned().collect();
    let mut next = 200u64;
    let mut id = || { next += 1; next };
    // fonts
    for i in 0..1 + rng.below(3) {
        let f = id(); let d = id(); let tu = id(); let w = id();
        let base = ["Helvetica", "Times-Roman", "Courier", "ABCDEF+Custom"][i as usize % 4];
        r.objs.push((f, format!("<< /Type /Font /Subtype /Type1 /BaseFont /{} /Encoding /WinAnsiEncoding /FirstChar 32 /LastChar 34 /Widths {} 0 R /FontDescriptor {} 0 R /ToUnicode {} 0 R >>", base, w, d, tu).into_bytes(), false));
        // an embedded font program (any bytes will do: nothing parses them on import)
        let ff = if rng.chance(2, 3) {
            let ffid = id();
            let n = 20 + rng.usize(400);
            let prog = rng.bytes(n);
            r.objs.push((ffid, if rng.chance(1, 2) { stream_body(&format!("/Length1 {} /Filter /FlateDecode", prog.len()), &zlib(&prog)) } else { stream_body(&format!("/Length1 {}", prog.len()), &prog) }, true));
            format!(" /{} {} 0 R", ["FontFile", "FontFile2", "FontFile3"][rng.usize(3)], ffid)
        } else { String::new() };
        r.objs.push((d, format!("<< /Type /FontDescriptor /FontName /{} /Flags 32 /FontBBox [-10 -20 1000 900] /ItalicAngle 0 /Ascent 700 /Descent -200 /CapHeight 650 /StemV 80{} >>", base, ff).into_bytes(), false));
        let cmap = format!("/CIDInit /ProcSet findresource begin\n1 beginbfchar\n<20> <00{:02X}>\nendbfchar\nend", 0x41 + i);
        r.objs.push((tu, if rng.chance(1, 2) { stream_body("/Filter /FlateDecode", &zlib(cmap.as_bytes())) } else { stream_body("", cmap.as_bytes()) }, true));
        r.objs.push((w, b"[250 333.5 408]".to_vec(), false));
        r.fonts.push(f);
    }
    // images
    for _ in 0..1 + rng.below(3) {
        let im = id();
        let rows: Vec<Vec<u8>> = (0..2).map(|_| rng.bytes(6)).collect();
        let raw: Vec<u8> = rows.concat();
        let head = "/Type /XObject /Subtype /Image /Width 2 /Height 2 /ColorSpace /DeviceRGB /BitsPerComponent 8";
        let extra = if rng.chance(1, 3) { " /Interpolate true" } else { "" };
        if rng.chance(1, 5) {
            // palette image: the lookup table as a short string, a long string or a stream object
            let n = *rng.pick(&[4usize, 40]);
            let pal = rng.bytes(3 * n);
            let lookup = if rng.chance(1, 3) { let l = id(); r.objs.push((l, stream_body("", &pal), true)); format!("{} 0 R", l) } else { hex_string(&pal) };
            let data: Vec<u8> = (0..4).map(|_| rng.below(n as u64) as u8).collect();
            r.objs.push((im, stream_body(&format!("/Type /XObject /Subtype /Image /Width 2 /Height 2 /ColorSpace [/Indexed /DeviceRGB {} {}] /BitsPerComponent 8{}", n - 1, lookup, extra), &data), true));
            r.images.push(im);
            continue;
        }
        let body = match rng.below(7) {
            0 => stream_body(&format!("{}{}", head, extra), &raw),
            1 => stream_body(&format!("{}{} /Filter /FlateDecode", head, extra), &zlib(&raw)),
            2 => stream_body(&format!("{}{} /Filter /FlateDecode /DecodeParms << /Predictor 12 /Colors 3 /BitsPerComponent 8 /Columns 2 >>", head, extra), &zlib(&png_up_rows(&rows))),
            3 => stream_body(&format!("{}{} /Filter [/ASCIIHexDecode /FlateDecode]", head, extra), &ascii_hex(&zlib(&raw))),
            5 => stream_body(&format!("{}{} /Filter [/FlateDecode /FlateDecode]", head, extra), &zlib(&zlib(&raw))),
            4 => stream_body(&format!("{}{} /Filter [/ASCIIHexDecode /FlateDecode] /DecodeParms [null << /Predictor 12 /Colors 3 /BitsPerComponent 8 /Columns 2 >>]", head, extra), &ascii_hex(&zlib(&png_up_rows(&rows)))),
            _ => stream_body(&format!("{}{} /Filter /ASCIIHexDecode", head, extra), &ascii_hex(&raw)),
        };
        r.objs.push((im, body, true));
        r.images.push(im);
    }
    // ICC profiles (reached through /Group /CS of pages and forms) and XMP metadata streams
    for _ in 0..rng.below(3) {
        let c = id();
        let n = 30 + rng.usize(200);
        let prof = rng.bytes(n);
        r.objs.push((c, if rng.chance(1, 2) { stream_body("/N 3 /Alternate /DeviceRGB /Filter /FlateDecode", &zlib(&prof)) } else { stream_body("/N 3 /Alternate /DeviceRGB", &prof) }, true));
        r.iccs.push(c);
    }
    for i in 0..rng.below(3) {
        let m = id();
        let xml = format!("<?xpacket begin='' id='W5M0MpCehiHzreSzNTczkc9d'?><x:xmpmeta xmlns:x='adobe:ns:meta/'><n>{}</n></x:xmpmeta><?xpacket end='w'?>", 1000 * i + rng.below(1000));
        r.objs.push((m, stream_body("/Type /Metadata /Subtype /XML", xml.as_bytes()), true));
        r.metas.push(m);
    }
    // optional-content groups (targets of /Properties)
    for i in 0..rng.below(3) {
        let o = id();
        r.objs.push((o, format!("<< /Type /OCG /Intent /View /Order {} >>", i).into_bytes(), false));
        r.ocgs.push(o);
    }
    // forms: own resources (direct or indirect), may use fonts, images and earlier forms, extra keys with graph references
    for _ in 0..rng.below(4) {
        let f = id();
        let mut res = String::from("<<");
        let mut content = String::from("q ");
        if !r.fonts.is_empty() && rng.chance(1, 2) { res.push_str(&format!(" /Font << /FA {} 0 R >>", rng.pick(&r.fonts))); content.push_str("BT /FA 9 Tf (x) Tj ET "); }
        let mut xo = vec![];
        if !r.images.is_empty() && rng.chance(1, 2) { xo.push(format!("/IA {} 0 R", rng.pick(&r.images))); content.push_str("/IA Do "); }
        if !r.forms.is_empty() && rng.chance(1, 2) { xo.push(format!("/FB {} 0 R", rng.pick(&r.forms))); content.push_str("/FB Do "); }
        if !xo.is_empty() { res.push_str(&format!(" /XObject << {} >>", xo.join(" "))); }
        res.push_str(" >>");
        content.push_str("Q");
        let mut d = String::from("/Type /XObject /Subtype /Form /BBox [0 0 50 50]");
        if rng.chance(1, 2) { d.push_str(" /Matrix [1 0 0 1 2.5 3]"); }
        if rng.chance(1, 2) {
            if !r.iccs.is_empty() && rng.chance(1, 2) { d.push_str(&format!(" /Group << /S /Transparency /CS [/ICCBased {} 0 R] >>", rng.pick(&r.iccs))); }
            else { d.push_str(" /Group << /S /Transparency /CS /DeviceRGB >>"); }
        }
        if rng.chance(2, 3) {
            if rng.chance(1, 2) { let rid = id(); r.objs.push((rid, res.clone().into_bytes(), false)); d.push_str(&format!(" /Resources {} 0 R", rid)); }
            else { d.push_str(&format!(" /Resources {}", res)); }
        }
        if !gids.is_empty() && rng.chance(1, 2) { d.push_str(&format!(" /PieceInfo << /App << /Private {} 0 R >> >>", rng.pick(&gids))); }
        let body = if rng.chance(1, 2) { stream_body(&format!("{} /Filter /FlateDecode", d), &zlib(content.as_bytes())) } else { stream_body(&d, content.as_bytes()) };
        r.objs.push((f, body, true));
        r.forms.push(f);
    }
    r
}

/// pages over the rich objects and the graph
/// the pool of resource entries the pages of a generated document draw from (names overlap between the
/// categories: with shared names `/R1` is a font, an XObject and an ExtGState at once)
fn rich_pool(rng: &mut Rng, g: &Graph, rich: &Rich, kinds_all: bool) -> Vec<ResSpec> {
    let gids: Vec<u64> = g.keys().cloned().collect();
    let mut pool: Vec<ResSpec> = vec![];
    for (i, f) in rich.fonts.iter().enumerate() { pool.push(ResSpec { kind: 1, name: 1 + i as u64, payload: 0, kids: vec![*f], raw: None }); }
    for (i, x) in rich.images.iter().chain(rich.forms.iter()).enumerate() { pool.push(ResSpec { kind: 2, name: 1 + i as u64, payload: 0, kids: vec![*x], raw: None }); }
    for i in 0..2u64 { pool.push(ResSpec { kind: 0, name: 1 + i, payload: 7000 + i, kids: (0..rng.below(3)).filter_map(|_| if gids.is_empty() { None } else { Some(*rng.pick(&gids)) }).collect(), raw: None }); }
    // ExtGState entries with typed fields: soft mask (dictionary with a form), blend mode, dash, font
    if !rich.forms.is_empty() {
        pool.push(ResSpec { kind: 0, name: 3, payload: 0, kids: vec![], raw: Some(format!("<< /Type /ExtGState /CA 0.5 /ca 0.25 /BM /Multiply /SMask << /Type /Mask /S /Luminosity /G {} 0 R >> /AIS false >>", rng.pick(&rich.forms))) });
    }
    pool.push(ResSpec { kind: 0, name: 4, payload: 0, kids: vec![], raw: Some("<< /LW 1.5 /LC 1 /LJ 2 /ML 4.5 /D [[3 2] 0] /RI /Perceptual /OP true /op false /OPM 1 /SMask /None /TK true >>".to_string()) });
    // (no /Font [ref size] in an ExtGState: that is the one place where a font is cloned as a typed `Font`, and the
    //  typed FontDescriptor drops /Type and unknown keys on writing — typed round trips belong to C15 / C19)
    for (i, o) in rich.ocgs.iter().enumerate() { pool.push(ResSpec { kind: 6, name: 1 + i as u64, payload: 0, kids: vec![*o], raw: None }); }
    if kinds_all {
        pool.push(ResSpec { kind: 3, name: 1, payload: 0, kids: vec![], raw: None });
    }
    pool
}

fn shift_graph(g0: Graph) -> Graph {
    g0.into_iter().map(|(id, mut nd)| {
        let sh = |x: u64| if x >= 900 { x } else { x + 90 };
        nd.k = nd.k.iter().map(|x| sh(*x)).collect(); nd.a = nd.a.map(sh); nd.b = nd.b.map(sh);
        (id + 90, nd)
    }).collect()
}

fn simple_page(res: Vec<ResSpec>, ops: Vec<OpSpec>, rest: Vec<u64>) -> PSpec {
    PSpec { attrs: Attrs { media: Some(5), crop: None, rotate: Some(90), res: Some(res) }, trim: None, parent: 0, res_mode: ResMode::Direct, ops, rest,
        meta: None, group_cs: None, vp: vec![], flate: false, split: false, no_contents: false, cat_indirect: 0, entry_indirect: false }
}

/// all pages directly below the root
fn flat_doc(pages: Vec<PSpec>, collide: bool) -> PDoc {
    let kids = vec![(0..pages.len()).map(Kid::Page).collect()];
    PDoc { tree: vec![TNode { parent: None, attrs: Attrs::default(), res_indirect: false }], kids, pages, collide }
}

/// deterministic witnesses: the open findings (D40, one per category; inherited /Rotate), the repaired defects
/// (D40 Properties, D41, D46, D47) and one fixed page per dimension the random documents vary (name shared by
/// several categories, attributes inherited from the grand-parent, one /Resources object for two pages)
fn witnesses() -> Vec<ImportCase> {
    let mut out = vec![];
    let base = simple_page;
    let use_ = |k: usize, n: u64| OpSpec::Use(k, n, 0);
    let case = |label: &str, doc: Vec<u8>, pages: Vec<u32>, expect: Option<&str>| {
        let mut c = json!({"kind": "import", "doc": hex(&doc), "password": "-", "pages": pages});
        if let Some(e) = expect { c["expect"] = json!(e); }
        ImportCase { label: label.to_string(), case: c, child: true, nontrivial: true }
    };
    let mut g = Graph::new();
    g.insert(100, GNode { ty: NT::Dict, k: vec![], a: None, b: None });
    // D40: one page per category that `deep_clone_op` does not look at
    for (kind, label) in [(3usize, "ColorSpace"), (4, "Pattern"), (5, "Shading")] {
        let p = base(vec![ResSpec { kind, name: 1, payload: 0, kids: vec![100], raw: None }, ResSpec { kind: 0, name: 1, payload: 5, kids: vec![], raw: None }], vec![OpSpec::Other(0), use_(0, 1), use_(kind, 1), OpSpec::Other(1)], vec![]);
        out.push(case(&format!("witness D40 {}", label), page_doc(&flat_doc(vec![p], false), &g, &[], PLAIN), vec![0], None));
    }
    // /Rotate given by the page tree only: the library reads the page's own entry (open)
    {
        let mut p = base(vec![], vec![OpSpec::Other(0), OpSpec::Other(1)], vec![]);
        p.attrs.rotate = None;
        let mut d = flat_doc(vec![p], false);
        d.tree[0].attrs.rotate = Some(90);
        out.push(case("witness inherited /Rotate", page_doc(&d, &g, &[], PLAIN), vec![0], None));
    }
    // D40, /Properties part (fixed): BDC with a name operand
    {
        let p = base(vec![ResSpec { kind: 6, name: 1, payload: 0, kids: vec![100], raw: None }], vec![OpSpec::Other(0), use_(6, 1), OpSpec::Other(1)], vec![]);
        out.push(case("regression D40 Properties", page_doc(&flat_doc(vec![p], false), &g, &[], PLAIN), vec![0], Some("success")));
    }
    // D41 (fixed): a page-level entry that leads into a reference cycle; importing must end (with an error)
    let mut gc = Graph::new();
    gc.insert(100, GNode { ty: NT::Dict, k: vec![101], a: None, b: None });
    gc.insert(101, GNode { ty: NT::Arr, k: vec![100], a: None, b: None });
    out.push(case("regression D41 cycle below a page entry", page_doc(&flat_doc(vec![base(vec![], vec![OpSpec::Other(0), OpSpec::Other(1)], vec![100])], false), &gc, &[], PLAIN), vec![0], Some("no-success")));
    let mut gs = Graph::new();
    gs.insert(100, GNode { ty: NT::Stm, k: vec![100], a: None, b: None });
    out.push(case("regression D41 self-referencing font object", page_doc(&flat_doc(vec![base(vec![ResSpec { kind: 1, name: 1, payload: 0, kids: vec![100], raw: None }], vec![use_(1, 1)], vec![])], false), &gs, &[], PLAIN), vec![0], Some("no-success")));
    // D46 (fixed): /Resources object 101 reached as a plain reference (page entry /K) by the first page, then as
    // the /Resources (RcRef) of a form used by the second page
    let mut gr = Graph::new();
    gr.insert(101, GNode { ty: NT::Res, k: vec![], a: None, b: Some(102) });
    gr.insert(102, GNode { ty: NT::Dict, k: vec![], a: None, b: None });
    gr.insert(103, GNode { ty: NT::Form, k: vec![], a: Some(101), b: None });
    let p1 = base(vec![], vec![OpSpec::Other(0), OpSpec::Other(1)], vec![101]);
    let p2 = base(vec![ResSpec { kind: 2, name: 1, payload: 0, kids: vec![103], raw: None }], vec![use_(2, 1)], vec![]);
    out.push(case("regression D46 object copied as a plain reference, then as an RcRef", page_doc(&flat_doc(vec![p1, p2], false), &gr, &[], PLAIN), vec![0, 1], Some("success")));
    // D47 (fixed): images whose filter chain has parameters beyond the first filter / two parameterised filters
    let head = "/Type /XObject /Subtype /Image /Width 2 /Height 2 /ColorSpace /DeviceRGB /BitsPerComponent 8";
    let rows = vec![vec![1u8, 2, 3, 4, 5, 6], vec![7u8, 8, 9, 10, 11, 12]];
    let img1 = stream_body(&format!("{} /Filter [/ASCIIHexDecode /FlateDecode] /DecodeParms [null << /Predictor 12 /Colors 3 /BitsPerComponent 8 /Columns 2 >>]", head), &ascii_hex(&zlib(&png_up_rows(&rows))));
    let img2 = stream_body(&format!("{} /Filter [/FlateDecode /FlateDecode]", head), &zlib(&zlib(&rows.concat())));
    for (label, img) in [("regression D47 predictor parameters of the second filter", img1), ("regression D47 two filters with parameters", img2.clone())] {
        let p = base(vec![ResSpec { kind: 2, name: 1, payload: 0, kids: vec![200], raw: None }], vec![OpSpec::Other(0), use_(2, 1), OpSpec::Other(1)], vec![]);
        out.push(case(label, page_doc(&flat_doc(vec![p], false), &Graph::new(), &[(200, img, true)], PLAIN), vec![0], Some("success")));
    }
    // D49 (fixed): an inline image cannot be written by serialize_ops; building must fail, not panic
    {
        let p = base(vec![ResSpec { kind: 3, name: 1, payload: 0, kids: vec![], raw: None }], vec![OpSpec::Other(0), OpSpec::Use(3, 1, 2), OpSpec::Other(1)], vec![]);
        out.push(case("regression D49 page with an inline image", page_doc(&flat_doc(vec![p], false), &g, &[], PLAIN), vec![0], Some("no-success")));
    }
    // --- the dimensions of the random documents, one fixed instance each
    // one name in four categories, used in both orders of first use
    for (label, order) in [("dimension: /R1 is a font, an XObject, an ExtGState and a property list (font first)", vec![1usize, 2, 0, 6]), ("dimension: /R1 in four categories (XObject first)", vec![2usize, 6, 1, 0, 2, 1])] {
        let mut gg = Graph::new();
        gg.insert(100, GNode { ty: NT::Dict, k: vec![], a: None, b: None });
        gg.insert(101, GNode { ty: NT::Form, k: vec![], a: None, b: None });
        gg.insert(102, GNode { ty: NT::Dict, k: vec![], a: None, b: None });
        let res = vec![ResSpec { kind: 1, name: 1, payload: 0, kids: vec![100], raw: None }, ResSpec { kind: 2, name: 1, payload: 0, kids: vec![101], raw: None },
            ResSpec { kind: 0, name: 1, payload: 77, kids: vec![102], raw: None }, ResSpec { kind: 6, name: 1, payload: 0, kids: vec![102], raw: None }];
        let p = base(res, order.iter().map(|k| use_(*k, 1)).collect(), vec![]);
        out.push(case(label, page_doc(&flat_doc(vec![p], true), &gg, &[], PLAIN), vec![0], Some("success")));
    }
    // every inheritable attribute only at the grand-parent; a sibling page with its own
    {
        let mut p = base(vec![], vec![use_(1, 1), OpSpec::Other(1)], vec![]);
        p.attrs = Attrs::default();
        p.parent = 2;
        let mut q = base(vec![ResSpec { kind: 1, name: 1, payload: 0, kids: vec![100], raw: None }], vec![use_(1, 1)], vec![]);
        q.attrs.crop = Some(45);
        q.parent = 2;
        let tree = vec![
            TNode { parent: None, attrs: Attrs { media: Some(7), crop: Some(47), rotate: None, res: Some(vec![ResSpec { kind: 1, name: 1, payload: 0, kids: vec![100], raw: None }]) }, res_indirect: true },
            TNode { parent: Some(0), attrs: Attrs::default(), res_indirect: false },
            TNode { parent: Some(1), attrs: Attrs::default(), res_indirect: false },
        ];
        let kids = vec![vec![Kid::Node(1)], vec![Kid::Node(2)], vec![Kid::Page(0), Kid::Page(1)]];
        let d = PDoc { tree, kids, pages: vec![p, q], collide: false };
        out.push(case("dimension: MediaBox, CropBox, Resources inherited from the grand-parent", page_doc(&d, &g, &[], PLAIN), vec![0, 1, 0], Some("success")));
    }
    // two pages, one /Resources object, different subsets used
    {
        let res = vec![ResSpec { kind: 1, name: 1, payload: 0, kids: vec![100], raw: None }, ResSpec { kind: 0, name: 2, payload: 9, kids: vec![100], raw: None }];
        let mut p = base(res.clone(), vec![use_(1, 1)], vec![]);
        p.res_mode = ResMode::Indirect;
        let mut q = base(res, vec![use_(0, 2), use_(1, 1)], vec![]);
        q.res_mode = ResMode::SharedWith(0);
        out.push(case("dimension: two pages share one /Resources object", page_doc(&flat_doc(vec![p, q], false), &g, &[], PLAIN), vec![1, 0], Some("success")));
    }
    out
}

/// fixed encrypted / prefixed / updated sources (independent of VERIF_SEED): one page that carries every kind of
/// stream a page can carry — filtered image, form with its own resources, font with program and /ToUnicode, ICC
/// profile in the page group, XMP metadata, a split content stream — for every family of the security handler
fn source_witnesses() -> Vec<ImportCase> {
    let mut out = vec![];
    let vars = crate::c06::doc::variants();
    let fams = ["R2-RC4-40", "R3-RC4", "R4-RC4", "R4-AES128", "R5-AES256", "R6-AES256"];
    let mut layouts: Vec<(String, Layout)> = vec![];
    for (k, f) in fams.iter().enumerate() {
        // the longest key of the family
        let ix = (0..vars.len()).filter(|i| vars[*i].name == *f).last().unwrap();
        layouts.push((format!("encrypted source {}", f), Layout { xref_stream: k % 2 == 0, objstm: k % 4 == 0, flate: true, encrypt: Some(ix), encrypt_metadata: k % 3 != 0, prefix: 0, revisions: false, seed: 100 + k as u64 }));
    }
    layouts.push(("source behind a junk prefix".into(), Layout { prefix: 137, ..PLAIN }));
    layouts.push(("encrypted source behind a junk prefix, two revisions".into(), Layout { xref_stream: true, objstm: false, flate: false, encrypt: Some(vars.len() - 3), encrypt_metadata: true, prefix: 61, revisions: true, seed: 7 }));
    layouts.push(("source in two revisions with object streams".into(), Layout { xref_stream: true, objstm: true, flate: true, revisions: true, seed: 9, ..PLAIN }));
    for (k, (label, layout)) in layouts.into_iter().enumerate() {
        let mut rng = Rng::derive(0xC20, "c20.source-witness", k as u64);
        let mut g = Graph::new();
        g.insert(100, GNode { ty: NT::Stm, k: vec![101], a: None, b: None });
        g.insert(101, GNode { ty: NT::Dict, k: vec![], a: None, b: None });
        // rich objects until there is at least one of everything
        let rich = loop {
            let r = rich_objects(&mut rng, &g);
            if !r.forms.is_empty() && !r.iccs.is_empty() && !r.metas.is_empty() && r.images.len() >= 2 { break r; }
        };
        let res = vec![
            ResSpec { kind: 1, name: 1, payload: 0, kids: vec![rich.fonts[0]], raw: None },
            ResSpec { kind: 2, name: 1, payload: 0, kids: vec![rich.images[0]], raw: None },
            ResSpec { kind: 2, name: 2, payload: 0, kids: vec![rich.images[1]], raw: None },
            ResSpec { kind: 2, name: 3, payload: 0, kids: vec![*rich.forms.last().unwrap()], raw: None },
            ResSpec { kind: 0, name: 1, payload: 11, kids: vec![100], raw: None },
        ];
        let mut p = simple_page(res, vec![OpSpec::Other(0), OpSpec::Use(1, 1, 0), OpSpec::Other(6), OpSpec::Use(2, 1, 0), OpSpec::Use(2, 2, 0), OpSpec::Use(2, 3, 0), OpSpec::Use(0, 1, 0), OpSpec::Other(1)], vec![100]);
        p.meta = Some(rich.metas[0]);
        p.group_cs = Some(rich.iccs[0]);
        p.split = true;
        p.flate = k % 2 == 1;
        let pdoc = flat_doc(vec![p], true);
        let (root_body, objs) = page_doc_parts(&pdoc, &g, &rich.objs);
        let (plain, content_plain) = ground_truth(&pdoc, &objs);
        let doc = write_doc(&root_body, &objs, layout);
        out.push(ImportCase { label: format!("witness {}", label), case: json!({"kind": "import", "doc": hex(&doc), "password": "-", "pages": [0], "expect": "success", "plain": plain, "content_plain": content_plain, "min_streams": 7}), child: true, nontrivial: true });
    }
    out
}

fn import_generated(seed: u64, thorough: bool) -> Oracle {
    let mut or = Oracle::new("c20.import.generated");
    let mut cases = witnesses();
    cases.extend(source_witnesses());
    let n = if thorough { 10_000 } else { 1200 };
    for case in 0..n {
        let mut rng = Rng::derive(seed, "c20.import.generated", case);
        // one document in eight has a planted cycle or a dangling reference somewhere in its graph
        let cyc = rng.chance(1, 8);
        let miss = rng.chance(1, 10);
        let g = shift_graph(random_graph(&mut rng, cyc, miss));
        let rich = rich_objects(&mut rng, &g);
        let all_kinds = rng.chance(1, 3);
        let pool = rich_pool(&mut rng, &g, &rich, all_kinds);
        let mut res_gen = |rng: &mut Rng| { let mut r: Vec<ResSpec> = pool.iter().filter(|_| rng.chance(2, 3)).cloned().collect(); rng.shuffle(&mut r); r };
        let mut pdoc = random_pdoc(&mut rng, &g, DocOpts { all_kinds, max_pages: 4 }, &mut res_gen);
        for p in pdoc.pages.iter_mut() {
            if !rich.metas.is_empty() && rng.chance(1, 2) { p.meta = Some(*rng.pick(&rich.metas)); }
            if !rich.iccs.is_empty() && rng.chance(1, 2) { p.group_cs = Some(*rng.pick(&rich.iccs)); }
        }
        let pages = &pdoc.pages;
        let layout = random_layout(&mut rng, (1, 2));
        let (root_body, objs) = page_doc_parts(&pdoc, &g, &rich.objs);
        let (plain, content_plain) = ground_truth(&pdoc, &objs);
        let doc = write_doc(&root_body, &objs, layout);
        let np = pages.len() as u32;
        let mut order: Vec<u32> = (0..np).collect();
        match rng.below(4) { 0 => {} 1 => order.reverse(), 2 => rng.shuffle(&mut order), _ => { rng.shuffle(&mut order); order.truncate(1 + rng.usize(np as usize)); } }
        if rng.chance(1, 5) { let d = order[0]; order.push(d); }
        for l in layout_label(&layout) { or.count(&l); }
        or.count(if has_cycle(&g) { "graph=cyclic" } else { "graph=acyclic" });
        or.count(if all_kinds { "resources=all-categories" } else { "resources=handled-categories" });
        count_doc(&mut |k| or.count(k), &pdoc);
        cases.push(ImportCase {
            label: format!("generated #{} pages {:?}", case, order),
            case: json!({"kind": "import", "doc": hex(&doc), "password": "-", "pages": order, "plain": plain, "content_plain": content_plain}),
            child: has_cycle(&g) || thorough == false && case % 16 == 0,
            nontrivial: true,
        });
    }
    run_import_cases(&mut or, seed, "c20.import.generated", cases);
    or
}

// =====================================================================================================

/// replay of a stored correspondence disagreement: `<request> # <case json>`
fn replay_correspondence(driver: &Driver, stream: &str, text: &str) -> Stream {
    let mut st = Stream::new(stream, true);
    let (req, case) = match text.split_once(" # ") { Some(x) => x, None => { st.case(text, "replay: no case attached", "", false); return st; } };
    let case: Value = serde_json::from_str(case).unwrap_or(Value::Null);
    let resp = driver.ask(&[req.to_string()]);
    let imp = match run_in_children(&[case.clone()], 20).pop() { Some(Ok(v)) => v.as_str().unwrap_or("bad-child-answer").to_string(), Some(Err(e)) => e, None => "not-run".into() };
    let types = &case["types"];
    let kind_of = |o: u64| types[o.to_string()].as_str().unwrap_or("").to_string();
    let model = if case["kind"] == "page" { canon_model_page(&resp[0], &kind_of) } else if case["kind"] == "frompage" { canon_model_frompage(&resp[0]) } else { canon_model_clone(&resp[0], &parse_edges(case["roots"].as_str().unwrap_or("-")), &kind_of) };
    st.case(text, &model, &imp, true);
    st
}

pub fn run(driver: &Driver, seed: u64, thorough: bool, replay: Option<&serde_json::Value>) -> Report {
    if let Some(r) = replay {
        if r.get("child").is_some() {
            return child_main(r);
        }
        let mut rep = Report::new("C20");
        if let Some(case) = r.get("import") {
            // an oracle failure: re-run exactly that import (in a child process)
            let mut or = Oracle::new(r["stream"].as_str().unwrap_or("c20.import"));
            let label = r["label"].as_str().unwrap_or("replay").to_string();
            run_import_cases(&mut or, r["seed"].as_u64().unwrap_or(seed), r["stream"].as_str().unwrap_or("c20.import"),
                vec![ImportCase { label, case: case.clone(), child: true, nontrivial: true }]);
            rep.oracles.push(or);
        } else if let Some(d) = r.get("disagreement") {
            rep.streams.push(replay_correspondence(driver, d["stream"].as_str().unwrap_or("c20.replay"), d["request"].as_str().unwrap_or("")));
        } else {
            rep.notes.push("replay file not understood".into());
        }
        return rep;
    }
    let mut rep = Report::new("C20");
    rep.streams.push(clone_exhaustive(driver, if thorough { 3 } else { 2 }));
    rep.streams.push(clone_random(driver, seed, if thorough { 100_000 } else { 10_000 }));
    let (sp, sf) = page_streams(driver, seed, if thorough { 50_000 } else { 6000 });
    rep.streams.push(sp);
    rep.streams.push(sf);
    let (ep, ef) = page_exhaustive(driver, thorough);
    rep.streams.push(ep);
    rep.streams.push(ef);
    rep.oracles.push(import_generated(seed, thorough));
    rep.oracles.push(import_corpus(seed, thorough));
    rep
}
