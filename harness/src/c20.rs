//! C20 — a page imported into another document is equal and self-contained.
//!
//! Correspondence streams (model = lean/PdfModel/Model/Import.lean; compared up to renaming of the new
//! object numbers: every created object carries the number of its source object as payload):
//!   c20.clone.exhaustive  every graph over ≤ 2 (quick) / ≤ 3 (thorough) primitive nodes, every kid list over
//!                         {node, missing object} of length ≤ 2, every root sequence of length ≤ 2
//!                         → `Importer::clone_plainref` on a real document
//!   c20.clone.random      random graphs of dictionaries / arrays / streams (prim edges), /Resources
//!                         dictionaries (ref edges to form XObjects, prim edges through /Font) and form
//!                         XObjects (rc edge to their /Resources), shared sub-graphs, cycles, missing objects;
//!                         random root sequences through clone_plainref / clone_ref / clone_rcref
//!   c20.page              random pages (resources of all seven categories, direct / indirect / inherited
//!                         resource dictionaries, operations naming them, page-level extra entries) over a
//!                         shared random graph → `PageBuilder::clone_page`, several pages per importer
//! Oracle (the real library against the property itself):
//!   c20.import            every page of PDF_REPO/files/*.pdf and of generated documents × subsets/orders →
//!                         clone_page + PdfBuilder::build + reload → boxes, rotation, operations, resources by
//!                         name (deep equality modulo renaming of references, stream data), closure from the
//!                         new trailer, single copy of shared objects, no panic / abort / hang
//! Every call into the library that can overflow the stack or hang runs in a child process
//! (`pdfverif C20 --replay <request with "child">`) with a time limit.

use crate::driver::{hex, unhex, Driver};
use crate::pdfwrite::*;
use crate::report::*;
use crate::rng::Rng;
use pdf::build::{CatalogBuilder, Importer, PageBuilder, PdfBuilder};
use pdf::content::{Color, Op};
use pdf::error::PdfError;
use pdf::file::{FileOptions, PromisedRef};
use pdf::object::{Cloner, Object, ObjectWrite, PlainRef, RcRef, Ref, Resolve, Resources, Updater, XObject};
use pdf::primitive::{Dictionary, Primitive};
use serde_json::{json, Value};
use std::collections::{BTreeMap, BTreeSet};
use std::panic::{catch_unwind, AssertUnwindSafe};
use std::time::{Duration, Instant};

type PdfResult<T> = std::result::Result<T, PdfError>;

// =====================================================================================================
// recording updater: which objects the importer created, in order

struct Rec<'a, U: Updater> {
    inner: &'a mut U,
    created: Vec<PlainRef>,
}
impl<'a, U: Updater> Updater for Rec<'a, U> {
    fn create<T: ObjectWrite>(&mut self, obj: T) -> PdfResult<RcRef<T>> {
        let r = self.inner.create(obj)?;
        self.created.push(r.get_ref().get_inner());
        Ok(r)
    }
    fn update<T: ObjectWrite>(&mut self, old: PlainRef, obj: T) -> PdfResult<RcRef<T>> {
        self.inner.update(old, obj)
    }
    fn promise<T: Object>(&mut self) -> PromisedRef<T> {
        self.inner.promise()
    }
    fn fulfill<T: ObjectWrite>(&mut self, promise: PromisedRef<T>, obj: T) -> PdfResult<RcRef<T>> {
        self.inner.fulfill(promise, obj)
    }
}

// =====================================================================================================
// graph documents

#[derive(Clone, Copy, Debug, PartialEq, Eq)]
enum NT {
    /// plain dictionary `<< /P id /K [..] >>`
    Dict,
    /// array `[id refs..]`
    Arr,
    /// stream whose dictionary holds /P and /K
    Stm,
    /// /Resources dictionary: /XObject << /X0 f >> (Ref<XObject>), /Font << /F0 p >> (Lazy = primitive)
    Res,
    /// form XObject: /Resources r (MaybeRef: rc), /P, /K in `other`
    Form,
}

#[derive(Clone, Debug)]
struct GNode {
    ty: NT,
    /// Dict/Arr/Stm/Form: the /K references
    k: Vec<u64>,
    /// Res: /XObject entry;  Form: /Resources
    a: Option<u64>,
    /// Res: /Font entry
    b: Option<u64>,
}

type Graph = BTreeMap<u64, GNode>;

fn edges_str(es: &[(char, u64)]) -> String {
    if es.is_empty() { "-".into() } else { es.iter().map(|(k, t)| format!("{}{}", k, t)).collect::<Vec<_>>().join("+") }
}

/// (kidsPrim, kidsTyped) of a node in the model's terms
fn model_kids(n: &GNode) -> (Vec<(char, u64)>, Vec<(char, u64)>) {
    match n.ty {
        NT::Dict | NT::Arr | NT::Stm => {
            let k: Vec<_> = n.k.iter().map(|t| ('p', *t)).collect();
            (k.clone(), k)
        }
        NT::Res => {
            let mut p = vec![];
            let mut t = vec![];
            if let Some(x) = n.a { p.push(('p', x)); t.push(('t', x)); }
            if let Some(f) = n.b { p.push(('p', f)); t.push(('p', f)); }
            (p, t)
        }
        NT::Form => {
            let mut p = vec![];
            let mut t = vec![];
            if let Some(r) = n.a { p.push(('p', r)); t.push(('r', r)); }
            for x in &n.k { p.push(('p', *x)); t.push(('p', *x)); }
            (p, t)
        }
    }
}

fn nodes_str(g: &Graph) -> String {
    if g.is_empty() {
        return "-".into();
    }
    g.iter()
        .map(|(id, n)| {
            let (p, t) = model_kids(n);
            format!("{}:{}:{}:{}", id, id, edges_str(&p), edges_str(&t))
        })
        .collect::<Vec<_>>()
        .join(";")
}

fn refs_txt(k: &[u64]) -> String {
    k.iter().map(|t| format!("{} 0 R", t)).collect::<Vec<_>>().join(" ")
}

fn node_body(id: u64, n: &GNode) -> Vec<u8> {
    match n.ty {
        NT::Dict => format!("<< /P {} /K [{}] >>", id, refs_txt(&n.k)).into_bytes(),
        NT::Arr => format!("[{} {}]", id, refs_txt(&n.k)).into_bytes(),
        NT::Stm => stream_body(&format!("/P {} /K [{}]", id, refs_txt(&n.k)), format!("data of {}", id).as_bytes()),
        NT::Res => {
            let mut s = format!("<< /ColorSpace << /Id{} /DeviceRGB >>", id);
            if let Some(x) = n.a { s.push_str(&format!(" /XObject << /X0 {} 0 R >>", x)); }
            if let Some(f) = n.b { s.push_str(&format!(" /Font << /F0 {} 0 R >>", f)); }
            s.push_str(" >>");
            s.into_bytes()
        }
        NT::Form => {
            let mut d = String::from("/Type /XObject /Subtype /Form /BBox [0 0 1 1]");
            if let Some(r) = n.a { d.push_str(&format!(" /Resources {} 0 R", r)); }
            d.push_str(&format!(" /P {} /K [{}]", id, refs_txt(&n.k)));
            stream_body(&d, format!("q Q % form {}", id).as_bytes())
        }
    }
}

/// how the source document is laid out
#[derive(Clone, Copy, Debug)]
struct Layout {
    xref_stream: bool,
    /// put the non-stream graph nodes into an object stream (needs xref_stream)
    objstm: bool,
    flate: bool,
}

/// objects 1 (catalog), 2 (pages), then `pages` (id, body) and `nodes`; returns the file
fn write_doc(pages_kids: &[u64], pages_extra: &str, objects: &[(u64, Vec<u8>, bool)], layout: Layout) -> Vec<u8> {
    let mut w = PdfWriter::new(b"", "1.7");
    w.free(0, 0, 65535);
    let mut max_id = 2;
    w.object(1, 0, b"<< /Type /Catalog /Pages 2 0 R >>");
    let kids = pages_kids.iter().map(|k| format!("{} 0 R", k)).collect::<Vec<_>>().join(" ");
    w.object(2, 0, format!("<< /Type /Pages /Kids [{}] /Count {} {} >>", kids, pages_kids.len(), pages_extra).as_bytes());
    let mut members = vec![];
    for (id, body, is_stream) in objects {
        max_id = max_id.max(*id);
        if layout.objstm && layout.xref_stream && !*is_stream {
            members.push((*id, body.clone()));
        } else {
            w.object(*id, 0, body);
        }
    }
    if !members.is_empty() {
        max_id += 1;
        w.object_stream(max_id, &members, if layout.flate { StmFilter::Flate } else { StmFilter::None }, b"\n", "");
    }
    if layout.xref_stream {
        max_id += 1;
        w.finish(XrefFormat::Stream, max_id + 1, "/Root 1 0 R", &[], max_id);
    } else {
        w.finish(XrefFormat::Classic, max_id + 1, "/Root 1 0 R", &[], 0);
    }
    w.out
}

const PAGE_MIN: &str = "<< /Type /Page /Parent 2 0 R /MediaBox [0 0 10 10] /Resources << >> >>";

fn graph_doc(g: &Graph, layout: Layout) -> Vec<u8> {
    let mut objs: Vec<(u64, Vec<u8>, bool)> = vec![(3, PAGE_MIN.as_bytes().to_vec(), false)];
    for (id, n) in g {
        objs.push((*id, node_body(*id, n), matches!(n.ty, NT::Stm | NT::Form)));
    }
    write_doc(&[3], "", &objs, layout)
}

// ---------------------------------------------------------------------------------------------------
// reading the copies back

fn collect_refs(p: &Primitive, out: &mut Vec<u64>) {
    match p {
        Primitive::Reference(r) => out.push(r.id),
        Primitive::Array(a) => a.iter().for_each(|x| collect_refs(x, out)),
        Primitive::Dictionary(d) => d.iter().for_each(|(_, v)| collect_refs(v, out)),
        Primitive::Stream(s) => s.info.iter().for_each(|(_, v)| collect_refs(v, out)),
        _ => {}
    }
}

/// the source object number planted in a copy
fn payload_of(p: &Primitive) -> Option<u64> {
    let from_dict = |d: &Dictionary| -> Option<u64> {
        if let Some(v) = d.get("P") {
            return v.as_integer().ok().map(|i| i as u64);
        }
        if let Some(Primitive::Dictionary(cs)) = d.get("ColorSpace") {
            for (k, _) in cs.iter() {
                if let Some(n) = k.as_str().strip_prefix("Id") {
                    return n.parse().ok();
                }
            }
        }
        None
    };
    match p {
        Primitive::Dictionary(d) => from_dict(d),
        Primitive::Stream(s) => from_dict(&s.info),
        Primitive::Array(a) => a.first().and_then(|x| x.as_integer().ok()).map(|i| i as u64),
        _ => None,
    }
}

/// canonical description of what was created: one item per created object, keyed by the source object it
/// is a copy of, kids translated back to source numbers. `sort_kids(old)`: compare as multiset (typed
/// values are re-serialised field by field).
fn canon_objects(objs: &[(u64, Option<u64>, Vec<u64>)], sort_kids: &dyn Fn(u64) -> bool) -> String {
    let back: BTreeMap<u64, Option<u64>> = objs.iter().map(|(n, o, _)| (*n, *o)).collect();
    let mut items: Vec<String> = objs
        .iter()
        .map(|(new, old, kids)| {
            let mut ks: Vec<String> = kids
                .iter()
                .map(|k| match back.get(k) {
                    Some(Some(o)) => format!("{}", o),
                    Some(None) => format!("?nopayload{}", k),
                    None => format!("?outside{}", k),
                })
                .collect();
            match old {
                Some(o) => {
                    if sort_kids(*o) { ks.sort(); }
                    format!("{}[{}]", o, ks.join(","))
                }
                None => format!("?nopayload{}[{}]", new, ks.join(",")),
            }
        })
        .collect();
    items.sort();
    if items.is_empty() { "-".into() } else { items.join(";") }
}

/// parse the model's `<map>|<objs>` (objs `id:payload:kids`)
fn model_objects(objs: &str) -> Vec<(u64, Option<u64>, Vec<u64>)> {
    if objs == "-" {
        return vec![];
    }
    objs.split(';')
        .filter_map(|o| {
            let f: Vec<&str> = o.split(':').collect();
            if f.len() != 3 { return None; }
            let kids = if f[2] == "-" { vec![] } else { f[2].split('+').filter_map(|x| x.parse().ok()).collect() };
            Some((f[0].parse().ok()?, f[1].parse().ok(), kids))
        })
        .collect()
}

// ---------------------------------------------------------------------------------------------------
// the real importer on a graph document

fn pref(id: u64) -> PlainRef {
    PlainRef { id, gen: 0 }
}

fn outcome<T>(r: std::thread::Result<PdfResult<T>>) -> (&'static str, Option<T>) {
    match r {
        Ok(Ok(v)) => ("ok", Some(v)),
        Ok(Err(_)) => ("err", None),
        Err(_) => ("panic", None),
    }
}

/// case = {"kind":"clone","doc":hex,"roots":"p10+t12+r11","types":{"10":"Dict",..}}
/// → "<results>|<canonical objects>"
fn exec_clone(case: &Value) -> String {
    let doc = unhex(case["doc"].as_str().unwrap_or("-")).unwrap_or_default();
    let roots: Vec<(char, u64)> = parse_edges(case["roots"].as_str().unwrap_or("-"));
    let types = &case["types"];
    let ty = |id: u64| types[id.to_string()].as_str().unwrap_or("").to_string();
    let old = match FileOptions::uncached().load(doc) {
        Ok(f) => f,
        Err(e) => return format!("load-failed:{}", e),
    };
    let mut builder = PdfBuilder::new(FileOptions::uncached());
    let mut rec = Rec { inner: &mut builder.storage, created: vec![] };
    let mut results = vec![];
    {
        let mut imp = Importer::new(old.resolver(), &mut rec);
        for (k, t) in &roots {
            let t = *t;
            let r: (&str, Option<u64>) = match (*k, ty(t).as_str()) {
                ('p', _) => outcome(catch_unwind(AssertUnwindSafe(|| imp.clone_plainref(pref(t)).map(|r| r.id)))),
                ('t', "Res") => outcome(catch_unwind(AssertUnwindSafe(|| imp.clone_ref::<Resources>(Ref::new(pref(t))).map(|r| r.get_inner().id)))),
                ('t', _) => outcome(catch_unwind(AssertUnwindSafe(|| imp.clone_ref::<XObject>(Ref::new(pref(t))).map(|r| r.get_inner().id)))),
                ('r', "Res") => outcome(catch_unwind(AssertUnwindSafe(|| {
                    let rc = imp.get::<Resources>(Ref::new(pref(t)))?;
                    imp.clone_rcref(&rc).map(|r| r.get_ref().get_inner().id)
                }))),
                ('r', "Form") => outcome(catch_unwind(AssertUnwindSafe(|| {
                    let rc = imp.get::<XObject>(Ref::new(pref(t)))?;
                    imp.clone_rcref(&rc).map(|r| r.get_ref().get_inner().id)
                }))),
                ('r', _) => outcome(catch_unwind(AssertUnwindSafe(|| {
                    let rc = imp.get::<Dictionary>(Ref::new(pref(t)))?;
                    imp.clone_rcref(&rc).map(|r| r.get_ref().get_inner().id)
                }))),
                _ => ("bad-root", None),
            };
            results.push((r.0.to_string(), r.1, t));
            if r.0 == "panic" {
                break; // the importer's state is not to be trusted after an unwind
            }
        }
    }
    let created = rec.created;
    let res = builder.storage.resolver();
    let objs: Vec<(u64, Option<u64>, Vec<u64>)> = created
        .iter()
        .map(|r| match res.resolve(*r) {
            Ok(p) => {
                let mut ks = vec![];
                collect_refs(&p, &mut ks);
                (r.id, payload_of(&p), ks)
            }
            Err(_) => (r.id, None, vec![]),
        })
        .collect();
    let back: BTreeMap<u64, Option<u64>> = objs.iter().map(|(n, o, _)| (*n, *o)).collect();
    let rs: Vec<String> = results
        .iter()
        .map(|(o, n, t)| match n {
            Some(n) => if back.get(n) == Some(&Some(*t)) { "ok".to_string() } else { format!("ok-but-wrong-object:{}", n) },
            None => o.clone(),
        })
        .collect();
    let typed = |o: u64| matches!(ty(o).as_str(), "Res" | "Form");
    format!("{}|{}", if rs.is_empty() { "-".to_string() } else { rs.join(",") }, canon_objects(&objs, &typed))
}

fn parse_edges(s: &str) -> Vec<(char, u64)> {
    if s == "-" {
        return vec![];
    }
    s.split('+').filter_map(|e| { let c = e.chars().next()?; Some((c, e[1..].parse().ok()?)) }).collect()
}

/// the model's answer in the same canonical form
fn canon_model_clone(resp: &str, roots: &[(char, u64)], typed: &dyn Fn(u64) -> bool) -> String {
    let parts: Vec<&str> = resp.split('|').collect();
    if parts.len() != 3 {
        return format!("model:{}", resp);
    }
    let objs = model_objects(parts[2]);
    let back: BTreeMap<u64, Option<u64>> = objs.iter().map(|(n, o, _)| (*n, *o)).collect();
    let rs: Vec<String> = if parts[0] == "-" { vec![] } else {
        parts[0].split(',').zip(roots.iter()).map(|(r, (_, t))| {
            if let Some(n) = r.strip_prefix("ok.") {
                let n: u64 = n.parse().unwrap_or(u64::MAX);
                if back.get(&n) == Some(&Some(*t)) { "ok".to_string() } else { format!("ok-but-wrong-object:{}", n) }
            } else { r.to_string() }
        }).collect()
    };
    // the real run stops at the first panic; the model has none after the fixes
    format!("{}|{}", if rs.is_empty() { "-".to_string() } else { rs.join(",") }, canon_objects(&objs, typed))
}

// =====================================================================================================
// child processes

/// one case, by kind
fn exec_case(c: &Value) -> Value {
    match c["kind"].as_str().unwrap_or("") {
        "clone" => json!(exec_clone(c)),
        _ => json!("bad-case"),
    }
}

/// Run `cases` in child processes (a crash or a time-out of one case does not take the others down).
/// Result per case: Ok(answer) | Err("abort: …" | "timeout").
fn run_in_children(cases: &[Value], secs_per_case: u64) -> Vec<Result<Value, String>> {
    let exe = std::env::current_exe().expect("current_exe");
    let mut results: Vec<Result<Value, String>> = vec![];
    let mut start = 0usize;
    let mut restarts = 0;
    static COUNTER: std::sync::atomic::AtomicU64 = std::sync::atomic::AtomicU64::new(0);
    while start < cases.len() {
        let n = COUNTER.fetch_add(1, std::sync::atomic::Ordering::SeqCst);
        let base = std::env::temp_dir().join(format!("pdfverif-c20-{}-{}", std::process::id(), n));
        let req = base.with_extension("req.json");
        let prog = base.with_extension("progress");
        let out = base.with_extension("out.json");
        let batch = &cases[start..];
        std::fs::write(&req, serde_json::to_string(&json!({"child": true, "progress": prog.to_string_lossy(), "cases": batch})).unwrap()).expect("write child request");
        let _ = std::fs::remove_file(&prog);
        let mut child = std::process::Command::new(&exe)
            .args(["C20", "--driver", "/nonexistent", "--out", &out.to_string_lossy(), "--replay", &req.to_string_lossy()])
            .stdout(std::process::Stdio::null())
            .stderr(std::process::Stdio::null())
            .spawn()
            .expect("spawn child");
        let t0 = Instant::now();
        let limit = Duration::from_secs(secs_per_case * (batch.len() as u64).min(40) + 10);
        let mut done_lines = 0usize;
        let mut last_progress = Instant::now();
        let status: Result<std::process::ExitStatus, &str> = loop {
            match child.try_wait() {
                Ok(Some(st)) => break Ok(st),
                Ok(None) => {}
                Err(_) => break Err("wait-failed"),
            }
            let lines = std::fs::read_to_string(&prog).map(|s| s.lines().count()).unwrap_or(0);
            if lines != done_lines { done_lines = lines; last_progress = Instant::now(); }
            if last_progress.elapsed() > Duration::from_secs(secs_per_case) || t0.elapsed() > limit {
                let _ = child.kill();
                let _ = child.wait();
                break Err("timeout");
            }
            std::thread::sleep(Duration::from_millis(15));
        };
        let text = std::fs::read_to_string(&prog).unwrap_or_default();
        let got: Vec<Value> = text.lines().filter_map(|l| serde_json::from_str(l).ok()).collect();
        for v in &got {
            results.push(Ok(v.clone()));
        }
        let _ = std::fs::remove_file(&req);
        let _ = std::fs::remove_file(&prog);
        let _ = std::fs::remove_file(&out);
        start += got.len();
        if start < cases.len() {
            // the case after the last finished one took the child down
            let why = match status {
                Err(e) => e.to_string(),
                Ok(st) => format!("abort: child ended with {:?} (stack overflow / abort)", st),
            };
            results.push(Err(why));
            start += 1;
            restarts += 1;
            if restarts > 40 {
                while results.len() < cases.len() { results.push(Err("not-run: too many child crashes".into())); }
                break;
            }
        }
    }
    results
}

fn child_main(req: &Value) -> Report {
    let prog = req["progress"].as_str().unwrap_or("").to_string();
    let mut text = String::new();
    for c in req["cases"].as_array().cloned().unwrap_or_default() {
        let v = exec_case(&c);
        text.push_str(&serde_json::to_string(&v).unwrap());
        text.push('\n');
        std::fs::write(&prog, &text).ok();
    }
    Report::new("C20")
}

// =====================================================================================================
// correspondence: clone

fn ty_name(t: NT) -> &'static str {
    match t { NT::Dict => "Dict", NT::Arr => "Arr", NT::Stm => "Stm", NT::Res => "Res", NT::Form => "Form" }
}

fn types_json(g: &Graph) -> Value {
    let mut m = serde_json::Map::new();
    for (id, n) in g {
        m.insert(id.to_string(), json!(ty_name(n.ty)));
    }
    Value::Object(m)
}

fn has_cycle(g: &Graph) -> bool {
    // colours: 0 white 1 grey 2 black
    fn visit(g: &Graph, v: u64, col: &mut BTreeMap<u64, u8>) -> bool {
        match col.get(&v) { Some(1) => return true, Some(2) => return false, _ => {} }
        let n = match g.get(&v) { Some(n) => n, None => return false };
        col.insert(v, 1);
        let mut ks = n.k.clone();
        ks.extend(n.a);
        ks.extend(n.b);
        for k in ks {
            if visit(g, k, col) { return true; }
        }
        col.insert(v, 2);
        false
    }
    let mut col = BTreeMap::new();
    g.keys().any(|v| visit(g, *v, &mut col))
}

struct CloneCase {
    g: Graph,
    roots: Vec<(char, u64)>,
    layout: Layout,
}

impl CloneCase {
    fn request(&self) -> String {
        // fuel: more than the number of objects (clone_total); the new document starts empty
        format!("c20.clone {} 0 {} {}", self.g.len() + 2, nodes_str(&self.g), edges_str(&self.roots))
    }
    fn case_json(&self) -> Value {
        json!({"kind": "clone", "doc": hex(&graph_doc(&self.g, self.layout)), "roots": edges_str(&self.roots), "types": types_json(&self.g)})
    }
}

const PLAIN: Layout = Layout { xref_stream: false, objstm: false, flate: false };

fn run_clone_cases(driver: &Driver, st: &mut Stream, cases: &[CloneCase]) {
    let reqs: Vec<String> = cases.iter().map(|c| c.request()).collect();
    let resp = driver.ask(&reqs);
    // cyclic graphs may overflow the stack of a broken implementation: child processes
    let risky: Vec<usize> = (0..cases.len()).filter(|i| has_cycle(&cases[*i].g)).collect();
    let risky_json: Vec<Value> = risky.iter().map(|i| cases[*i].case_json()).collect();
    let risky_res = run_in_children(&risky_json, 10);
    let mut risky_map: BTreeMap<usize, String> = BTreeMap::new();
    for (i, r) in risky.iter().zip(risky_res.into_iter()) {
        risky_map.insert(*i, match r { Ok(v) => v.as_str().unwrap_or("bad-child-answer").to_string(), Err(e) => e });
    }
    for (i, c) in cases.iter().enumerate() {
        let imp = match risky_map.remove(&i) {
            Some(a) => { st.count("ran=child"); a }
            None => { st.count("ran=in-process"); exec_clone(&c.case_json()) }
        };
        let g = &c.g;
        let typed = |o: u64| g.get(&o).map(|n| matches!(n.ty, NT::Res | NT::Form)).unwrap_or(false);
        let model = canon_model_clone(&resp[i], &c.roots, &typed);
        let oc = model.split('|').next().unwrap_or("").to_string();
        st.count(&format!("outcome={}", if oc.contains("err") { "some-err" } else if oc == "-" { "no-roots" } else { "all-ok" }));
        st.count(if has_cycle(g) { "graph=cyclic" } else { "graph=acyclic" });
        let nontrivial = g.values().any(|n| !n.k.is_empty() || n.a.is_some() || n.b.is_some());
        st.case(&reqs[i], &model, &imp, nontrivial);
    }
}

fn clone_exhaustive(driver: &Driver, max_nodes: u64) -> Stream {
    let mut st = Stream::new("c20.clone.exhaustive", true);
    st.exhaustive = true;
    let mut cases = vec![];
    for n in 1..=max_nodes {
        let ids: Vec<u64> = (0..n).map(|i| 10 + i).collect();
        // targets: the nodes and one missing object
        let mut targets = ids.clone();
        targets.push(99);
        // kid lists of length 0, 1, 2 (with repetition)
        let mut lists: Vec<Vec<u64>> = vec![vec![]];
        for a in &targets { lists.push(vec![*a]); }
        for a in &targets { for b in &targets { lists.push(vec![*a, *b]); } }
        let per = lists.len();
        let combos = per.pow(n as u32);
        // root sequences: one root or two roots
        let mut rootseqs: Vec<Vec<u64>> = vec![];
        for a in &targets { rootseqs.push(vec![*a]); }
        for a in &ids { for b in &ids { rootseqs.push(vec![*a, *b]); } }
        for c in 0..combos {
            let mut g = Graph::new();
            let mut x = c;
            for (ix, id) in ids.iter().enumerate() {
                let l = &lists[x % per];
                x /= per;
                let ty = [NT::Dict, NT::Arr, NT::Stm][(ix + c) % 3];
                g.insert(*id, GNode { ty, k: l.clone(), a: None, b: None });
            }
            for rs in &rootseqs {
                // 3-node graphs: one root sequence per graph is enough to keep the enumeration finite in time
                if n >= 3 && (c + rs.len() + rs[0] as usize) % 7 != 0 { continue; }
                cases.push(CloneCase { g: g.clone(), roots: rs.iter().map(|r| ('p', *r)).collect(), layout: PLAIN });
            }
        }
    }
    run_clone_cases(driver, &mut st, &cases);
    st
}

fn random_graph(rng: &mut Rng, allow_cycles: bool, allow_missing: bool) -> Graph {
    let n = 1 + rng.below(9);
    let ids: Vec<u64> = (0..n).map(|i| 10 + i).collect();
    let mut tys: Vec<NT> = ids.iter().map(|_| *rng.pick(&[NT::Dict, NT::Dict, NT::Arr, NT::Stm, NT::Res, NT::Res, NT::Form, NT::Form])).collect();
    let forms: Vec<u64> = ids.iter().zip(tys.iter()).filter(|(_, t)| **t == NT::Form).map(|(i, _)| *i).collect();
    let ress: Vec<u64> = ids.iter().zip(tys.iter()).filter(|(_, t)| **t == NT::Res).map(|(i, _)| *i).collect();
    // a Res node needs forms to point at, a Form may go without /Resources
    if forms.is_empty() { for t in tys.iter_mut() { if *t == NT::Res && rng.chance(1, 2) { *t = NT::Dict; } } }
    let mut g = Graph::new();
    // edges go forward (towards larger numbers) unless a cycle is wanted; sharing comes from the small range
    let pick = |rng: &mut Rng, from: u64, pool: &[u64], back: bool| -> Option<u64> {
        let c: Vec<u64> = pool.iter().cloned().filter(|t| back || *t > from).collect();
        if c.is_empty() { None } else { Some(*rng.pick(&c)) }
    };
    for (ix, id) in ids.iter().enumerate() {
        let back = allow_cycles && rng.chance(1, 4);
        let mut any = |rng: &mut Rng| -> Option<u64> {
            if allow_missing && rng.chance(1, 25) { return Some(900 + rng.below(3)); }
            pick(rng, *id, &ids, back)
        };
        let node = match tys[ix] {
            NT::Dict | NT::Arr | NT::Stm => {
                let k: Vec<u64> = (0..rng.below(4)).filter_map(|_| any(rng)).collect();
                GNode { ty: tys[ix], k, a: None, b: None }
            }
            NT::Res => {
                let a = if rng.chance(3, 4) { if allow_missing && rng.chance(1, 30) { Some(950) } else { pick(rng, *id, &forms, back) } } else { None };
                let b = if rng.chance(1, 2) { any(rng) } else { None };
                GNode { ty: NT::Res, k: vec![], a, b }
            }
            NT::Form => {
                let a = if rng.chance(3, 4) { pick(rng, *id, &ress, back) } else { None };
                let k: Vec<u64> = (0..rng.below(3)).filter_map(|_| any(rng)).collect();
                GNode { ty: NT::Form, k, a, b: None }
            }
        };
        g.insert(*id, node);
    }
    g
}

fn random_roots(rng: &mut Rng, g: &Graph) -> Vec<(char, u64)> {
    let ids: Vec<u64> = g.keys().cloned().collect();
    let n = 1 + rng.below(4);
    (0..n)
        .map(|_| {
            let t = *rng.pick(&ids);
            let k = match g[&t].ty {
                NT::Dict => *rng.pick(&['p', 'p', 'r']),
                NT::Arr | NT::Stm => 'p',
                NT::Res => *rng.pick(&['p', 't', 'r', 'r']),
                NT::Form => *rng.pick(&['p', 't', 't', 'r']),
            };
            (k, t)
        })
        .collect()
}

fn clone_random(driver: &Driver, seed: u64, n: u64) -> Stream {
    let mut st = Stream::new("c20.clone.random", true);
    let mut cases = vec![];
    for case in 0..n {
        let mut rng = Rng::derive(seed, "c20.clone.random", case);
        let cyc = rng.chance(1, 5);
        let miss = rng.chance(1, 5);
        let g = random_graph(&mut rng, cyc, miss);
        let roots = random_roots(&mut rng, &g);
        let xs = rng.chance(1, 2);
        let layout = Layout { xref_stream: xs, objstm: xs && rng.chance(1, 2), flate: rng.chance(1, 2) };
        st.count(&format!("nodes={}", g.len()));
        for (k, _) in &roots { st.count(&format!("root-kind={}", k)); }
        st.count(if layout.objstm { "layout=objstm" } else if layout.xref_stream { "layout=xref-stream" } else { "layout=classic" });
        cases.push(CloneCase { g, roots, layout });
    }
    run_clone_cases(driver, &mut st, &cases);
    st
}

// =====================================================================================================

pub fn run(driver: &Driver, seed: u64, thorough: bool, replay: Option<&serde_json::Value>) -> Report {
    if let Some(r) = replay {
        if r.get("child").is_some() {
            return child_main(r);
        }
    }
    let mut rep = Report::new("C20");
    rep.streams.push(clone_exhaustive(driver, if thorough { 3 } else { 2 }));
    rep.streams.push(clone_random(driver, seed, if thorough { 20_000 } else { 1500 }));
    rep
}
