//! C04 — what `Primitive::serialize` (and the object framing of `save`) writes is read back as the same value.
//!
//! Correspondence streams (model = lean/PdfModel/Model/Serialize.lean; re-reading = the C03 parser model):
//!   c04.ser        random `Primitive` trees → `Primitive::serialize` against `c04.ser` (`InFile` streams ⇒ `err`)
//!   c04.reparse    the serialised bytes in four contexts (indirect-object body as `save` frames it, dictionary
//!                  value, array element, content-stream operand) → the real parser against `c03.parse`;
//!                  the framing itself against `c04.frame`
//!   c04.f32        the ASSUMPTIONS about `f32`'s `Display` / `FromStr` (no driver involved)
//! Oracles:
//!   c04.roundtrip  the value read back equals the value written, the cursor rests behind it
//!   c04.total      `serialize` never panics (names from every Unicode plane, NaN, ±inf)
//!   c04.save       values as new / updated objects through the REAL `Storage::save`, the saved file re-opened
//!                  with the library: every object resolves to the value written
//! Streams nested inside arrays, dictionaries and other streams' dictionaries are generated on purpose
//! (histogram `nested-stream=in-array|in-dict|in-stream-dict`); their dictionaries and data bytes must read back.

use crate::c03::render::*;
use crate::c03::*;
use crate::driver::{hex, Driver};
use crate::report::*;
use crate::rng::Rng;
use pdf::parser::Lexer;
use pdf::primitive::Primitive;
use serde_json::{json, Value};
use std::panic::{catch_unwind, AssertUnwindSafe};

const CFG: GenCfg = GenCfg { bad_name_pct: 0, wild_names: false };
const WILD: GenCfg = GenCfg { bad_name_pct: 0, wild_names: true };

/// `Primitive::serialize` into a `Vec<u8>`: `Ok(bytes)` / `Err("err" | "panic")`
pub fn ser_prim(p: &Primitive) -> Result<Vec<u8>, &'static str> {
    match catch_unwind(AssertUnwindSafe(|| {
        let mut out: Vec<u8> = vec![];
        p.serialize(&mut out).map(|_| out)
    })) {
        Ok(Ok(b)) => Ok(b),
        Ok(Err(_)) => Err("err"),
        Err(_) => Err("panic"),
    }
}

fn show_ser(r: &Result<Vec<u8>, &'static str>) -> String {
    match r {
        Ok(b) => format!("ok {}", hex(b)),
        Err(e) => e.to_string(),
    }
}

/// reals read back from the implementation (`#bits`) as their `Display` text (what `c04.ser` is sent)
fn reals_as_display(v: &Val) -> Val {
    let ent = |kvs: &Vec<(Vec<u8>, Val)>| kvs.iter().map(|(k, v)| (k.clone(), reals_as_display(v))).collect();
    match v {
        Val::Real(t) => match real_bits(t) {
            Some(b) => Val::Real(format!("{}", f32::from_bits(b))),
            None => v.clone(),
        },
        Val::Arr(xs) => Val::Arr(xs.iter().map(reals_as_display).collect()),
        Val::Dict(kvs) => Val::Dict(ent(kvs)),
        Val::StreamPending(kvs, d) => Val::StreamPending(ent(kvs), d.clone()),
        Val::StreamInFile(kvs, a, b, c, d) => Val::StreamInFile(ent(kvs), *a, *b, *c, *d),
        _ => v.clone(),
    }
}

fn has_stream(v: &Val) -> bool {
    match v {
        Val::StreamPending(..) | Val::StreamInFile(..) => true,
        Val::Arr(xs) => xs.iter().any(has_stream),
        Val::Dict(kvs) => kvs.iter().any(|(_, v)| has_stream(v)),
        _ => false,
    }
}

fn string_forms(v: &Val, out: &mut Vec<(Vec<u8>, bool)>) {
    match v {
        Val::Str(s) => out.push((s.clone(), s.iter().any(|&b| b >= 0x80))),
        Val::Arr(xs) => xs.iter().for_each(|x| string_forms(x, out)),
        Val::Dict(kvs) | Val::StreamPending(kvs, _) | Val::StreamInFile(kvs, ..) => kvs.iter().for_each(|(_, v)| string_forms(v, out)),
        _ => {}
    }
}

/// an `InFile` stream as the parser produces it (the only way to get one through the public API)
fn gen_infile(rng: &mut Rng) -> Option<(Primitive, Val)> {
    let (v, lens) = gen_stream(rng, &CFG, true);
    let p = val_to_prim(&v)?;
    let body = ser_prim(&p).ok()?;
    let buf = frame(3, 0, &body);
    let res = TestResolve::new(&lens, false);
    let mut lx = Lexer::new(&buf);
    let (_, prim) = pdf::parser::parse_indirect_object(&mut lx, &res, None, pdf::parser::ParseFlags::ANY).ok()?;
    let val = reals_as_display(&prim_to_val(&prim, &res));
    Some((prim, val))
}

/// where the streams of `v` that are not the value itself sit: `in-array` | `in-dict` | `in-stream-dict`
fn nested_streams(v: &Val, parent: Option<&'static str>, f: &mut dyn FnMut(&'static str)) {
    match v {
        Val::StreamPending(kvs, _) | Val::StreamInFile(kvs, ..) => {
            if let Some(p) = parent { f(p); }
            kvs.iter().for_each(|(_, x)| nested_streams(x, Some("in-stream-dict"), f));
        }
        Val::Arr(xs) => xs.iter().for_each(|x| nested_streams(x, Some("in-array"), f)),
        Val::Dict(kvs) => kvs.iter().for_each(|(_, x)| nested_streams(x, Some("in-dict"), f)),
        _ => {}
    }
}

fn nested_kinds(v: &Val) -> Vec<&'static str> {
    let mut ks = vec![];
    nested_streams(v, None, &mut |k| ks.push(k));
    ks
}

/// a `Pending` stream with a direct, correct `/Length`
fn direct_stream(rng: &mut Rng, cfg: &GenCfg) -> Val {
    gen_stream(rng, cfg, false).0
}

/// a value with a `Pending` stream (direct `/Length`) inside an array, as a dictionary value, or as a value of
/// another stream's dictionary — also combined and two levels down
fn gen_nested_stream(rng: &mut Rng, cfg: &GenCfg) -> Val {
    fn wrap(rng: &mut Rng, cfg: &GenCfg, s: Val) -> Val {
        match rng.below(7) {
            0 => Val::Arr(vec![s, Val::Int(7)]),
            1 => { let a = gen_scalar(rng, cfg); Val::Arr(vec![a, s]) }
            2 => { let mut xs: Vec<Val> = (0..rng.usize(4)).map(|_| gen_scalar(rng, cfg)).collect(); let at = rng.usize(xs.len() + 1); xs.insert(at, s); Val::Arr(xs) }
            3 => Val::Dict(vec![(b"S".to_vec(), s), (b"T".to_vec(), Val::Int(1))]),
            4 => { let a = gen_scalar(rng, cfg); Val::Dict(vec![(b"A".to_vec(), a), (b"S".to_vec(), s)]) }
            5 => {
                let n = rng.usize(3);
                let mut kvs: Vec<(Vec<u8>, Val)> = gen_entries(rng, 2, cfg, n).into_iter().filter(|e| e.0 != b"S").collect();
                let at = rng.usize(kvs.len() + 1);
                kvs.insert(at, (b"S".to_vec(), s));
                Val::Dict(kvs)
            }
            _ => {
                // the stream as a value of another stream's dictionary
                match direct_stream(rng, cfg) {
                    Val::StreamPending(kvs, data) => {
                        let mut kvs: Vec<(Vec<u8>, Val)> = kvs.into_iter().filter(|e| e.0 != b"Inner").collect();
                        let at = rng.usize(kvs.len() + 1);
                        kvs.insert(at, (b"Inner".to_vec(), s));
                        Val::StreamPending(kvs, data)
                    }
                    other => other,
                }
            }
        }
    }
    let s = direct_stream(rng, cfg);
    let mut v = wrap(rng, cfg, s);
    if rng.chance(1, 3) { v = wrap(rng, cfg, v); }
    if rng.chance(1, 6) {
        // two streams side by side
        let t = direct_stream(rng, cfg);
        v = if rng.chance(1, 2) { Val::Arr(vec![v, t]) } else { Val::Dict(vec![(b"P".to_vec(), v), (b"Q".to_vec(), t)]) };
    }
    v
}

/// the value of one C04 case (and the `/Length` map its re-reading needs)
fn gen_value(rng: &mut Rng, cfg: &GenCfg) -> (Val, LenMap) {
    match rng.below(20) {
        0..=12 => (gen_val(rng, 0, cfg), vec![]),
        13..=15 => gen_stream(rng, cfg, true),
        16 => {
            let (s, lens) = gen_stream(rng, cfg, true);
            let a = gen_scalar(rng, cfg);
            if rng.chance(1, 2) { (Val::Arr(vec![a, s]), lens) } else { (Val::Dict(vec![(b"A".to_vec(), a), (b"S".to_vec(), s)]), lens) }
        }
        17 | 18 => (gen_nested_stream(rng, cfg), vec![]),
        _ => (gen_val(rng, 1, cfg), vec![]),
    }
}

/// what `save` writes around an object's body
pub fn frame(id: u64, gen: u64, body: &[u8]) -> Vec<u8> {
    let mut b = format!("{} {} obj\n", id, gen).into_bytes();
    b.extend_from_slice(body);
    b.extend_from_slice(b"\nendobj\n");
    b
}

struct Ctx {
    name: &'static str,
    mode: &'static str,
    buf: Vec<u8>,
    expected: Val,
    id: Option<(u64, u64)>,
    cursor: usize,
    /// the token that must follow (context 4)
    next_tok: Option<&'static [u8]>,
    /// `c04.frame` request to compare the framing with
    frame_req: Option<String>,
}

/// the serialisation of `v` in the contexts it can stand in; `Err` if a wrapper could not be serialised
fn contexts(rng: &mut Rng, v: &Val, bytes: &[u8]) -> Result<Vec<Ctx>, String> {
    let mut out = vec![];
    let id = (1 + rng.below(5000), if rng.chance(1, 5) { rng.below(65536) } else { 0 });
    let stream_inside = has_stream(v);
    // (1) indirect-object body
    let fb = frame(id.0, id.1, bytes);
    out.push(Ctx { name: "indirect", mode: "ind0", cursor: fb.len() - 1, buf: fb, expected: v.clone(), id: Some(id), next_tok: None,
        frame_req: Some(format!("c04.frame {} {} {}", id.0, id.1, show_val(v))) });
    // (2) dictionary value, (3) array element
    let wrappers = [("dict-value", Val::Dict(vec![(b"K".to_vec(), v.clone())])), ("array-element", Val::Arr(vec![v.clone(), Val::Int(7), v.clone()]))];
    for (name, w) in wrappers {
        let p = val_to_prim(&w).ok_or("wrapper not convertible")?;
        let wb = ser_prim(&p).map_err(|e| format!("serialising the {} wrapper: {}", name, e))?;
        let end = if wb.last() == Some(&b'\n') { wb.len() - 1 } else { wb.len() };
        if stream_inside {
            let fb = frame(id.0, id.1, &wb);
            out.push(Ctx { name, mode: "ind0", cursor: fb.len() - 1, buf: fb, expected: w, id: Some(id), next_tok: None, frame_req: None });
        } else {
            out.push(Ctx { name, mode: "plain", cursor: end, buf: wb, expected: w, id: None, next_tok: None, frame_req: None });
        }
    }
    // (4) content-stream operand
    if !stream_inside {
        let (trail, tok): (&[u8], &'static [u8]) = *rng.pick(&[(&b" Tj\n"[..], &b"Tj"[..]), (b" 12 0 obj", b"12"), (b" TJ", b"TJ"), (b"\nendobj\n", b"endobj"), (b" re\nf\n", b"re")]);
        let mut b = bytes.to_vec();
        b.extend_from_slice(trail);
        // a dictionary's serialisation ends with a new-line, which is white-space after the value's text
        let end = if bytes.last() == Some(&b'\n') { bytes.len() - 1 } else { bytes.len() };
        out.push(Ctx { name: "operand", mode: "plain", cursor: end, buf: b, expected: v.clone(), id: None, next_tok: Some(tok), frame_req: None });
    }
    Ok(out)
}

/// the round-trip oracle on one context: `None` = holds
fn check_roundtrip(c: &Ctx, got: &Parsed, forms: &[(Vec<u8>, bool)]) -> Option<(String, String)> {
    if got.text == "panic" {
        return Some(("panic".into(), format!("the parser panicked on serialised output ({})", c.name)));
    }
    let cx = DiffCtx { identify_numbers: true, buf: &c.buf, file_off: 0, id: c.id, forms };
    let gv = match &got.val {
        Some(v) => v,
        None => {
            // the construct: the first scalar kind is not known, name the top-level kind
            let k = match &c.expected { Val::Str(s) => if s.iter().any(|&b| b >= 0x80) { "string-hex".to_string() } else { "string-literal".to_string() }, v => kind_name(v).to_string() };
            return Some((k, format!("serialised output is rejected when read back ({})", c.name)));
        }
    };
    if let Some(k) = diff_kind(&c.expected, gv, &cx) {
        return Some((k.clone(), format!("the value read back differs from the value written ({}; first difference: {})", c.name, k)));
    }
    if let (Some(e), Some(g)) = (c.id, got.id) {
        if e != g {
            return Some(("indirect".into(), format!("object id read back as {}.{}", g.0, g.1)));
        }
    }
    if got.pos != c.cursor {
        return Some(("cursor".into(), format!("the cursor rests at {} but the serialisation ends at {} ({})", got.pos, c.cursor, c.name)));
    }
    if let Some(tok) = c.next_tok {
        let mut lx = Lexer::new(&c.buf);
        lx.set_pos(got.pos);
        let ok = matches!(lx.next(), Ok(s) if s.as_slice() == tok);
        if !ok {
            return Some(("cursor".into(), format!("the token after the operand is not `{}`", String::from_utf8_lossy(tok))));
        }
    }
    None
}

struct Batch {
    ser_reqs: Vec<String>,
    ser_imps: Vec<String>,
    rp_reqs: Vec<String>,
    rp_imps: Vec<String>,
}

/// one value through serialisation, the contexts, both oracles
fn one_value(v: &Val, lens: &LenMap, prim: Option<Primitive>, rng: &mut Rng, b: &mut Batch, rt: &mut Oracle, tot: &mut Oracle, replay: &dyn Fn(&str) -> Value, st_rp: &mut Stream) {
    let p = match prim.or_else(|| val_to_prim(v)) {
        Some(p) => p,
        None => return,
    };
    let r = ser_prim(&p);
    b.ser_reqs.push(format!("c04.ser {}", show_val(v)));
    b.ser_imps.push(show_ser(&r));
    tot.case(&show_val(v), true, || json!({"value": show_val(v), "serialised": show_ser(&r)}));
    tot.count(&format!("outcome={}", match &r { Ok(_) => "ok", Err(e) => e }));
    if r == Err("panic") {
        tot.fail("panic", "Primitive::serialize panicked", replay("c04.total"));
    }
    let bytes = match r {
        Ok(b) => b,
        Err(_) => return,
    };
    let mut forms = vec![];
    string_forms(v, &mut forms);
    let ctxs = match contexts(rng, v, &bytes) {
        Ok(c) => c,
        Err(e) => {
            rt.case(&show_val(v), true, || json!({"value": show_val(v)}));
            rt.fail(if e.contains("panic") { "panic" } else { kind_name(v) }, &e, replay("c04.roundtrip"));
            return;
        }
    };
    for c in ctxs {
        let got = imp_parse(c.mode, &c.buf, 0, 1023, 0, lens, None);
        b.rp_reqs.push(parse_request(c.mode, &c.buf, 0, 1023, 0, lens, None));
        b.rp_imps.push(got.text.clone());
        st_rp.count(&format!("context={}", c.name));
        if let Some(fr) = &c.frame_req {
            b.rp_reqs.push(fr.clone());
            b.rp_imps.push(format!("ok {}", hex(&c.buf)));
            st_rp.count("context=frame-bytes");
        }
        let mut ks = vec![];
        count_kinds(v, &mut |k| ks.push(k.to_string()));
        for k in ks { rt.count(&format!("kind={}", k)); }
        for k in nested_kinds(&c.expected) { rt.count(&format!("nested-stream={}", k)); }
        rt.count(&format!("context={}", c.name));
        rt.case(&hex(&c.buf), true, || json!({"context": c.name, "value": show_val(v), "text": String::from_utf8_lossy(&c.buf), "got": got.text}));
        if let Some((sig, what)) = check_roundtrip(&c, &got, &forms) {
            let mut rj = replay("c04.roundtrip");
            rj["context"] = json!(c.name);
            rj["buffer"] = json!(hex(&c.buf));
            rj["text"] = json!(String::from_utf8_lossy(&c.buf));
            rj["expected"] = json!(format!("{} cursor {}", show_canon(&c.expected), c.cursor));
            rj["got"] = json!(got.text);
            rt.fail(&sig, &what, rj);
        }
    }
}

fn flush(driver: &Driver, b: &mut Batch, st_ser: &mut Stream, st_rp: &mut Stream) {
    let resp = driver.ask(&b.ser_reqs);
    for ((rq, m), i) in b.ser_reqs.iter().zip(resp.iter()).zip(b.ser_imps.iter()) {
        st_ser.count(&format!("outcome={}", m.split(' ').next().unwrap_or("")));
        st_ser.case(rq, m, i, true);
    }
    let resp = driver.ask(&b.rp_reqs);
    for ((rq, m), i) in b.rp_reqs.iter().zip(resp.iter()).zip(b.rp_imps.iter()) {
        let m = if rq.starts_with("c03.parse") { canon_parse_answer(rq.split(' ').nth(1).unwrap_or(""), m) } else { m.clone() };
        st_rp.count(&format!("outcome={}", m.split(' ').next().unwrap_or("")));
        st_rp.case(rq, &m, i, true);
    }
    *b = Batch { ser_reqs: vec![], ser_imps: vec![], rp_reqs: vec![], rp_imps: vec![] };
}

fn witnesses() -> Vec<(&'static str, Val)> {
    let nm = |s: &str| Val::Name(s.as_bytes().to_vec());
    let st = |b: &[u8]| Val::Str(b.to_vec());
    vec![
        ("name with a space", nm("a b")),
        ("name with #", nm("a#b")),
        ("name with a two-byte character", nm("é")),
        ("name (", nm("(")),
        ("name A/B", nm("A/B")),
        ("empty name", nm("")),
        ("key with a space", Val::Dict(vec![(b"a b".to_vec(), Val::Int(1))])),
        ("real 2^31", real_val(2147483648.0)),
        ("real 1e10", real_val(1e10)),
        ("real 5.0", real_val(5.0)),
        ("real -0.0", real_val(-0.0)),
        ("real 1e-7", real_val(1e-7)),
        ("real f32::MAX", real_val(f32::MAX)),
        ("real 0.1", real_val(0.1)),
        ("string with CR", st(b"a\rb")),
        ("string with CR LF", st(b"a\r\nb")),
        ("string with (", st(b"a(b")),
        ("string with )", st(b"a)b")),
        ("string with backslash", st(b"a\\b")),
        ("string with byte 0x80", st(b"a\x80b")),
        ("Integer i32::MIN", Val::Int(i32::MIN as i64)),
        ("Integer 7 as an indirect body", Val::Int(7)),
        ("nested empty array and dictionary", Val::Arr(vec![Val::Arr(vec![]), Val::Dict(vec![]), Val::Dict(vec![(b"E".to_vec(), Val::Arr(vec![]))])])),
        ("reference", Val::Ref(12, 0)),
        ("stream with its data", Val::StreamPending(vec![(b"Length".to_vec(), Val::Int(9))], b"endstream".to_vec())),
    ].into_iter().chain(nested_stream_witnesses()).collect()
}

fn plain_stream(data: &[u8]) -> Val {
    Val::StreamPending(vec![(b"Length".to_vec(), Val::Int(data.len() as i64))], data.to_vec())
}

/// streams that are not the object itself (also run through the real `Storage::save`)
fn nested_stream_witnesses() -> Vec<(&'static str, Val)> {
    vec![
        ("stream inside an array: [ <stream abc> 7 ]", Val::Arr(vec![plain_stream(b"abc"), Val::Int(7)])),
        ("stream as a dictionary value, data containing endstream: << /S <stream a LF endstream LF b> /T 1 >>", Val::Dict(vec![(b"S".to_vec(), plain_stream(b"a\nendstream\nb")), (b"T".to_vec(), Val::Int(1))])),
        ("empty stream two arrays down: [ [ <stream> ] ]", Val::Arr(vec![Val::Arr(vec![plain_stream(b"")])])),
        ("stream whose dictionary holds a stream: << /Length 3 /Inner <stream xy> >> abc", Val::StreamPending(vec![(b"Length".to_vec(), Val::Int(3)), (b"Inner".to_vec(), plain_stream(b"xy"))], b"abc".to_vec())),
    ]
}

fn ser_streams(driver: &Driver, seed: u64, from: u64, to: u64, witness_only: Option<u64>, with_witnesses: bool) -> (Vec<Stream>, Vec<Oracle>) {
    let mut st_ser = Stream::new("c04.ser", true);
    let mut st_rp = Stream::new("c04.reparse", true);
    let mut rt = Oracle::new("c04.roundtrip");
    let mut tot = Oracle::new("c04.total");
    let mut b = Batch { ser_reqs: vec![], ser_imps: vec![], rp_reqs: vec![], rp_imps: vec![] };
    if with_witnesses {
        for (idx, (name, v)) in witnesses().iter().enumerate() {
            if witness_only.map(|c| c != idx as u64).unwrap_or(false) { continue; }
            rt.count("witness");
            let mut rng = Rng::derive(0, "c04.witness", idx as u64);
            let rp = |_: &str| json!({"stream": "c04.witness", "seed": 0, "case": idx, "witness": name, "value": show_val(v)});
            one_value(v, &vec![], None, &mut rng, &mut b, &mut rt, &mut tot, &rp, &mut st_rp);
        }
    }
    for case in from..to {
        let mut rng = Rng::derive(seed, "c04.ser", case);
        let rp = |_: &str| json!({"stream": "c04.ser", "seed": seed, "case": case});
        if rng.chance(1, 20) {
            if let Some((prim, val)) = gen_infile(&mut rng) {
                st_ser.count("value=infile-stream");
                let (prim, val) = match rng.below(3) {
                    0 => (Primitive::Array(vec![Primitive::Integer(1), prim]), Val::Arr(vec![Val::Int(1), val])),
                    _ => (prim, val),
                };
                let mut rj = rp("");
                rj["value"] = json!(show_val(&val));
                one_value(&val, &vec![], Some(prim), &mut rng, &mut b, &mut rt, &mut tot, &|_| rj.clone(), &mut st_rp);
                continue;
            }
        }
        let (v, lens) = gen_value(&mut rng, &CFG);
        st_ser.count(&format!("top={}", kind_name(&v)));
        for k in nested_kinds(&v) { st_ser.count(&format!("nested-stream={}", k)); }
        let mut rj = rp("");
        rj["value"] = json!(show_val(&v));
        rj["lens"] = json!(show_lens(&lens));
        one_value(&v, &lens, None, &mut rng, &mut b, &mut rt, &mut tot, &|_| rj.clone(), &mut st_rp);
        if b.ser_reqs.len() > 20000 {
            flush(driver, &mut b, &mut st_ser, &mut st_rp);
        }
    }
    flush(driver, &mut b, &mut st_ser, &mut st_rp);
    (vec![st_ser, st_rp], vec![rt, tot])
}

/// totality beyond the round-trip domain: names from every plane (U+0000 too), NaN, ±inf
fn total_extra(seed: u64, from: u64, to: u64, tot: &mut Oracle) {
    fn poison(v: &mut Val, rng: &mut Rng) {
        match v {
            Val::Real(t) => if rng.chance(1, 3) { *t = format!("#{:08x}", *rng.pick(&[f32::NAN.to_bits(), f32::INFINITY.to_bits(), f32::NEG_INFINITY.to_bits(), 0xffc0_0001u32, 0x7f80_0001])); },
            Val::Arr(xs) => xs.iter_mut().for_each(|x| poison(x, rng)),
            Val::Dict(kvs) | Val::StreamPending(kvs, _) => kvs.iter_mut().for_each(|(_, x)| poison(x, rng)),
            _ => {}
        }
    }
    for case in from..to {
        let mut rng = Rng::derive(seed, "c04.total", case);
        let (mut v, _) = gen_value(&mut rng, &WILD);
        if case % 3 == 0 { v = Val::Arr(vec![v, real_val(1.0), Val::Real("#7fc00000".into())]); }
        poison(&mut v, &mut rng);
        let p = match val_to_prim(&v) { Some(p) => p, None => continue };
        let r = ser_prim(&p);
        tot.count(&format!("outcome={}", match &r { Ok(_) => "ok", Err(e) => e }));
        tot.count("wild-names-and-non-finite");
        tot.case(&show_val(&v), true, || json!({"value": show_val(&v), "serialised": show_ser(&r)}));
        if r == Err("panic") {
            tot.fail("panic", "Primitive::serialize panicked", json!({"stream": "c04.total", "seed": seed, "case": case, "value": show_val(&v)}));
        }
    }
}

// ---------------------------------------------------------------------------------------------------
// through the real writer: Storage::create / update + Storage::save, then re-open and resolve

/// a minimal document (header at offset 0, dense object numbers 0..=4, classic table); object 4 is a
/// spare that `update` overwrites
fn base_pdf() -> Vec<u8> {
    use crate::pdfwrite::*;
    let mut w = PdfWriter::new(b"", "1.7");
    w.free(0, 0, 65535);
    w.object(1, 0, b"<< /Type /Catalog /Pages 2 0 R >>");
    w.object(2, 0, b"<< /Type /Pages /Kids [3 0 R] /Count 1 >>");
    w.object(3, 0, b"<< /Type /Page /Parent 2 0 R /MediaBox [0 0 10 10] >>");
    w.object(4, 0, b"null");
    w.finish(XrefFormat::Classic, 5, "/Root 1 0 R", &[], 0);
    w.bytes().to_vec()
}

/// the value of the re-opened file in the harness notation; a stream carries the bytes its range holds
fn prim_to_val_data(p: &Primitive, res: &impl pdf::object::Resolve) -> Val {
    let ent = |d: &pdf::primitive::Dictionary| d.iter().map(|(k, v)| (k.as_str().as_bytes().to_vec(), prim_to_val_data(v, res))).collect::<Vec<_>>();
    match p {
        Primitive::Array(xs) => Val::Arr(xs.iter().map(|x| prim_to_val_data(x, res)).collect()),
        Primitive::Dictionary(d) => Val::Dict(ent(d)),
        Primitive::Stream(s) => match s.raw_data(res) {
            Ok(d) => Val::StreamPending(ent(&s.info), d.to_vec()),
            Err(_) => Val::StreamInFile(ent(&s.info), 0, 0, 0, 0),
        },
        other => prim_to_val(other, &TestResolve::new(&vec![], false)),
    }
}

/// saves `prims` as new objects (the last one by `update` of the spare object when `use_update`) and reads
/// them back: `Err((signature, what))` for a failure of the writer / re-opening itself
fn save_and_reload(prims: &[Primitive], use_update: bool) -> Result<Vec<Result<Val, String>>, (String, String)> {
    use pdf::file::{NoCache, NoLog, Storage, Trailer};
    use pdf::object::{Object, ParseOptions, PlainRef, Resolve, Updater};
    let r = catch_unwind(AssertUnwindSafe(|| -> Result<Vec<Result<Val, String>>, (String, String)> {
        let e = |sig: &str, what: String| (sig.to_string(), what);
        let mut storage = Storage::with_cache(base_pdf(), ParseOptions::strict(), NoCache, NoCache, NoLog).map_err(|x| e("save-base-load", format!("{}", x)))?;
        let tdict = storage.load_storage_and_trailer().map_err(|x| e("save-base-load", format!("{}", x)))?;
        let mut trailer = Trailer::from_primitive(Primitive::Dictionary(tdict), &storage.resolver()).map_err(|x| e("save-base-load", format!("trailer: {}", x)))?;
        let mut refs: Vec<PlainRef> = vec![];
        for (i, p) in prims.iter().enumerate() {
            let r = if use_update && i + 1 == prims.len() {
                storage.update(PlainRef { id: 4, gen: 0 }, p.clone()).map_err(|x| e("save-update", format!("{}", x)))?.get_ref().get_inner()
            } else {
                storage.create(p.clone()).map_err(|x| e("save-create", format!("{}", x)))?.get_ref().get_inner()
            };
            refs.push(r);
        }
        let saved = storage.save(&mut trailer).map_err(|x| e("save-error", format!("Storage::save: {}", x)))?.to_vec();
        let mut st2 = Storage::with_cache(saved, ParseOptions::strict(), NoCache, NoCache, NoLog).map_err(|x| e("save-reload", format!("{}", x)))?;
        st2.load_storage_and_trailer().map_err(|x| e("save-reload", format!("the saved file does not load: {}", x)))?;
        let res = st2.resolver();
        Ok(refs.iter().map(|r| res.resolve(*r).map(|p| prim_to_val_data(&p, &res)).map_err(|x| format!("{}", x))).collect())
    }));
    match r {
        Ok(x) => x,
        Err(_) => Err(("save-panic".into(), "panic inside create / save / re-opening".into())),
    }
}

fn save_witnesses() -> Vec<(&'static str, Val)> {
    vec![
        ("Integer 7 (body directly before endobj)", Val::Int(7)),
        ("Number 2^31", real_val(2147483648.0)),
        ("Name with a space", Val::Name(b"a b".to_vec())),
        ("String with CR", Val::Str(b"a\rb".to_vec())),
        ("nested dictionary / array", Val::Dict(vec![(b"A".to_vec(), Val::Arr(vec![Val::Int(1), Val::Dict(vec![(b"k y".to_vec(), Val::Null)]), Val::Arr(vec![])])), (b"B".to_vec(), Val::Bool(true))])),
        ("Pending stream", Val::StreamPending(vec![(b"Length".to_vec(), Val::Int(3))], b"abc".to_vec())),
        ("null, reference, boolean", Val::Arr(vec![Val::Null, Val::Ref(1, 0), Val::Bool(false)])),
        ("name ending the body", Val::Name(b"N".to_vec())),
    ].into_iter().chain(nested_stream_witnesses()).collect()
}

/// one save of `vals`; every value read back must equal the one written
fn save_case(or: &mut Oracle, vals: &[Val], use_update: bool, replay: Value) {
    // An object whose *value* is a reference is followed by `resolve` (repair of D32), so it cannot be read
    // back verbatim through the document; such a value is saved inside an array instead. The placement
    // "reference as indirect-object body" stays covered by the byte-level streams, which parse the body directly.
    let wrapped: Vec<Val> = vals.iter().map(|v| match v { Val::Ref(..) => Val::Arr(vec![v.clone()]), v => v.clone() }).collect();
    let vals: &[Val] = &wrapped;
    let prims: Vec<Primitive> = match vals.iter().map(val_to_prim).collect::<Option<Vec<_>>>() { Some(p) => p, None => return };
    or.count(&format!("objects={}", vals.len()));
    if use_update { or.count("with-update-of-existing-object"); }
    for v in vals { or.count(&format!("top={}", kind_name(v))); for k in nested_kinds(v) { or.count(&format!("nested-stream={}", k)); } }
    let r = save_and_reload(&prims, use_update);
    let key = vals.iter().map(show_val).collect::<Vec<_>>().join(" ");
    or.case(&key, true, || json!({"values": key, "result": match &r { Ok(vs) => json!(vs.iter().map(|v| match v { Ok(v) => show_canon(v), Err(e) => format!("err {}", e) }).collect::<Vec<_>>()), Err(e) => json!(format!("{}: {}", e.0, e.1)) }}));
    let mut fail = |sig: &str, what: &str, extra: Value| {
        let mut rj = replay.clone();
        rj["values"] = json!(key);
        rj["detail"] = extra;
        or.fail(sig, what, rj);
    };
    match r {
        Err((sig, what)) => fail(&sig, &format!("saving new objects and re-opening the file fails: {}", what), json!(null)),
        Ok(got) => {
            for (i, (v, g)) in vals.iter().zip(got.iter()).enumerate() {
                let mut forms = vec![];
                string_forms(v, &mut forms);
                match g {
                    Err(e) => {
                        let k = match v { Val::Str(s) => if s.iter().any(|&b| b >= 0x80) { "string-hex".to_string() } else { "string-literal".to_string() }, v => kind_name(v).to_string() };
                        fail(&k, &format!("object {} written by save cannot be read back: {}", i, e), json!({"object": i, "expected": show_canon(v)}));
                        return;
                    }
                    Ok(g) => {
                        let cx = DiffCtx { identify_numbers: true, buf: &[], file_off: 0, id: None, forms: &forms };
                        if let Some(k) = diff_kind(v, g, &cx) {
                            fail(&k, &format!("object {} read back from the saved file differs from the value written (first difference: {})", i, k), json!({"object": i, "expected": show_canon(v), "got": show_canon(g)}));
                            return;
                        }
                    }
                }
            }
        }
    }
}

fn save_oracle(seed: u64, from: u64, to: u64, witness_only: Option<u64>, with_witnesses: bool) -> Oracle {
    let mut or = Oracle::new("c04.save");
    if with_witnesses {
        for (idx, (name, v)) in save_witnesses().iter().enumerate() {
            if witness_only.map(|c| c != idx as u64).unwrap_or(false) { continue; }
            or.count("witness");
            for upd in [false, true] {
                save_case(&mut or, &[v.clone()], upd, json!({"stream": "c04.save.witness", "seed": 0, "case": idx, "witness": name, "update": upd}));
            }
        }
    }
    for case in from..to {
        let mut rng = Rng::derive(seed, "c04.save", case);
        let n = 1 + rng.usize(4);
        let vals: Vec<Val> = (0..n).map(|_| {
            // direct /Length only: the reference of an indirect one would have to exist in the file
            let (v, _) = if rng.chance(1, 5) { gen_stream(&mut rng, &CFG, false) } else { gen_value(&mut rng, &CFG) };
            v
        }).filter(|v| !has_indirect_len(v)).collect();
        if vals.is_empty() { continue; }
        let upd = rng.chance(1, 3);
        save_case(&mut or, &vals, upd, json!({"stream": "c04.save", "seed": seed, "case": case}));
    }
    or
}

/// a stream whose /Length is a reference (not resolvable inside the saved file)
fn has_indirect_len(v: &Val) -> bool {
    match v {
        Val::StreamPending(kvs, _) => kvs.iter().any(|(k, v)| k == b"Length" && matches!(v, Val::Ref(..))) || kvs.iter().any(|(_, v)| has_indirect_len(v)),
        Val::Arr(xs) => xs.iter().any(has_indirect_len),
        Val::Dict(kvs) => kvs.iter().any(|(_, v)| has_indirect_len(v)),
        _ => false,
    }
}

// ---------------------------------------------------------------------------------------------------
// f32 assumptions

/// `-?[0-9]+(\.[0-9]+)?`
fn h1_shape(s: &str) -> bool {
    let b = s.as_bytes();
    let b = if b.first() == Some(&b'-') { &b[1..] } else { b };
    let (ip, fp) = match b.iter().position(|&c| c == b'.') { Some(i) => (&b[..i], Some(&b[i + 1..])), None => (b, None) };
    let dig = |s: &[u8]| !s.is_empty() && s.iter().all(|c| c.is_ascii_digit());
    dig(ip) && fp.map(dig).unwrap_or(true)
}

#[derive(Default)]
struct F32Tally {
    checked: u64,
    h3_checked: u64,
    h3_variants: u64,
    skipped_non_finite: u64,
    failures: Vec<(String, String, String)>, // (request, expected, got)
}

fn check_bits(bits: u32, h3: bool, t: &mut F32Tally, s: &mut String) {
    use std::fmt::Write;
    let f = f32::from_bits(bits);
    if !f.is_finite() {
        t.skipped_non_finite += 1;
        return;
    }
    t.checked += 1;
    s.clear();
    let _ = write!(s, "{}", f); // the text `f.to_string()` gives (same `Display`), into a reused buffer
    fn bad(hyp: &str, bits: u32, display: &str, text: &str, got: Option<u32>, t: &mut F32Tally) {
        if t.failures.len() < 20 {
            let g = got.map(|g| format!("{:08x}", g)).unwrap_or_else(|| "parse-error-or-shape".into());
            t.failures.push((format!("c04.f32 {} bits={:08x} display={} text={}", hyp, bits, display, text), format!("{:08x}", bits), g));
        }
    }
    if !h1_shape(s) {
        bad("H1-shape", bits, s, s, None, t);
        return;
    }
    let rd = |x: &str| x.parse::<f32>().ok().map(|g| g.to_bits());
    let g = rd(s);
    if g != Some(bits) { bad("H2-display-parse", bits, s, s, g, t); }
    if !s.contains('.') {
        let n = s.len();
        s.push('.');
        let g = rd(s);
        if g != Some(bits) { bad("H2-display-dot-parse", bits, &s[..n], s, g, t); }
        s.truncate(n);
    }
    if h3 {
        t.h3_checked += 1;
        for a in 0..2u64 { for z in 0..3u64 { for tz in 0..3u64 { for dz in 0..2u64 {
            let mut tape = Tape::fixed(vec![a, z, tz, dz]);
            let tok = real_tok(s.as_bytes(), &mut tape);
            let txt = String::from_utf8_lossy(&tok);
            t.h3_variants += 1;
            let g = rd(&txt);
            if g != Some(bits) { bad("H3-printer-variant", bits, s, &txt, g, t); }
        } } } }
    }
}

const F32_BOUNDARY: [u32; 30] = [0, 1, 2, 0x007f_ffff, 0x0080_0000, 0x0080_0001, 0x3f7f_ffff, 0x3f80_0000, 0x3f80_0001, 0x3dcc_cccd, 0x4b00_0000, 0x4b7f_ffff, 0x4b80_0000, 0x4eff_ffff,
    0x4f00_0000, 0x4f00_0001, 0x4f80_0000, 0x5015_02f9, 0x7f7f_ffff, 0x7f7f_fffe, 0x7f80_0000, 0x7fc0_0000, 0x33d6_bf95, 0x0000_0fff, 0x3400_0000, 0x4120_0000, 0x42c8_0000, 0x461c_4000, 0x4974_2400, 0x3a83_126f];

fn f32_stream(seed: u64, thorough: bool) -> Stream {
    let mut st = Stream::new("c04.f32", true);
    let mut tally = F32Tally::default();
    if thorough {
        st.exhaustive = true;
        let nthreads = std::thread::available_parallelism().map(|n| n.get()).unwrap_or(4) as u64;
        let span = (1u64 << 32) / nthreads + 1;
        let parts: Vec<F32Tally> = std::thread::scope(|sc| {
            let hs: Vec<_> = (0..nthreads).map(|k| sc.spawn(move || {
                let mut t = F32Tally::default();
                let mut buf = String::with_capacity(64);
                let lo = k * span;
                let hi = ((k + 1) * span).min(1u64 << 32);
                for b in lo..hi {
                    check_bits(b as u32, b % 64 == 17, &mut t, &mut buf);
                }
                t
            })).collect();
            hs.into_iter().map(|h| h.join().unwrap_or_default()).collect()
        });
        for p in parts {
            tally.checked += p.checked;
            tally.h3_checked += p.h3_checked;
            tally.h3_variants += p.h3_variants;
            tally.skipped_non_finite += p.skipped_non_finite;
            tally.failures.extend(p.failures);
        }
    } else {
        let n = 400_000u64;
        let stride = (1u64 << 32) / n;
        let mut rng = Rng::derive(seed, "c04.f32", 0);
        let shift = rng.below(stride);
        let mut buf = String::with_capacity(64);
        for i in 0..n {
            check_bits((i * stride + shift) as u32, i % 64 == 0, &mut tally, &mut buf);
        }
        for &b in &F32_BOUNDARY {
            for s in [0u32, 0x8000_0000] {
                check_bits(b | s, true, &mut tally, &mut buf);
            }
        }
        for _ in 0..20000 {
            let f = gen_f32(&mut rng);
            check_bits(f.to_bits(), rng.chance(1, 8), &mut tally, &mut buf);
        }
    }
    st.cases = tally.checked;
    st.distinct_nontrivial = tally.checked;
    st.histogram.insert("H1+H2 finite patterns checked".into(), tally.checked);
    st.histogram.insert("H3 patterns checked".into(), tally.h3_checked);
    st.histogram.insert("H3 printer variants parsed".into(), tally.h3_variants);
    st.histogram.insert("non-finite patterns skipped".into(), tally.skipped_non_finite);
    for (rq, m, i) in tally.failures.iter().take(20) {
        st.disagreements.push(json!({"stream": "c04.f32", "request": rq, "model": m, "impl": i}));
    }
    st.samples.push(json!({"request": "c04.f32 H2 bits=3dcccccd display=0.1", "model": "3dcccccd", "impl": format!("{:08x}", "0.1".parse::<f32>().unwrap().to_bits())}));
    st
}

pub fn run(driver: &Driver, seed: u64, thorough: bool, replay: Option<&Value>) -> Report {
    let mut rep = Report::new("C04");
    if let Some(r) = replay {
        let seed = r["seed"].as_u64().unwrap_or(seed);
        let case = r["case"].as_u64().unwrap_or(0);
        let stream = r["stream"].as_str().unwrap_or("");
        if let Some(req) = r["disagreement"]["request"].as_str() {
            let mut st = Stream::new(stream, true);
            if req.starts_with("c04.f32") {
                return { rep.streams.push(f32_stream(seed, false)); rep };
            }
            let resp = driver.ask(&[req.to_string()]);
            let f: Vec<&str> = req.split(' ').collect();
            let (m, i) = match f[0] {
                "c04.ser" => (resp[0].clone(), read_val(f.get(1).unwrap_or(&"")).and_then(|v| val_to_prim(&v)).map(|p| show_ser(&ser_prim(&p))).unwrap_or_else(|| "not-constructible (InFile stream: replay the stored case instead)".into())),
                "c04.frame" => (resp[0].clone(), read_val(f.get(3).unwrap_or(&"")).and_then(|v| val_to_prim(&v)).map(|p| match ser_prim(&p) { Ok(b) => format!("ok {}", hex(&frame(f[1].parse().unwrap_or(0), f[2].parse().unwrap_or(0), &b))), Err(e) => e.to_string() }).unwrap_or_else(|| "not-constructible".into())),
                _ => both_sides(req, &resp[0]),
            };
            st.case(req, &m, &i, true);
            rep.streams.push(st);
            return rep;
        }
        let (sts, ors) = match stream {
            "c04.save.witness" => (vec![], vec![save_oracle(seed, 0, 0, Some(case), true)]),
            "c04.save" => (vec![], vec![save_oracle(seed, case, case + 1, None, false)]),
            "c04.witness" => ser_streams(driver, seed, 0, 0, Some(case), true),
            "c04.total" => { let mut tot = Oracle::new("c04.total"); total_extra(seed, case, case + 1, &mut tot); (vec![], vec![tot]) }
            _ => ser_streams(driver, seed, case, case + 1, None, false),
        };
        rep.streams.extend(sts);
        rep.oracles.extend(ors);
        return rep;
    }
    let k: u64 = if thorough { 60 } else { 1 };
    let (sts, mut ors) = ser_streams(driver, seed, 0, 40000 * k, None, true);
    rep.streams.extend(sts);
    total_extra(seed, 0, 40000 * k, &mut ors[1]);
    rep.oracles.extend(ors);
    rep.oracles.push(save_oracle(seed, 0, 600 * k, None, true));
    rep.streams.push(f32_stream(seed, thorough));
    rep.notes.push("c04.f32 validates ASSUMPTIONS of the model, not theorems: H1 `f32::to_string` of a finite value has the shape -?[0-9]+(\\.[0-9]+)?; H2 `str::parse::<f32>` of that text (and of the text with a `.` appended when it has none) gives back the same bits; H3 every variant the C03 printer's `real_tok` derives from it (sign `+`, 0-2 leading zeros, 0-2 trailing zeros, dropped zero integer part) parses to the same bits. quick: stride sample + boundaries; thorough: all 2^32 patterns (H3 on 1/64 of them)".into());
    rep.notes.push("the object framing of `Storage::save` is emulated by the harness (`\"{id} {gen} obj\\n\" body \"\\nendobj\\n\"`, file.rs) and compared with `c04.frame`".into());
    rep
}
