//! C15 — typed objects round-trip through their dictionary form without losing entries.
//!
//! Correspondence streams (model = lean/PdfModel/Model/Derive.lean, the schema interpreter over
//! lean/PdfModel/Generated/Schemas.lean):
//!   c15.rt.models       for every derived model of the generated registry that has a reader and a writer:
//!                       random well-typed dictionaries (present / absent optionals, defaults, one-or-many,
//!                       nested models, indirect values, unknown extra keys) → real `from_primitive`,
//!                       `to_primitive` (recording `Updater`), `from_primitive`, `to_primitive`
//!                       vs the same four steps of the interpreter
//!   c15.rt.containers   the container impls on their own (`Option`, `Vec`, `HashMap`, tuples, `Box`, `MaybeRef`,
//!                       `RcRef`, `Ref`, `Lazy`, numbers)
//!   c15.f32             `i32 as f32` vs the model's `f32OfInt` (boundary values + random)
//!   c15.hw            the hand-written pairs with a Lean model of their own (Model/Handwritten2.lean): MaybeNamedDest,
//!                       NumberTree, NameTree (read side), CidToGidMap, AppearanceStreamEntry, Pattern, XObject
//!                       dispatch, Encoding — see c15_hw.rs
//!   c15.vw            the value side: the catch-all emptied / stripped of the tags before writing — see c15_value.rs
//!   c15.rt.illtyped     the same dictionaries with one entry spoiled (drift only: outside the property's domain)
//! Oracles (the REAL types against the two laws themselves):
//!   c15.law1            write(read(write x)) == write x and the read succeeds, for every typed model incl. the
//!                       leaf types the Lean model does not implement, and for the hand-written pairs
//!                       (Date, Rectangle, Matrix, Dest, Action, Encoding, NumberTree, ColorSpace) from values
//!                       constructed directly in Rust
//!   c15.value-side    read(write x) = x for values built with an empty catch-all; c15.stream-values: typed streams built
//!                       in memory with filter chains (filters, parameters, decoded data) — see c15_value.rs
//!   c15.law2            models with a catch-all: every non-null entry of an accepted dictionary is present
//!                       after read + write (unknown keys verbatim; recognised keys up to int/real, one-or-many
//!                       and dereferencing)

#[path = "c15_support.rs"]
pub mod support;
#[path = "c15_hw.rs"]
mod hw;
#[path = "c15_value.rs"]
mod value;
#[path = "c15_probe.rs"]
pub mod probe;
#[path = "c15_writers.rs"]
mod writers;

use crate::driver::Driver;
use crate::report::{trunc, Oracle, Report, Stream};
use crate::rng::Rng;
use pdf::object::*;
use pdf::primitive::{Date, Dictionary, Name, PdfString, Primitive, TimeRel};
use serde_json::json;
use std::collections::HashMap;
use support::typed::{visit_model, TYPED_MODELS};
use support::*;

fn b(s: Sh) -> Box<Sh> {
    Box::new(s)
}
fn leaf(n: &str) -> Sh {
    Sh::Leaf(n.into())
}

/// container shapes exercised on their own, with the Rust type each one is
fn container_shapes() -> Vec<Sh> {
    vec![
        leaf("i32"),
        leaf("u32"),
        leaf("usize"),
        leaf("f32"),
        leaf("bool"),
        leaf("Name"),
        leaf("PdfString"),
        leaf("Dictionary"),
        leaf("Primitive"),
        leaf("()"),
        leaf("Rectangle"),
        leaf("Matrix"),
        Sh::Option(b(leaf("i32"))),
        Sh::Option(b(leaf("f32"))),
        Sh::Option(b(leaf("Rectangle"))),
        Sh::Vec(b(leaf("i32"))),
        Sh::Vec(b(leaf("f32"))),
        Sh::Vec(b(leaf("Name"))),
        Sh::Vec(b(leaf("Primitive"))),
        Sh::Option(b(Sh::Vec(b(leaf("f32"))))),
        Sh::Vec(b(Sh::Pair(b(leaf("i32")), b(leaf("Name"))))),
        Sh::HashMap(b(leaf("i32"))),
        Sh::HashMap(b(Sh::Vec(b(leaf("f32"))))),
        Sh::Pair(b(leaf("i32")), b(leaf("f32"))),
        Sh::Boxed(b(leaf("i32"))),
        Sh::MaybeRef(b(leaf("i32"))),
        Sh::Option(b(Sh::MaybeRef(b(Sh::Model("PageLabel".into()))))),
        Sh::RcRef(b(Sh::Model("PageLabel".into()))),
        Sh::Ref(b(leaf("i32"))),
        Sh::Lazy(b(leaf("i32"))),
        Sh::Option(b(Sh::Pair(b(Sh::Ref(b(leaf("i32")))), b(leaf("f32"))))),
    ]
}

fn container_rt(shape: &str, p: &Primitive, o: &HashMap<u64, Primitive>, m: &HashMap<u64, char>, t: bool) -> Option<RtResult> {
    Some(match shape {
        "l.i32" => real_rt::<i32>(p, o, m, t),
        "l.u32" => real_rt::<u32>(p, o, m, t),
        "l.usize" => real_rt::<usize>(p, o, m, t),
        "l.f32" => real_rt::<f32>(p, o, m, t),
        "l.bool" => real_rt::<bool>(p, o, m, t),
        "l.Name" => real_rt::<Name>(p, o, m, t),
        "l.PdfString" => real_rt::<PdfString>(p, o, m, t),
        "l.Dictionary" => real_rt::<Dictionary>(p, o, m, t),
        "l.Primitive" => real_rt::<Primitive>(p, o, m, t),
        "l.unit" => real_rt::<()>(p, o, m, t),
        "l.Rectangle" => real_rt::<Rectangle>(p, o, m, t),
        "l.Matrix" => real_rt::<pdf::content::Matrix>(p, o, m, t),
        "o(l.i32)" => real_rt::<Option<i32>>(p, o, m, t),
        "o(l.f32)" => real_rt::<Option<f32>>(p, o, m, t),
        "o(l.Rectangle)" => real_rt::<Option<Rectangle>>(p, o, m, t),
        "v(l.i32)" => real_rt::<Vec<i32>>(p, o, m, t),
        "v(l.f32)" => real_rt::<Vec<f32>>(p, o, m, t),
        "v(l.Name)" => real_rt::<Vec<Name>>(p, o, m, t),
        "v(l.Primitive)" => real_rt::<Vec<Primitive>>(p, o, m, t),
        "o(v(l.f32))" => real_rt::<Option<Vec<f32>>>(p, o, m, t),
        "v(p(l.i32;l.Name))" => real_rt::<Vec<(i32, Name)>>(p, o, m, t),
        "h(l.i32)" => real_rt::<HashMap<Name, i32>>(p, o, m, t),
        "h(v(l.f32))" => real_rt::<HashMap<Name, Vec<f32>>>(p, o, m, t),
        "p(l.i32;l.f32)" => real_rt::<(i32, f32)>(p, o, m, t),
        "b(l.i32)" => real_rt::<Box<i32>>(p, o, m, t),
        "mr(l.i32)" => real_rt::<MaybeRef<i32>>(p, o, m, t),
        "o(mr(m.PageLabel))" => real_rt::<Option<MaybeRef<PageLabel>>>(p, o, m, t),
        "rc(m.PageLabel)" => real_rt::<RcRef<PageLabel>>(p, o, m, t),
        "rf(l.i32)" => real_rt::<Ref<i32>>(p, o, m, t),
        "lz(l.i32)" => real_rt::<Lazy<i32>>(p, o, m, t),
        "o(p(rf(l.i32);l.f32))" => real_rt::<Option<(Ref<i32>, f32)>>(p, o, m, t),
        _ => return None,
    })
}

fn request(peel: bool, tolerant: bool, shape: &str, objs: &HashMap<u64, Primitive>, missing: &HashMap<u64, char>, p: &Primitive) -> String {
    format!("c15.rt {} {} {} {} {} {}", peel as u8, tolerant as u8, shape, objs_text(objs), missing_text(missing), show_plain(p))
}

/// The model is always asked for the repaired readers (`Cfg.peel = true`: `PdfError::is_missing_object` looks
/// through `Try` / `Shared`), which is what C18 demands of the implementation. On a tree without the repair the
/// correspondence disagrees *and* the oracle has failing inputs (the verdict then carries the oracle's replay).
/// `peel = false` exists in the model for the theorems about the pinned commit only.
pub fn tree_peels() -> bool {
    true
}

struct Case {
    req: String,
    imp: String,
    nontrivial: bool,
}

fn rt_models(driver: &Driver, schemas: &[SchemaJ], seed: u64, per_model: u64, only: Option<(u64, &str)>) -> Stream {
    let mut st = Stream::new("c15.rt.models", true);
    let mut cases: Vec<Case> = vec![];
    let peel = tree_peels();
    for (name, _ty, rd, wr) in TYPED_MODELS {
        if !(*rd && *wr) {
            continue;
        }
        let base = name.split('<').next().unwrap();
        let Some(sc) = schemas.iter().find(|s| s.name == base) else { continue };
        if sc.kind != "struct" && sc.kind != "name_enum" && sc.kind != "int_enum" {
            continue;
        }
        // generic model: the instantiation found in the registry (Files<Ref<Stream<EmbeddedFile>>>)
        let arg: Option<Sh> = if sc.params.is_empty() { None } else { Some(Sh::Ref(b(Sh::LeafApp("Stream".into(), b(Sh::Model("EmbeddedFile".into())))))) };
        let shape_txt = match &arg {
            None => format!("m.{}", base),
            Some(a) => format!("ma.{}({})", base, show_shape(a)),
        };
        for case in 0..per_model {
            if let Some((c, n)) = only {
                if c != case || n != *name {
                    continue;
                }
            }
            let mut rng = Rng::derive(seed, &format!("c15.rt.models/{}", name), case);
            let mut g = Gen::new(schemas, true);
            let tolerant = rng.chance(1, 4);
            // enums: every variant in turn (and, with an `other` variant, names that are not listed), then random
            let enum_case: Option<Primitive> = if sc.kind == "struct" { None } else {
                let listed: Vec<&VariantJ> = sc.variants.iter().filter(|v| !v.other).collect();
                let c = case as usize;
                if c < listed.len() {
                    st.count("enum-variant=listed");
                    Some(if sc.kind == "int_enum" { Primitive::Integer(listed[c].disc.unwrap() as i32) } else { name_prim(&listed[c].name) })
                } else if c < listed.len() + 2 && sc.variants.iter().any(|v| v.other) {
                    st.count("enum-variant=other");
                    Some(name_prim(&format!("Unlisted{}", c)))
                } else {
                    None
                }
            };
            if sc.kind != "struct" && enum_case.is_none() && case as usize > sc.variants.len() + 2 {
                break;
            }
            let generated = match enum_case { Some(p) => Some(p), None => g.model_value(&mut rng, sc, arg.as_ref(), 3) };
            let Some(p) = generated else {
                st.count(&format!("skipped-model-needs-unmodelled-leaf={}", name));
                break;
            };
            for (k, v) in &g.hist {
                *st.histogram.entry(k.clone()).or_insert(0) += v;
            }
            st.count(&format!("model={}", name));
            let missing = HashMap::new();
            let mut v = RtVisitor { prim: &p, objs: &g.objs, missing: &missing, tolerant, out: None, read_only: None };
            visit_model(name, &mut v);
            let imp = v.out.map(|r| r.answer).unwrap_or_else(|| "no-typed-model".into());
            st.count(&format!("outcome={}", imp.split(' ').next().unwrap_or("")));
            let nontrivial = matches!(&p, Primitive::Dictionary(d) if d.len() >= 2);
            cases.push(Case { req: request(peel, tolerant, &shape_txt, &g.objs, &missing, &p), imp, nontrivial });
        }
    }
    let reqs: Vec<String> = cases.iter().map(|c| c.req.clone()).collect();
    let resp = driver.ask(&reqs);
    for (c, m) in cases.iter().zip(resp.iter()) {
        st.case(&c.req, m, &c.imp, c.nontrivial);
    }
    st
}

fn rt_containers(driver: &Driver, schemas: &[SchemaJ], seed: u64, per_shape: u64) -> Stream {
    let mut st = Stream::new("c15.rt.containers", true);
    let mut cases: Vec<Case> = vec![];
    let peel = tree_peels();
    for sh in container_shapes() {
        let txt = show_shape(&sh);
        for case in 0..per_shape {
            let mut rng = Rng::derive(seed, &format!("c15.rt.containers/{}", txt), case);
            let mut g = Gen::new(schemas, true);
            let tolerant = rng.chance(1, 4);
            // absent (null) now and then for the shapes that read it
            let p = if g.reads_null(&sh) && rng.chance(1, 6) { Primitive::Null } else { g.value(&mut rng, &sh, 2).expect("container shape value") };
            let missing = HashMap::new();
            let imp = container_rt(&txt, &p, &g.objs, &missing, tolerant).map(|r| r.answer).unwrap_or_else(|| "no-dispatch".into());
            st.count(&format!("shape={}", txt));
            st.count(&format!("outcome={}", imp.split(' ').next().unwrap_or("")));
            cases.push(Case { req: request(peel, tolerant, &txt, &g.objs, &missing, &p), imp, nontrivial: !matches!(p, Primitive::Null) });
        }
    }
    let reqs: Vec<String> = cases.iter().map(|c| c.req.clone()).collect();
    let resp = driver.ask(&reqs);
    for (c, m) in cases.iter().zip(resp.iter()) {
        st.case(&c.req, m, &c.imp, c.nontrivial);
    }
    st
}

fn f32_stream(driver: &Driver, seed: u64, n: u64) -> Stream {
    let mut st = Stream::new("c15.f32", true);
    let mut vals: Vec<i32> = vec![0, 1, -1, 2, 3, 16_777_215, 16_777_216, 16_777_217, 16_777_218, 16_777_219, 33_554_431, 33_554_433, -16_777_217, i32::MAX, i32::MIN, i32::MAX - 63, i32::MAX - 64, i32::MAX - 65, 2_147_483_520, 2_147_483_584];
    let mut rng = Rng::derive(seed, "c15.f32", 0);
    for _ in 0..n {
        vals.push(rand_i32(&mut rng));
        vals.push(rng.range(i32::MIN as i64, i32::MAX as i64) as i32);
        // around a power of two, where the rounding direction changes
        let k = 24 + rng.below(7) as u32;
        vals.push(((1i64 << k) + rng.range(-300, 300)) as i32);
    }
    let reqs: Vec<String> = vals.iter().map(|v| format!("c15.f32 {}", v)).collect();
    let resp = driver.ask(&reqs);
    for ((v, rq), m) in vals.iter().zip(reqs.iter()).zip(resp.iter()) {
        st.count(if v.unsigned_abs() > (1 << 24) { "magnitude>2^24 (rounded)" } else { "magnitude<=2^24 (exact)" });
        st.case(rq, m, &format!("{}", (*v as f32).to_bits()), *v != 0);
    }
    st
}

/// spoil one entry of a well-typed dictionary
fn spoil(rng: &mut Rng, d: &Dictionary, sc: &SchemaJ) -> (Dictionary, String) {
    let g0 = Gen::new(&[], true);
    let keyed: Vec<&FieldJ> = sc.fields.iter().filter(|f| f.key.is_some() && g0.shape_known(&f.shape)).collect();
    let mut out = Dictionary::new();
    for (k, v) in d.iter() {
        out.insert(k.clone(), v.clone());
    }
    match rng.below(4) {
        0 if !keyed.is_empty() => {
            let f = rng.pick(&keyed);
            let bad = match rng.below(4) {
                0 => Primitive::Boolean(true),
                1 => str_prim(b"oops"),
                2 => Primitive::Array(vec![Primitive::Null, name_prim("Zed")]),
                _ => Primitive::Null,
            };
            out.insert(f.key.clone().unwrap(), bad);
            (out, "ill-typed-entry".into())
        }
        1 if !keyed.is_empty() => {
            let f = rng.pick(&keyed);
            out.remove(f.key.as_ref().unwrap());
            (out, "entry-removed".into())
        }
        2 => {
            out.insert("Type", name_prim("Wrong"));
            (out, "wrong-type-tag".into())
        }
        _ => {
            for (k, _) in &sc.checks {
                out.remove(k);
            }
            out.remove("Type");
            (out, "tags-removed".into())
        }
    }
}

fn rt_illtyped(driver: &Driver, schemas: &[SchemaJ], seed: u64, per_model: u64) -> Stream {
    let mut st = Stream::new("c15.rt.illtyped", false);
    let mut cases: Vec<Case> = vec![];
    let peel = tree_peels();
    for (name, _ty, rd, wr) in TYPED_MODELS {
        if !(*rd && *wr) || name.contains('<') {
            continue;
        }
        let Some(sc) = schemas.iter().find(|s| s.name == *name) else { continue };
        if sc.kind != "struct" {
            continue;
        }
        for case in 0..per_model {
            let mut rng = Rng::derive(seed, &format!("c15.rt.illtyped/{}", name), case);
            let mut g = Gen::new(schemas, true);
            let Some(d) = g.struct_dict(&mut rng, sc, None, 2) else { break };
            let (d2, what) = spoil(&mut rng, &d, sc);
            let tolerant = rng.chance(1, 2);
            let p = Primitive::Dictionary(d2);
            let missing = HashMap::new();
            let mut v = RtVisitor { prim: &p, objs: &g.objs, missing: &missing, tolerant, out: None, read_only: None };
            visit_model(name, &mut v);
            let imp = v.out.map(|r| r.answer).unwrap_or_else(|| "no-typed-model".into());
            st.count(&format!("mutation={}", what));
            st.count(&format!("outcome={}", imp.split(' ').next().unwrap_or("")));
            cases.push(Case { req: request(peel, tolerant, &format!("m.{}", name), &g.objs, &missing, &p), imp, nontrivial: true });
        }
    }
    let reqs: Vec<String> = cases.iter().map(|c| c.req.clone()).collect();
    let resp = driver.ask(&reqs);
    for (c, m) in cases.iter().zip(resp.iter()) {
        st.case(&c.req, m, &c.imp, c.nontrivial);
    }
    st
}

// ---------------------------------------------------------------------------------------------------
// oracles on the real types

fn deref<'a>(p: &'a Primitive, objs: &'a HashMap<u64, Primitive>, fuel: u32) -> &'a Primitive {
    match p {
        Primitive::Reference(r) if fuel > 0 => match objs.get(&r.id) {
            Some(q) => deref(q, objs, fuel - 1),
            None => p,
        },
        _ => p,
    }
}

/// "the same entry up to integers vs reals of equal value" — plus what the typed layer cannot keep apart:
/// a single value vs a one-element array, an indirect vs a direct value; a dictionary may gain entries
/// (defaults written out, the type tag)
fn similar(a: &Primitive, b: &Primitive, objs: &HashMap<u64, Primitive>, fuel: u32) -> bool {
    if fuel == 0 {
        return false;
    }
    if a == b {
        return true;
    }
    let a = deref(a, objs, 8);
    let b = deref(b, objs, 8);
    match (a, b) {
        _ if a == b => true,
        (Primitive::Integer(n), Primitive::Number(f)) => (*n as f32).to_bits() == f.to_bits(),
        (Primitive::Array(x), Primitive::Array(y)) if x.len() == y.len() => x.iter().zip(y.iter()).all(|(p, q)| similar(p, q, objs, fuel - 1)),
        (x, Primitive::Array(y)) if y.len() == 1 && !matches!(x, Primitive::Array(_)) => similar(x, &y[0], objs, fuel - 1),
        (Primitive::Dictionary(x), Primitive::Dictionary(y)) => x.iter().all(|(k, v)| {
            let v = deref(v, objs, 8);
            if matches!(v, Primitive::Null) {
                return true;
            }
            match y.get(k.as_str()) {
                Some(w) => similar(v, w, objs, fuel - 1),
                None => omittable(v, objs),
            }
        }),
        _ => false,
    }
}

/// an entry the writer may leave out: it reads as the absent value (empty dictionary → empty map → not written)
fn omittable(v: &Primitive, objs: &HashMap<u64, Primitive>) -> bool {
    match deref(v, objs, 8) {
        Primitive::Null => true,
        Primitive::Dictionary(d) => d.iter().all(|(_, x)| omittable(x, objs)),
        _ => false,
    }
}

fn oracle_laws(schemas: &[SchemaJ], seed: u64, per_model: u64, only: Option<(u64, &str)>) -> (Oracle, Oracle) {
    let mut l1 = Oracle::new("c15.law1");
    let mut l2 = Oracle::new("c15.law2");
    for (name, _ty, rd, wr) in TYPED_MODELS {
        if !(*rd && *wr) {
            continue;
        }
        let base = name.split('<').next().unwrap();
        let Some(sc) = schemas.iter().find(|s| s.name == base) else { continue };
        if sc.kind != "struct" && sc.kind != "name_enum" && sc.kind != "int_enum" {
            continue;
        }
        let arg: Option<Sh> = if sc.params.is_empty() { None } else { Some(Sh::Ref(b(Sh::LeafApp("Stream".into(), b(Sh::Model("EmbeddedFile".into())))))) };
        let has_other = sc.fields.iter().any(|f| f.other);
        for case in 0..per_model {
            if let Some((c, n)) = only {
                if c != case || n != *name {
                    continue;
                }
            }
            let mut rng = Rng::derive(seed, &format!("c15.law/{}", name), case);
            let mut g = Gen::new(schemas, false);
            let Some(p) = g.model_value(&mut rng, sc, arg.as_ref(), 3) else {
                l1.count(&format!("skipped-no-generator-for-a-required-field={}", name));
                break;
            };
            let missing = HashMap::new();
            // well-typed input: strict and tolerant mode must agree; alternate
            let tolerant = case % 2 == 1;
            l1.count(if tolerant { "mode=tolerant" } else { "mode=strict" });
            let mut v = RtVisitor { prim: &p, objs: &g.objs, missing: &missing, tolerant, out: None, read_only: None };
            visit_model(name, &mut v);
            let Some(res) = v.out else { continue };
            let key = format!("{} {}", name, show_plain(&p));
            l1.count(&format!("model={}", name));
            let replay = json!({"oracle": "c15.law", "seed": seed, "case": case, "model": name, "input": show_plain(&p), "objects": objs_text(&g.objs), "answer": res.answer});
            l1.case(&key, matches!(&p, Primitive::Dictionary(d) if d.len() >= 2), || json!({"model": name, "input": show_plain(&p), "answer": res.answer}));
            let first = res.answer.split(' ').next().unwrap_or("").to_string();
            match first.as_str() {
                "ok" => {
                    let parts: Vec<&str> = res.answer.split(' ').collect();
                    if parts[1] != parts[2] {
                        l1.fail(&format!("law1:{}:rewrite-differs", name), &format!("{}: write(read(write x)) differs from write x: {} vs {}", name, trunc(parts[1]), trunc(parts[2])), replay.clone());
                    }
                }
                "rerr" => {
                    // a generated dictionary that the reader refuses is a generator problem, not the law's: say so loudly
                    l1.fail(&format!("generator:{}:input-refused", name), &format!("{}: the reader refuses a dictionary generated as well-typed: {} ({})", name, res.answer, res.err.clone().unwrap_or_default()), replay.clone());
                }
                other => {
                    l1.fail(&format!("law1:{}:{}", name, other), &format!("{}: after a successful read: {} ({})", name, res.answer, res.err.clone().unwrap_or_default()), replay.clone());
                }
            }
            // second law
            if has_other && first == "ok" {
                if let (Primitive::Dictionary(din), Some(Primitive::Dictionary(dout))) = (&p, &res.p1) {
                    l2.count(&format!("model={}", name));
                    l2.case(&key, din.len() >= 2, || json!({"model": name, "input": show_plain(&p)}));
                    let mut all = g.objs.clone();
                    for (i, q) in &res.created {
                        all.insert(*i, q.clone());
                    }
                    for (k, vin) in din.iter() {
                        let vin_d = deref(vin, &all, 8);
                        if matches!(vin_d, Primitive::Null) {
                            continue;
                        }
                        let recognised = sc.fields.iter().any(|f| f.key.as_deref() == Some(k.as_str()));
                        l2.count(if recognised { "entry=recognised" } else { "entry=unknown-key" });
                        let ok = match dout.get(k.as_str()) {
                            Some(vout) => {
                                if recognised {
                                    similar(vin, vout, &all, 6)
                                } else {
                                    vin == vout
                                }
                            }
                            None => recognised && omittable(vin, &all),
                        };
                        if !ok {
                            l2.fail(
                                &format!("law2:{}:{}", name, if recognised { "recognised-entry-changed" } else { "unknown-entry-lost" }),
                                &format!("{}: entry /{} = {} of the input is {} after read + write", name, k.as_str(), trunc(&show_plain(vin)), dout.get(k.as_str()).map(|x| trunc(&show_prim(x, &|i| all.get(&i).cloned()))).unwrap_or_else(|| "missing".into())),
                                replay.clone(),
                            );
                        }
                    }
                }
            }
        }
    }
    (l1, l2)
}

// hand-written pairs, from values constructed in Rust ------------------------------------------------

fn law1_value<T: Object + ObjectWrite>(or: &mut Oracle, what: &str, desc: &str, x: &T, objs: &HashMap<u64, Primitive>, replay: serde_json::Value) {
    let r = std::panic::catch_unwind(std::panic::AssertUnwindSafe(|| {
        let mut up = RecUpdater::new(CREATED_BASE);
        let p1 = match x.to_primitive(&mut up) {
            Ok(p) => p,
            Err(_) => return Ok("unwritable".to_string()), // not "a value the library can both read and write"
        };
        let mut o2 = objs.clone();
        for (i, q) in &up.objs {
            o2.insert(*i, q.clone());
        }
        let res = MemResolver::new(o2, HashMap::new(), false);
        let x2 = T::from_primitive(p1.clone(), &res).map_err(|e| format!("read-back-fails: {} (written form {})", e, show_plain(&p1)))?;
        let mut up2 = RecUpdater::new(up.next);
        let p2 = x2.to_primitive(&mut up2).map_err(|e| format!("second-write-fails: {}", e))?;
        let mut created = up.objs.clone();
        created.extend(up2.objs.iter().cloned());
        let look = move |id: u64| created.iter().rev().find(|(i, _)| *i == id).map(|(_, p)| p.clone());
        let (a, b) = (show_prim(&p1, &look), show_prim(&p2, &look));
        if a != b {
            return Err(format!("rewrite-differs: {} vs {}", a, b));
        }
        Ok("ok".to_string())
    }));
    or.case(&format!("{} {}", what, desc), true, || json!({"type": what, "value": desc}));
    match r {
        Ok(Ok(s)) => or.count(&format!("{}={}", what, s)),
        Ok(Err(e)) => {
            let kind = e.split(':').next().unwrap_or("").to_string();
            or.fail(&format!("law1:{}:{}", what, kind), &format!("{} {}: {}", what, desc, e), replay)
        }
        Err(_) => or.fail(&format!("law1:{}:panic", what), &format!("{} {}: panic", what, desc), replay),
    }
}

fn rand_dest(rng: &mut Rng) -> Dest {
    let page = if rng.chance(3, 4) { Some(Ref::<Page>::from_id(1 + rng.below(30))) } else { None };
    let of = |rng: &mut Rng| if rng.chance(1, 3) { None } else { Some(rand_f32(rng)) };
    let view = match rng.below(7) {
        0 => DestView::XYZ { left: of(rng), top: of(rng), zoom: rand_f32(rng) },
        1 => DestView::Fit,
        2 => DestView::FitH { top: rand_f32(rng) },
        3 => DestView::FitV { left: rand_f32(rng) },
        4 => DestView::FitR(Rectangle { left: rand_f32(rng), bottom: rand_f32(rng), right: rand_f32(rng), top: rand_f32(rng) }),
        5 => DestView::FitB,
        _ => DestView::FitBH { top: rand_f32(rng) },
    };
    Dest { page, view }
}

/// `Stream<()>`: the stream dictionary (/Filter, /DecodeParms, /Length) of a typed stream must survive
/// write → read → write. The data is never decoded here.
fn law1_stream(or: &mut Oracle, desc: &str, filters: Vec<pdf::enc::StreamFilter>, data: Vec<u8>, replay: serde_json::Value) {
    let r = std::panic::catch_unwind(std::panic::AssertUnwindSafe(|| {
        let st: pdf::object::Stream<()> = pdf::object::Stream::from_compressed((), data, filters);
        let mut up = RecUpdater::new(CREATED_BASE);
        let p1 = match st.to_primitive(&mut up) {
            Ok(p) => p,
            Err(_) => return Ok("unwritable".to_string()),
        };
        let info1 = match &p1 {
            Primitive::Stream(s) => s.info.clone(),
            _ => return Err("not-a-stream: the writer did not produce a stream".to_string()),
        };
        let res = MemResolver::new(HashMap::new(), HashMap::new(), false);
        let st2 = pdf::object::Stream::<()>::from_primitive(p1, &res).map_err(|e| format!("read-back-fails: {} (dictionary {})", e, show_plain(&Primitive::Dictionary(info1.clone()))))?;
        let mut up2 = RecUpdater::new(CREATED_BASE);
        let p2 = st2.to_primitive(&mut up2).map_err(|e| format!("second-write-fails: {}", e))?;
        let info2 = match &p2 {
            Primitive::Stream(s) => s.info.clone(),
            _ => return Err("not-a-stream: second write".to_string()),
        };
        let (a, b) = (show_plain(&Primitive::Dictionary(info1)), show_plain(&Primitive::Dictionary(info2)));
        if a != b {
            return Err(format!("rewrite-differs: {} vs {}", a, b));
        }
        Ok("ok".to_string())
    }));
    or.case(&format!("Stream {}", desc), true, || json!({"type": "Stream<()>", "filters": desc}));
    match r {
        Ok(Ok(s)) => or.count(&format!("Stream<()>={}", s)),
        Ok(Err(e)) => {
            let kind = e.split(':').next().unwrap_or("").to_string();
            or.fail(&format!("law1:Stream:{}", kind), &format!("Stream<()> with filters {}: {}", desc, e), replay)
        }
        Err(_) => or.fail("law1:Stream:panic", &format!("Stream<()> with filters {}: panic in to_primitive / from_primitive", desc), replay),
    }
}

fn rand_filter(rng: &mut Rng) -> pdf::enc::StreamFilter {
    use pdf::enc::*;
    let lzw = |rng: &mut Rng| LZWFlateParams { predictor: *rng.pick(&[1, 2, 12]), n_components: 1 + rng.below(4) as i32, bits_per_component: 8, columns: 1 + rng.below(40) as i32, early_change: rng.below(2) as i32 };
    match rng.below(6) {
        0 => StreamFilter::ASCIIHexDecode,
        1 => StreamFilter::ASCII85Decode,
        2 => StreamFilter::FlateDecode(lzw(rng)),
        3 => StreamFilter::LZWDecode(lzw(rng)),
        4 => StreamFilter::RunLengthDecode,
        _ => StreamFilter::DCTDecode(DCTDecodeParams { color_transform: if rng.chance(1, 2) { Some(rng.below(2) as i32) } else { None } }),
    }
}

fn oracle_handwritten(seed: u64, n: u64, only: Option<u64>) -> Oracle {
    let mut or = Oracle::new("c15.law1.handwritten");
    let objs: HashMap<u64, Primitive> = HashMap::new();
    // deterministic regression witness of D37 (runs on every run): a GoTo action must be readable again
    {
        let a = Action::Goto(MaybeNamedDest::Named(PdfString::from("chapter1")));
        law1_value(&mut or, "Action", "Goto(Named(chapter1)) [D37 witness]", &a, &objs, json!({"oracle": "c15.law1.handwritten", "witness": "D37", "seed": seed, "case": 0}));
        let d = Dest { page: Some(Ref::from_id(3)), view: DestView::Fit };
        law1_value(&mut or, "Action", "Goto(Direct([3 0 R /Fit])) [D37 witness]", &Action::Goto(MaybeNamedDest::Direct(d)), &objs, json!({"oracle": "c15.law1.handwritten", "witness": "D37", "seed": seed, "case": 0}));
    }
    // every filter kind once, alone and behind an ASCII filter (variant list: Generated/Dispatch.lean `d_StreamFilter`)
    if only.is_none() {
        use pdf::enc::*;
        let j: serde_json::Value = serde_json::from_str(support::typed::SCHEMAS_JSON).unwrap();
        let kinds: Vec<String> = j["dispatch"].as_array().cloned().unwrap_or_default().iter().filter(|d| d["value_enum"] == "StreamFilter")
            .flat_map(|d| d["variants"].as_array().cloned().unwrap_or_default()).map(|v| v.as_str().unwrap_or("").to_string()).collect();
        if kinds.is_empty() {
            or.fail("sweep:unswept-enum:StreamFilter", "no StreamFilter dispatch in the registry", json!({"oracle": "c15.law1.handwritten"}));
        }
        for k in &kinds {
            let lz = LZWFlateParams { predictor: 12, n_components: 3, bits_per_component: 8, columns: 7, early_change: 0 };
            let f = match k.as_str() {
                "ASCIIHexDecode" => StreamFilter::ASCIIHexDecode,
                "ASCII85Decode" => StreamFilter::ASCII85Decode,
                "LZWDecode" => StreamFilter::LZWDecode(lz),
                "FlateDecode" => StreamFilter::FlateDecode(lz),
                "JPXDecode" => StreamFilter::JPXDecode,
                "DCTDecode" => StreamFilter::DCTDecode(DCTDecodeParams { color_transform: Some(1) }),
                "CCITTFaxDecode" => StreamFilter::CCITTFaxDecode(CCITTFaxDecodeParams { k: -1, end_of_line: true, encoded_byte_align: false, columns: 100, rows: 3, end_of_block: false, black_is_1: true, damaged_rows_before_error: 2 }),
                "JBIG2Decode" => StreamFilter::JBIG2Decode(JBIG2DecodeParams { globals: None }),
                "Crypt" => StreamFilter::Crypt,
                "RunLengthDecode" => StreamFilter::RunLengthDecode,
                other => {
                    or.fail(&format!("sweep:unswept-variant:StreamFilter:{}", other), &format!("filter kind {} is not covered by the sweep", other), json!({"oracle": "c15.law1.handwritten"}));
                    continue;
                }
            };
            law1_stream(&mut or, &format!("[{}]", k), vec![f.clone()], vec![1, 2, 3], json!({"oracle": "c15.law1.handwritten", "type": "Stream", "filter": k, "seed": seed, "case": 0}));
            law1_stream(&mut or, &format!("[ASCII85Decode, {}]", k), vec![StreamFilter::ASCII85Decode, f], vec![1, 2, 3], json!({"oracle": "c15.law1.handwritten", "type": "Stream", "filter": k, "seed": seed, "case": 0}));
        }
        for rel in [TimeRel::Earlier, TimeRel::Later, TimeRel::Universal] {
            let d = Date { year: 2024, month: 2, day: 29, hour: 23, minute: 59, second: 58, rel, tz_hour: 5, tz_minute: 30 };
            law1_value(&mut or, "Date", &format!("{:?}", d), &d, &objs, json!({"oracle": "c15.law1.handwritten", "type": "Date", "seed": seed, "case": 0}));
        }
    }
    for case in 0..n {
        if let Some(c) = only {
            if c != case {
                continue;
            }
        }
        let mut rng = Rng::derive(seed, "c15.law1.handwritten", case);
        let rp = |t: &str| json!({"oracle": "c15.law1.handwritten", "type": t, "seed": seed, "case": case});
        // Date: every field over its whole range (the writer refuses what it calls invalid)
        let mut fld = |narrow: u64, wide: u64| if rng.chance(1, 12) { rng.below(wide) } else { rng.below(narrow) };
        let date = Date {
            year: fld(10000, 65536) as u16,
            month: fld(13, 256) as u8,
            day: fld(32, 256) as u8,
            hour: fld(24, 256) as u8,
            minute: fld(60, 256) as u8,
            second: fld(60, 256) as u8,
            tz_hour: fld(24, 256) as u8,
            tz_minute: fld(60, 256) as u8,
            rel: TimeRel::Universal,
        };
        let date = Date { rel: *rng.pick(&[TimeRel::Earlier, TimeRel::Later, TimeRel::Universal]), ..date };
        law1_value(&mut or, "Date", &format!("{:?}", date), &date, &objs, rp("Date"));
        let rect = Rectangle { left: rand_f32(&mut rng), bottom: rand_f32(&mut rng), right: rand_f32(&mut rng), top: rand_f32(&mut rng) };
        law1_value(&mut or, "Rectangle", &format!("{:?}", rect), &rect, &objs, rp("Rectangle"));
        let m = pdf::content::Matrix { a: rand_f32(&mut rng), b: rand_f32(&mut rng), c: rand_f32(&mut rng), d: rand_f32(&mut rng), e: rand_f32(&mut rng), f: rand_f32(&mut rng) };
        law1_value(&mut or, "Matrix", &format!("{:?}", m), &m, &objs, rp("Matrix"));
        let dest = rand_dest(&mut rng);
        law1_value(&mut or, "Dest", &format!("{:?}", dest), &dest, &objs, rp("Dest"));
        let action = match rng.below(3) {
            0 => Action::Goto(MaybeNamedDest::Direct(rand_dest(&mut rng))),
            1 => {
                let k = rng.usize(6);
                Action::Goto(MaybeNamedDest::Named(PdfString::new(rng.bytes(k).as_slice().into())))
            }
            _ => {
                let mut d = rand_dict(&mut rng, 1);
                d.insert("S", name_prim(*rng.pick(&["URI", "Launch", "Named"])));
                Action::Other(d)
            }
        };
        law1_value(&mut or, "Action", &format!("{:?}", action), &action, &objs, rp("Action"));
        // Encoding: base + differences (run compaction in the writer)
        {
            use pdf::encoding::{BaseEncoding, Encoding};
            let base = match rng.below(5) {
                0 => BaseEncoding::StandardEncoding,
                1 => BaseEncoding::WinAnsiEncoding,
                2 => BaseEncoding::IdentityH,
                3 => BaseEncoding::None,
                _ => BaseEncoding::Other("Custom".into()),
            };
            let mut differences = HashMap::new();
            let mut code = rng.below(40) as u32;
            for _ in 0..rng.usize(6) {
                differences.insert(code, (*rng.pick(NAMES)).into());
                code += 1 + if rng.chance(1, 2) { 0 } else { rng.below(20) as u32 };
            }
            let e = Encoding { base, differences };
            law1_value(&mut or, "Encoding", &format!("{:?}", e), &e, &objs, rp("Encoding"));
        }
        // NumberTree<i32>
        {
            let node = if rng.chance(2, 3) {
                NumberTreeNode::Leaf((0..rng.usize(4)).map(|i| (i as i32 * 2, rand_i32(&mut rng))).collect())
            } else {
                NumberTreeNode::Intermediate((0..rng.usize(3)).map(|_| Ref::from_id(1 + rng.below(30))).collect())
            };
            let t: NumberTree<i32> = NumberTree { limits: if rng.chance(1, 2) { Some((rng.range(0, 5) as i32, rng.range(5, 50) as i32)) } else { None }, node };
            law1_value(&mut or, "NumberTree<i32>", &format!("{:?}", t), &t, &objs, rp("NumberTree"));
        }
        // ColorSpace (the writable subset)
        {
            let cs = match rng.below(3) {
                0 => ColorSpace::DeviceRGB,
                1 => ColorSpace::DeviceCMYK,
                _ => {
                    let k = rng.usize(12);
                    ColorSpace::Indexed(Box::new(ColorSpace::DeviceRGB), rng.below(256) as u8, rng.bytes(k).into())
                }
            };
            law1_value(&mut or, "ColorSpace", &format!("{:?}", cs), &cs, &objs, rp("ColorSpace"));
        }
        // Font and PagesNode (hand-written readers / writers over derived parts): from generated dictionaries
        {
            let mut objs2: HashMap<u64, Primitive> = HashMap::new();
            let mut descriptor = Dictionary::new();
            descriptor.insert("Type", name_prim("FontDescriptor"));
            descriptor.insert("FontName", name_prim(*rng.pick(NAMES)));
            descriptor.insert("Flags", Primitive::Integer(rng.below(1 << 18) as i32));
            descriptor.insert("FontBBox", Primitive::Array((0..4).map(|_| rand_number(&mut rng)).collect()));
            descriptor.insert("ItalicAngle", rand_number(&mut rng));
            if rng.chance(1, 2) {
                descriptor.insert("Ascent", rand_number(&mut rng));
            }
            let mut font = Dictionary::new();
            font.insert("Type", name_prim("Font"));
            font.insert("BaseFont", name_prim(*rng.pick(NAMES)));
            let kind = rng.below(4);
            match kind {
                0 | 1 => {
                    font.insert("Subtype", name_prim(if kind == 0 { "Type1" } else { "TrueType" }));
                    if rng.chance(2, 3) {
                        let first = rng.below(200) as i32;
                        let n = rng.usize(5);
                        font.insert("FirstChar", Primitive::Integer(first));
                        font.insert("LastChar", Primitive::Integer(first + n as i32));
                        font.insert("Widths", Primitive::Array((0..n).map(|_| rand_number(&mut rng)).collect()));
                    }
                    if rng.chance(1, 2) {
                        font.insert("FontDescriptor", Primitive::Dictionary(descriptor.clone()));
                    }
                    match rng.below(3) {
                        0 => {
                            font.insert("Encoding", name_prim("WinAnsiEncoding"));
                        }
                        1 => {
                            let mut e = Dictionary::new();
                            e.insert("BaseEncoding", name_prim("MacRomanEncoding"));
                            e.insert("Differences", Primitive::Array(vec![Primitive::Integer(39), name_prim("A"), name_prim("B"), Primitive::Integer(96), name_prim("Foo")]));
                            font.insert("Encoding", Primitive::Dictionary(e));
                        }
                        _ => {}
                    }
                }
                2 => {
                    font.insert("Subtype", name_prim("CIDFontType2"));
                    font.insert("CIDSystemInfo", Primitive::Dictionary(rand_dict(&mut rng, 0)));
                    font.insert("FontDescriptor", Primitive::Dictionary(descriptor.clone()));
                    if rng.chance(1, 2) {
                        font.insert("DW", rand_number(&mut rng));
                    }
                    font.insert("W", Primitive::Array(vec![Primitive::Integer(1), Primitive::Array(vec![rand_number(&mut rng), rand_number(&mut rng)])]));
                    if rng.chance(1, 2) {
                        font.insert("CIDToGIDMap", name_prim("Identity"));
                    }
                }
                _ => {
                    let mut cid = Dictionary::new();
                    cid.insert("Type", name_prim("Font"));
                    cid.insert("Subtype", name_prim("CIDFontType0"));
                    cid.insert("BaseFont", name_prim("Inner"));
                    cid.insert("CIDSystemInfo", Primitive::Dictionary(Dictionary::new()));
                    cid.insert("FontDescriptor", Primitive::Dictionary(descriptor.clone()));
                    objs2.insert(50, Primitive::Dictionary(cid));
                    font.insert("Subtype", name_prim("Type0"));
                    font.insert("Encoding", name_prim("Identity-H"));
                    font.insert("DescendantFonts", Primitive::Array(vec![Primitive::Reference(PlainRef { id: 50, gen: 0 })]));
                }
            }
            let p = Primitive::Dictionary(font);
            let res = real_rt::<pdf::font::Font>(&p, &objs2, &HashMap::new(), false);
            or.case(&format!("Font {}", show_plain(&p)), true, || json!({"type": "Font", "input": show_plain(&p), "answer": res.answer}));
            let parts: Vec<&str> = res.answer.split(' ').collect();
            if parts[0] != "ok" || parts[1] != parts[2] {
                or.fail(&format!("law1:Font:{}", if parts[0] == "ok" { "rewrite-differs" } else { parts[0] }), &format!("Font from {}: {} ({})", trunc(&show_plain(&p)), trunc(&res.answer), res.err.clone().unwrap_or_default()), rp("Font"));
            } else {
                or.count("Font=ok");
            }
            // PagesNode: a page or a page-tree node
            let mut node = Dictionary::new();
            let mut objs3: HashMap<u64, Primitive> = HashMap::new();
            let mut root = Dictionary::new();
            root.insert("Type", name_prim("Pages"));
            root.insert("Kids", Primitive::Array(vec![]));
            root.insert("Count", Primitive::Integer(0));
            objs3.insert(60, Primitive::Dictionary(root));
            if rng.chance(1, 2) {
                node.insert("Type", name_prim("Page"));
                node.insert("Parent", Primitive::Reference(PlainRef { id: 60, gen: 0 }));
                if rng.chance(1, 2) {
                    node.insert("Rotate", Primitive::Integer(90 * rng.below(4) as i32));
                }
                node.insert("MediaBox", Primitive::Array((0..4).map(|_| rand_number(&mut rng)).collect()));
            } else {
                node.insert("Type", name_prim("Pages"));
                node.insert("Kids", Primitive::Array(vec![Primitive::Reference(PlainRef { id: 61, gen: 0 })]));
                node.insert("Count", Primitive::Integer(1));
                if rng.chance(1, 2) {
                    node.insert("Parent", Primitive::Reference(PlainRef { id: 60, gen: 0 }));
                }
            }
            let p = Primitive::Dictionary(node);
            let res = real_rt::<PagesNode>(&p, &objs3, &HashMap::new(), false);
            or.case(&format!("PagesNode {}", show_plain(&p)), true, || json!({"type": "PagesNode", "input": show_plain(&p), "answer": res.answer}));
            let parts: Vec<&str> = res.answer.split(' ').collect();
            if parts[0] != "ok" || parts[1] != parts[2] {
                or.fail(&format!("law1:PagesNode:{}", if parts[0] == "ok" { "rewrite-differs" } else { parts[0] }), &format!("PagesNode from {}: {} ({})", trunc(&show_plain(&p)), trunc(&res.answer), res.err.clone().unwrap_or_default()), rp("PagesNode"));
            } else {
                or.count("PagesNode=ok");
            }
        }
        // typed streams: filter lists of length 0..3
        {
            let k = rng.usize(4);
            let filters: Vec<pdf::enc::StreamFilter> = (0..k).map(|_| rand_filter(&mut rng)).collect();
            let desc = format!("{:?}", filters);
            let len = rng.usize(20);
            law1_stream(&mut or, &desc, filters, rng.bytes(len), rp("Stream"));
        }
    }
    or
}


// ---------------------------------------------------------------------------------------------------
// sweep over every variant of the hand-written tag dispatch (variant lists from the translator)

enum SweepInput {
    /// a primitive read through the in-memory resolver
    Prim(Primitive, HashMap<u64, Primitive>),
    /// object `target` of a generated document (stream objects can only come out of a parsed file)
    Doc { objs: HashMap<u64, Primitive>, streams: HashMap<u64, (Dictionary, Vec<u8>)>, target: u64 },
}

struct SweepCase {
    desc: String,
    /// Rust type the input is read as
    ty: &'static str,
    input: SweepInput,
}

fn dict_of(entries: &[(&str, Primitive)]) -> Dictionary {
    let mut d = Dictionary::new();
    for (k, v) in entries {
        d.insert(*k, v.clone());
    }
    d
}
fn pd(entries: &[(&str, Primitive)]) -> Primitive {
    Primitive::Dictionary(dict_of(entries))
}
fn arr(xs: Vec<Primitive>) -> Primitive {
    Primitive::Array(xs)
}
fn rf(id: u64) -> Primitive {
    Primitive::Reference(PlainRef { id, gen: 0 })
}
fn int(i: i32) -> Primitive {
    Primitive::Integer(i)
}
fn num(f: f32) -> Primitive {
    Primitive::Number(f)
}

fn font_descriptor(rng: &mut Rng) -> Primitive {
    let mut d = dict_of(&[
        ("Type", name_prim("FontDescriptor")),
        ("FontName", name_prim(*rng.pick(NAMES))),
        ("Flags", int(rng.below(1 << 18) as i32)),
        ("FontBBox", arr((0..4).map(|_| rand_number(rng)).collect())),
        ("ItalicAngle", rand_number(rng)),
    ]);
    if rng.chance(1, 2) {
        d.insert("Ascent", rand_number(rng));
    }
    Primitive::Dictionary(d)
}

fn cid_font(rng: &mut Rng, subtype: &str) -> Dictionary {
    let mut d = dict_of(&[
        ("Type", name_prim("Font")),
        ("Subtype", name_prim(subtype)),
        ("BaseFont", name_prim(*rng.pick(NAMES))),
        ("CIDSystemInfo", pd(&[("Registry", str_prim(b"Adobe")), ("Ordering", str_prim(b"Identity")), ("Supplement", int(0))])),
        ("FontDescriptor", font_descriptor(rng)),
    ]);
    if rng.chance(1, 2) {
        d.insert("DW", rand_number(rng));
    }
    if rng.chance(1, 2) {
        d.insert("W", arr(vec![int(1), arr(vec![rand_number(rng), rand_number(rng)])]));
    }
    if rng.chance(1, 2) {
        d.insert("CIDToGIDMap", name_prim("Identity"));
    }
    d
}

fn function2() -> Primitive {
    pd(&[("FunctionType", int(2)), ("Domain", arr(vec![num(0.0), num(1.0)])), ("N", num(1.0)), ("C0", arr(vec![num(0.0)])), ("C1", arr(vec![num(1.0)]))])
}

/// inputs for tag `tag` of the dispatch on value enum `en`; None: this sweep does not know the tag (reported)
fn sweep_inputs(en: &str, tag: &str, rng: &mut Rng) -> Option<Vec<SweepCase>> {
    let mut out = vec![];
    let none = HashMap::new;
    match en {
        "FontData" => match tag {
            "Type1" | "TrueType" => {
                for with_widths in [false, true] {
                    let mut d = dict_of(&[("Type", name_prim("Font")), ("Subtype", name_prim(tag)), ("BaseFont", name_prim(*rng.pick(NAMES)))]);
                    if with_widths {
                        d.insert("FirstChar", int(32));
                        d.insert("LastChar", int(34));
                        d.insert("Widths", arr(vec![rand_number(rng), rand_number(rng), rand_number(rng)]));
                        d.insert("FontDescriptor", font_descriptor(rng));
                        d.insert("Encoding", name_prim("WinAnsiEncoding"));
                    }
                    out.push(SweepCase { desc: format!("Font /{} widths={}", tag, with_widths), ty: "Font", input: SweepInput::Prim(Primitive::Dictionary(d), none()) });
                }
            }
            "CIDFontType0" | "CIDFontType2" => {
                out.push(SweepCase { desc: format!("Font /{}", tag), ty: "Font", input: SweepInput::Prim(Primitive::Dictionary(cid_font(rng, tag)), none()) });
                out.push(SweepCase { desc: format!("Font /{} (second instance)", tag), ty: "Font", input: SweepInput::Prim(Primitive::Dictionary(cid_font(rng, tag)), none()) });
                // the same font as the descendant of a composite font, placed directly (so that it is re-written)
                let t0 = dict_of(&[("Type", name_prim("Font")), ("Subtype", name_prim("Type0")), ("BaseFont", name_prim("Outer")), ("Encoding", name_prim("Identity-H")),
                    ("DescendantFonts", arr(vec![Primitive::Dictionary(cid_font(rng, tag))]))]);
                out.push(SweepCase { desc: format!("Font /Type0 with a direct /{} descendant", tag), ty: "Font", input: SweepInput::Prim(Primitive::Dictionary(t0), none()) });
            }
            "Type0" => {
                for sub in ["CIDFontType0", "CIDFontType2"] {
                    let mut objs = HashMap::new();
                    objs.insert(50, Primitive::Dictionary(cid_font(rng, sub)));
                    let t0 = dict_of(&[("Type", name_prim("Font")), ("Subtype", name_prim("Type0")), ("BaseFont", name_prim("Outer")), ("Encoding", name_prim("Identity-H")), ("DescendantFonts", arr(vec![rf(50)]))]);
                    out.push(SweepCase { desc: format!("Font /Type0 with an indirect /{} descendant", sub), ty: "Font", input: SweepInput::Prim(Primitive::Dictionary(t0), objs) });
                }
            }
            _ => return None,
        },
        "ColorSpace" => {
            let p = match tag {
                "DeviceGray" | "DeviceRGB" | "DeviceCMYK" => vec![name_prim(tag)],
                "Pattern" => vec![name_prim("Pattern"), arr(vec![name_prim("Pattern")])],
                "Indexed" => vec![arr(vec![name_prim("Indexed"), name_prim("DeviceRGB"), int(1), str_prim(&[0, 0, 0, 255, 255, 255])]), arr(vec![name_prim("Indexed"), name_prim("DeviceCMYK"), int(0), str_prim(&[1, 2, 3, 4])])],
                "Separation" => vec![arr(vec![name_prim("Separation"), name_prim("Spot"), name_prim("DeviceCMYK"), function2()])],
                "DeviceN" => vec![arr(vec![name_prim("DeviceN"), arr(vec![name_prim("A"), name_prim("B")]), name_prim("DeviceRGB"), function2()])],
                "CalGray" | "CalRGB" | "CalCMYK" => vec![arr(vec![name_prim(tag), pd(&[("WhitePoint", arr(vec![num(1.0), num(1.0), num(1.0)]))])])],
                "ICCBased" => {
                    let mut streams = HashMap::new();
                    streams.insert(40u64, (dict_of(&[("N", int(3))]), vec![1u8, 2, 3, 4]));
                    let mut objs = HashMap::new();
                    objs.insert(10u64, arr(vec![name_prim("ICCBased"), rf(40)]));
                    out.push(SweepCase { desc: "ColorSpace [/ICCBased stream]".into(), ty: "ColorSpace", input: SweepInput::Doc { objs, streams, target: 10 } });
                    vec![]
                }
                _ => return None,
            };
            for q in p {
                out.push(SweepCase { desc: format!("ColorSpace {} {}", tag, show_plain(&q)), ty: "ColorSpace", input: SweepInput::Prim(q, none()) });
            }
        }
        "DestView" => {
            let tail: Vec<Vec<Primitive>> = match tag {
                "XYZ" => vec![vec![rand_number(rng), rand_number(rng), rand_number(rng)], vec![Primitive::Null, Primitive::Null, num(0.0)], vec![int(3), Primitive::Null]],
                "Fit" | "FitB" => vec![vec![]],
                "FitH" | "FitV" | "FitBH" => vec![vec![rand_number(rng)], vec![int(7)]],
                "FitR" => vec![vec![rand_number(rng), rand_number(rng), rand_number(rng), rand_number(rng)]],
                _ => return None,
            };
            for t in tail {
                for page in [rf(5), Primitive::Null] {
                    let mut xs = vec![page, name_prim(tag)];
                    xs.extend(t.iter().cloned());
                    let q = arr(xs);
                    out.push(SweepCase { desc: format!("Dest {}", show_plain(&q)), ty: "Dest", input: SweepInput::Prim(q.clone(), none()) });
                    out.push(SweepCase { desc: format!("MaybeNamedDest {}", show_plain(&q)), ty: "MaybeNamedDest", input: SweepInput::Prim(q.clone(), none()) });
                    out.push(SweepCase { desc: format!("Action GoTo {}", show_plain(&q)), ty: "Action", input: SweepInput::Prim(pd(&[("S", name_prim("GoTo")), ("D", q)]), none()) });
                }
            }
        }
        "Action" => match tag {
            "GoTo" => {
                out.push(SweepCase { desc: "Action GoTo named".into(), ty: "Action", input: SweepInput::Prim(pd(&[("S", name_prim("GoTo")), ("D", str_prim(b"chapter1"))]), none()) });
                out.push(SweepCase { desc: "Action GoTo [page /Fit]".into(), ty: "Action", input: SweepInput::Prim(pd(&[("S", name_prim("GoTo")), ("D", arr(vec![rf(3), name_prim("Fit")]))]), none()) });
                for other in ["URI", "Launch", "Named", "GoToR"] {
                    out.push(SweepCase { desc: format!("Action /{}", other), ty: "Action", input: SweepInput::Prim(pd(&[("S", name_prim(other)), ("URI", str_prim(b"http://x")), ("N", name_prim("NextPage"))]), none()) });
                }
            }
            _ => return None,
        },
        "CidToGidMap" => match tag {
            "Identity" => {
                out.push(SweepCase { desc: "CidToGidMap /Identity".into(), ty: "CidToGidMap", input: SweepInput::Prim(name_prim("Identity"), none()) });
                let mut streams = HashMap::new();
                streams.insert(10u64, (Dictionary::new(), vec![0u8, 1, 0, 2, 1, 0]));
                out.push(SweepCase { desc: "CidToGidMap stream table".into(), ty: "CidToGidMap", input: SweepInput::Doc { objs: HashMap::new(), streams, target: 10 } });
            }
            _ => return None,
        },
        "PagesNode" => {
            let mut objs = HashMap::new();
            objs.insert(60u64, pd(&[("Type", name_prim("Pages")), ("Kids", arr(vec![])), ("Count", int(0))]));
            let q = match tag {
                "Page" => pd(&[("Type", name_prim("Page")), ("Parent", rf(60)), ("MediaBox", arr((0..4).map(|_| rand_number(rng)).collect())), ("Rotate", int(90))]),
                "Pages" => pd(&[("Type", name_prim("Pages")), ("Kids", arr(vec![rf(61)])), ("Count", int(1)), ("Parent", rf(60))]),
                _ => return None,
            };
            out.push(SweepCase { desc: format!("PagesNode /{}", tag), ty: "PagesNode", input: SweepInput::Prim(q, objs) });
        }
        "XObject" => {
            let d = match tag {
                "PS" => dict_of(&[("Type", name_prim("XObject")), ("Subtype", name_prim("PS"))]),
                "Image" => dict_of(&[("Type", name_prim("XObject")), ("Subtype", name_prim("Image")), ("Width", int(2)), ("Height", int(1)), ("BitsPerComponent", int(8)), ("ColorSpace", name_prim("DeviceRGB"))]),
                "Form" => dict_of(&[("Type", name_prim("XObject")), ("Subtype", name_prim("Form")), ("BBox", arr((0..4).map(|_| rand_number(rng)).collect()))]),
                _ => return None,
            };
            let mut streams = HashMap::new();
            streams.insert(10u64, (d, vec![b'q', b' ', b'Q', b' ', b'1', b'2']));
            out.push(SweepCase { desc: format!("XObject /{}", tag), ty: "XObject", input: SweepInput::Doc { objs: HashMap::new(), streams, target: 10 } });
        }
        // typed values, swept in `oracle_handwritten` (filters of typed streams, the relation of a date)
        "StreamFilter" | "TimeRel" => {}
        _ => return None,
    }
    Some(out)
}

fn sweep_real(case: &SweepCase) -> (String, Option<Primitive>, Option<Primitive>, HashMap<u64, Primitive>) {
    fn by_type<R: Resolve>(ty: &str, p: &Primitive, r: &R) -> String {
        fn go<T: Object + ObjectWrite>(p: &Primitive, r: &impl Resolve) -> String {
            std::panic::catch_unwind(std::panic::AssertUnwindSafe(|| {
                let x = match T::from_primitive(p.clone(), r) {
                    Ok(x) => x,
                    Err(e) => return format!("rerr {} ({})", err_chain(&e), e),
                };
                let mut up = RecUpdater::new(CREATED_BASE);
                let p1 = match x.to_primitive(&mut up) {
                    Ok(p) => p,
                    Err(_) => return "unwritable".to_string(),
                };
                if !up.objs.is_empty() {
                    return "created-objects".to_string();
                }
                let x2 = match T::from_primitive(p1.clone(), r) {
                    Ok(x) => x,
                    Err(e) => return format!("rerr2 {} ({}) written form {}", err_chain(&e), e, show_plain(&p1)),
                };
                let mut up2 = RecUpdater::new(CREATED_BASE);
                // a written stream is compared with its data, not only by its dictionary
                fn with_data(p: &Primitive, r: &impl Resolve) -> String {
                    match p {
                        Primitive::Stream(s) => match s.raw_data(r) {
                            Ok(d) => format!("{}~{}", show_plain(p), hex(&d)),
                            Err(_) => format!("{}~?", show_plain(p)),
                        },
                        q => show_plain(q),
                    }
                }
                match x2.to_primitive(&mut up2) {
                    Ok(p2) => format!("ok {} {}", with_data(&p1, r), with_data(&p2, r)),
                    Err(e) => format!("werr2 {}", e),
                }
            }))
            .unwrap_or_else(|_| "panic".into())
        }
        match ty {
            "Font" => go::<pdf::font::Font>(p, r),
            "ColorSpace" => go::<ColorSpace>(p, r),
            "Dest" => go::<Dest>(p, r),
            "MaybeNamedDest" => go::<MaybeNamedDest>(p, r),
            "Action" => go::<Action>(p, r),
            "CidToGidMap" => go::<pdf::font::CidToGidMap>(p, r),
            "PagesNode" => go::<PagesNode>(p, r),
            "XObject" => go::<XObject>(p, r),
            "Pattern" => go::<Pattern>(p, r),
            "AppearanceStreamEntry" => go::<AppearanceStreamEntry>(p, r),
            "Encoding" => go::<pdf::encoding::Encoding>(p, r),
            "NumberTree<i32>" => go::<NumberTree<i32>>(p, r),
            _ => "no-dispatch".into(),
        }
    }
    match &case.input {
        SweepInput::Prim(p, objs) => {
            let r = MemResolver::new(objs.clone(), HashMap::new(), false);
            (by_type(case.ty, p, &r), Some(p.clone()), None, objs.clone())
        }
        SweepInput::Doc { objs, streams, target } => {
            let doc = build_doc(objs, streams, Layout::SINGLE, None);
            let res = std::panic::catch_unwind(std::panic::AssertUnwindSafe(|| {
                let file = match pdf::file::FileOptions::uncached().load(doc.bytes.clone()) {
                    Ok(f) => f,
                    Err(e) => return (format!("load-failed {}", e), None),
                };
                let resolver = file.resolver();
                let p = match resolver.resolve(PlainRef { id: *target, gen: 0 }) {
                    Ok(p) => p,
                    Err(e) => return (format!("target-unreadable {}", e), None),
                };
                (by_type(case.ty, &p, &resolver), Some(p))
            }));
            match res {
                Ok((a, p)) => (a, p, None, objs.clone()),
                Err(_) => ("panic".into(), None, None, objs.clone()),
            }
        }
    }
}

/// value-enum variants that are not written with a tag of their own (the writer refuses them, or has no tag):
/// a sweep case for them may answer `unwritable`
fn writable_tag(disp: &serde_json::Value, tag: &str) -> bool {
    // the reader arm(s) for this tag → variants; writable iff some writer arm mentions one of them
    let mut variants: Vec<String> = vec![];
    for a in disp["reader"].as_array().unwrap() {
        if a["tags"].as_array().unwrap().iter().any(|t| t.as_str() == Some(tag)) {
            variants.extend(a["variants"].as_array().unwrap().iter().map(|v| v.as_str().unwrap().to_string()));
        }
    }
    disp["writer"].as_array().unwrap().iter().any(|w| {
        let tags: Vec<&str> = w["tags"].as_array().unwrap().iter().map(|t| t.as_str().unwrap()).collect();
        !tags.contains(&"unimplemented") && w["variants"].as_array().unwrap().iter().any(|v| variants.iter().any(|x| Some(x.as_str()) == v.as_str()))
    })
}

/// the value enums whose dispatch the translator found and this sweep knows how to feed
const SWEPT_ENUMS: &[&str] = &["Action", "CidToGidMap", "ColorSpace", "DestView", "FontData", "PagesNode", "StreamFilter", "TimeRel", "XObject"];

fn oracle_variant_sweep(seed: u64, rounds: u64) -> Oracle {
    let mut or = Oracle::new("c15.variant-sweep");
    let j: serde_json::Value = serde_json::from_str(support::typed::SCHEMAS_JSON).unwrap();
    let disp = j["dispatch"].as_array().cloned().unwrap_or_default();
    if disp.is_empty() {
        or.fail("sweep:no-dispatch-tables", "the translator found no hand-written tag dispatch at all", json!({"oracle": "c15.variant-sweep"}));
    }
    for d in &disp {
        let en = d["value_enum"].as_str().unwrap_or("");
        if !SWEPT_ENUMS.contains(&en) {
            or.fail(&format!("sweep:unswept-enum:{}", en), &format!("the hand-written readers dispatch on tags into enum {} — this sweep has no inputs for it", en), json!({"oracle": "c15.variant-sweep", "enum": en}));
            continue;
        }
        // the tags this harness knows (a rewrite may hide tags from the syntactic scan), then what the source shows
        let mut tags: Vec<String> = probe::KNOWN_TAGS.iter().find(|(e, _)| *e == en).map(|(_, ts)| ts.iter().map(|t| t.to_string()).collect()).unwrap_or_default();
        for a in d["reader"].as_array().unwrap() {
            for t in a["tags"].as_array().unwrap() {
                let t = t.as_str().unwrap().to_string();
                if !tags.contains(&t) {
                    tags.push(t);
                }
            }
        }
        for tag in &tags {
            for round in 0..rounds {
                let mut rng = Rng::derive(seed, &format!("c15.variant-sweep/{}/{}", en, tag), round);
                let Some(cases) = sweep_inputs(en, tag, &mut rng) else {
                    // a string the syntactic scan found near the reader: is it a tag the compiled reader dispatches on?
                    if probe::tag_is_real(en, tag) == Some(false) {
                        or.count(&format!("syntactic-tag-not-a-tag-of-the-compiled-reader={}:{}", en, tag));
                        break;
                    }
                    or.fail(&format!("sweep:unswept-variant:{}:{}", en, tag), &format!("reader tag {:?} of {} is not covered by the sweep", tag, en), json!({"oracle": "c15.variant-sweep", "enum": en, "tag": tag}));
                    break;
                };
                let writable = writable_tag(d, tag);
                for c in cases {
                    let (ans, input, _, objs) = sweep_real(&c);
                    or.case(&c.desc, true, || json!({"case": c.desc, "answer": trunc(&ans)}));
                    or.count(&format!("{}:{}={}", en, tag, ans.split(' ').next().unwrap_or("")));
                    let replay = json!({"oracle": "c15.variant-sweep", "seed": seed, "round": round, "enum": en, "tag": tag, "case": c.desc, "answer": trunc(&ans)});
                    let first = ans.split(' ').next().unwrap_or("").to_string();
                    match first.as_str() {
                        "ok" => {
                            let parts: Vec<&str> = ans.split(' ').collect();
                            if parts[1] != parts[2] {
                                or.fail(&format!("law1:{}:{}:rewrite-differs", c.ty, tag), &format!("{}: write(read(write x)) differs from write x: {} vs {}", c.desc, trunc(parts[1]), trunc(parts[2])), replay.clone());
                            }
                            // second law, as far as it can be asked of these types: the entries of the input
                            // (the discriminating entry above all) are still there after read + write
                            if let Some(inp) = &input {
                                let p1 = parts[1];
                                let inp_d = match inp {
                                    Primitive::Stream(s) => Primitive::Dictionary(s.info.clone()),
                                    x => x.clone(),
                                };
                                let tag_hex = hex(tag.as_bytes());
                                let in_txt = show_plain(&inp_d);
                                if in_txt.contains(&format!("N{}", tag_hex)) && !p1.contains(&format!("N{}", tag_hex)) {
                                    or.fail(&format!("law2:{}:{}:tag-lost", c.ty, tag), &format!("{}: the input carries /{} but the written form does not: {} → {}", c.desc, tag, trunc(&in_txt), trunc(p1)), replay.clone());
                                }
                                let _ = &objs;
                            }
                        }
                        "unwritable" if !writable => {}
                        other => {
                            or.fail(&format!("law1:{}:{}:{}", c.ty, tag, other), &format!("{}: {}", c.desc, trunc(&ans)), replay.clone());
                        }
                    }
                }
            }
        }
    }
    // forms that are told apart by the kind of primitive, not by a tag (no table to extract): fixed list
    let mut rng = Rng::derive(seed, "c15.variant-sweep/forms", 0);
    let mut forms: Vec<SweepCase> = vec![];
    let pat = pd(&[("PaintType", int(1)), ("TilingType", int(1)), ("BBox", arr((0..4).map(|_| rand_number(&mut rng)).collect())), ("XStep", num(1.0)), ("YStep", num(2.0)), ("Resources", rf(7))]);
    forms.push(SweepCase { desc: "Pattern dictionary".into(), ty: "Pattern", input: SweepInput::Prim(pat, HashMap::new()) });
    forms.push(SweepCase { desc: "AppearanceStreamEntry dictionary of states".into(), ty: "AppearanceStreamEntry", input: SweepInput::Prim(pd(&[("On", pd(&[])), ("Off", pd(&[]))]), HashMap::new()) });
    {
        let mut streams = HashMap::new();
        streams.insert(10u64, (dict_of(&[("Type", name_prim("XObject")), ("Subtype", name_prim("Form")), ("BBox", arr(vec![num(0.0), num(0.0), num(1.0), num(1.0)]))]), b"q Q".to_vec()));
        forms.push(SweepCase { desc: "AppearanceStreamEntry single form".into(), ty: "AppearanceStreamEntry", input: SweepInput::Doc { objs: HashMap::new(), streams, target: 10 } });
    }
    {
        let mut streams = HashMap::new();
        streams.insert(11u64, (dict_of(&[("Type", name_prim("XObject")), ("Subtype", name_prim("Form")), ("BBox", arr(vec![num(0.0), num(0.0), num(1.0), num(1.0)]))]), b"q Q".to_vec()));
        let mut objs = HashMap::new();
        objs.insert(10u64, pd(&[("On", rf(11)), ("Off", pd(&[]))]));
        forms.push(SweepCase { desc: "AppearanceStreamEntry states referring to a form".into(), ty: "AppearanceStreamEntry", input: SweepInput::Doc { objs, streams, target: 10 } });
    }
    for base in ["StandardEncoding", "SymbolEncoding", "MacRomanEncoding", "WinAnsiEncoding", "MacExpertEncoding", "Identity-H", "None", "CustomEnc"] {
        forms.push(SweepCase { desc: format!("Encoding /{}", base), ty: "Encoding", input: SweepInput::Prim(name_prim(base), HashMap::new()) });
        forms.push(SweepCase { desc: format!("Encoding dictionary on /{}", base), ty: "Encoding", input: SweepInput::Prim(pd(&[("BaseEncoding", name_prim(base)), ("Differences", arr(vec![int(39), name_prim("A"), name_prim("B"), int(96), name_prim("Foo")]))]), HashMap::new()) });
    }
    forms.push(SweepCase { desc: "NumberTree leaf".into(), ty: "NumberTree<i32>", input: SweepInput::Prim(pd(&[("Nums", arr(vec![int(0), int(5), int(3), int(7)])), ("Limits", arr(vec![int(0), int(3)]))]), HashMap::new()) });
    forms.push(SweepCase { desc: "NumberTree intermediate".into(), ty: "NumberTree<i32>", input: SweepInput::Prim(pd(&[("Kids", arr(vec![rf(8), rf(9)]))]), HashMap::new()) });
    forms.push(SweepCase { desc: "MaybeNamedDest string".into(), ty: "MaybeNamedDest", input: SweepInput::Prim(str_prim(b"chapter1"), HashMap::new()) });
    for c in forms {
        let (ans, _, _, _) = sweep_real(&c);
        or.case(&c.desc, true, || json!({"case": c.desc, "answer": trunc(&ans)}));
        or.count(&format!("form:{}={}", c.ty, ans.split(' ').next().unwrap_or("")));
        let parts: Vec<&str> = ans.split(' ').collect();
        if parts[0] != "ok" || parts[1] != parts[2] {
            or.fail(&format!("law1:{}:form:{}", c.ty, if parts[0] == "ok" { "rewrite-differs" } else { parts[0] }), &format!("{}: {}", c.desc, trunc(&ans)), json!({"oracle": "c15.variant-sweep", "seed": seed, "case": c.desc}));
        }
    }
    or
}

pub fn run(driver: &Driver, seed: u64, thorough: bool, replay: Option<&serde_json::Value>) -> Report {
    let mut rep = Report::new("C15");
    let schemas = load_schemas();
    if !support::typed::EXTRACT_PROBLEMS.is_empty() {
        rep.notes.push(format!("translator problems at build time: {:?}", support::typed::EXTRACT_PROBLEMS));
    }
    rep.extra.insert("typed_models".into(), json!(TYPED_MODELS.iter().map(|m| m.0).collect::<Vec<_>>()));
    rep.extra.insert("untyped_models".into(), json!(support::typed::UNTYPED_MODELS.iter().map(|m| format!("{}: {}", m.0, m.1)).collect::<Vec<_>>()));
    if let Some(r) = replay {
        let seed = r["seed"].as_u64().unwrap_or(seed);
        let case = r["case"].as_u64().unwrap_or(0);
        match r["oracle"].as_str().or(r["stream"].as_str()).unwrap_or("") {
            "c15.law1.handwritten" => rep.oracles.push(oracle_handwritten(seed, case + 1, Some(case))),
            "c15.variant-sweep" => rep.oracles.push(oracle_variant_sweep(seed, r["round"].as_u64().unwrap_or(0) + 1)),
            "c15.value-side" => rep.oracles.push(value::oracle_value_side(&schemas, seed, 24, None)),
            "c15.stream-values" => rep.oracles.push(value::oracle_stream_values(&schemas, seed, false)),
            "c15.law" => {
                let m = r["model"].as_str().unwrap_or("").to_string();
                let (a, b) = oracle_laws(&schemas, seed, case + 1, Some((case, &m)));
                rep.oracles.push(a);
                rep.oracles.push(b);
            }
            _ => {
                rep.notes.push("replay of a correspondence case: the stored request can be piped to the model driver directly".into());
            }
        }
        return rep;
    }
    let k = if thorough { 150 } else { 1 };
    rep.streams.push(rt_models(driver, &schemas, seed, 60 * k, None));
    rep.streams.push(rt_containers(driver, &schemas, seed, 60 * k));
    rep.streams.push(f32_stream(driver, seed, 700 * k));
    rep.streams.push(rt_illtyped(driver, &schemas, seed, 12 * k));
    rep.streams.push(hw::hw_stream(driver, &schemas, seed, 120 * k));
    rep.streams.push(value::vw_stream(driver, &schemas, seed, 24 * k));
    rep.streams.push(writers::cs_stream(driver, seed, 600 * k));
    rep.streams.push(writers::pn_stream(driver, &schemas, seed, 300 * k));
    rep.streams.push(writers::font_stream(driver, seed, 40 * k));
    let (l1, l2) = oracle_laws(&schemas, seed, 60 * k, None);
    rep.oracles.push(l1);
    rep.oracles.push(l2);
    rep.oracles.push(oracle_handwritten(seed, 400 * k, None));
    rep.oracles.push(oracle_variant_sweep(seed, if thorough { 40 } else { 2 }));
    rep.oracles.push(value::oracle_value_side(&schemas, seed, 24 * k, None));
    rep.oracles.push(value::oracle_stream_values(&schemas, seed, thorough));
    rep
}
