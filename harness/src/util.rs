//! Shared helpers: error classification (root cause of a wrapped PdfError), panic capture.

use pdf::error::PdfError;

/// strip the wrappers (`Try`, `TryContext`, `Shared`, `FromPrimitive`) the library adds on the way up
pub fn err_root(e: &PdfError) -> &PdfError {
    match e {
        PdfError::Try { source, .. } => err_root(source),
        PdfError::Shared { source } => err_root(source),
        PdfError::FromPrimitive { source, .. } => err_root(source),
        _ => e,
    }
}

/// small enum used when comparing error *kinds*
pub fn err_class(e: &PdfError) -> &'static str {
    match err_root(e) {
        PdfError::FreeObject { .. } => "F",
        PdfError::NullRef { .. } => "N",
        PdfError::UnspecifiedXRefEntry { .. } => "U",
        PdfError::EOF => "EOF",
        PdfError::InvalidPassword => "BADPW",
        _ => "E",
    }
}

/// run `f`, mapping a panic to `Err(message)`; the default panic hook is silenced while it runs
pub fn no_panic<T>(f: impl FnOnce() -> T) -> Result<T, String> {
    std::panic::catch_unwind(std::panic::AssertUnwindSafe(f)).map_err(|e| {
        if let Some(s) = e.downcast_ref::<&str>() { s.to_string() }
        else if let Some(s) = e.downcast_ref::<String>() { s.clone() }
        else { "panic".to_string() }
    })
}

pub fn quiet_panics() {
    std::panic::set_hook(Box::new(|_| {}));
}

/// root of the repository under test (exported by ./check; /repo unless developing in a workspace)
pub fn repo_root() -> String {
    std::env::var("PDF_REPO").unwrap_or_else(|_| "/repo".to_string())
}
