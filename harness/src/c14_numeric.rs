//! Planted documents for the numeric dimension of C14: guard-derived values (`c14_guards.rs`) one at a
//! time, and *all pairs / triples* of the small value sets for fields that the code multiplies, adds or
//! compares with each other. Two kinds of documents:
//!   * encrypted documents (`crypt_docs`): a dictionary that a conforming writer would produce for the empty
//!     user password (so that opening reaches the key derivation, the password check and the decryption of
//!     strings and streams), with single entries / pairs of entries replaced by guard values;
//!   * dense documents (`dense_*`): one document holds a whole grid of hostile objects (streams with every
//!     combination of /DecodeParms, functions, fonts); they are walked with a larger object budget. Every
//!     stream of a grid is an image XObject, so each one is decoded through `Stream::data` (get::<Stream>),
//!     `ImageXObject::raw_image_data` / `image_data`, and one of them through the page's content operations.

use super::guards::*;
use super::plant::*;
use crate::c05::codecs::lzw_encode;
use crate::c06::doc::{ser_opt, DictFields};
use crate::c06::std_sec::*;
use crate::pdfwrite::{stream_body, zlib};
use crate::rng::Rng;

// ---------------------------------------------------------------------------------------------------
// encrypted documents

#[derive(Clone)]
pub struct CryptBase {
    pub name: &'static str,
    pub v: i64,
    pub r: u32,
    pub cipher: Cipher,
    /// key length in bytes for which the entries are computed
    pub n: usize,
}

pub fn crypt_bases() -> Vec<CryptBase> {
    vec![
        CryptBase { name: "R2-40", v: 1, r: 2, cipher: Cipher::Rc4, n: 5 },
        CryptBase { name: "R3-40", v: 2, r: 3, cipher: Cipher::Rc4, n: 5 },
        CryptBase { name: "R3-128", v: 2, r: 3, cipher: Cipher::Rc4, n: 16 },
        CryptBase { name: "R4-RC4-128", v: 4, r: 4, cipher: Cipher::Rc4, n: 16 },
        CryptBase { name: "R4-AES", v: 4, r: 4, cipher: Cipher::Aes128, n: 16 },
        CryptBase { name: "R5-AES256", v: 5, r: 5, cipher: Cipher::Aes256, n: 32 },
        CryptBase { name: "R6-AES256", v: 5, r: 6, cipher: Cipher::Aes256, n: 32 },
    ]
}

pub struct CryptDoc {
    pub fields: DictFields,
    pub id0: Vec<u8>,
    pub file_key: Vec<u8>,
    pub cipher: Cipher,
}

/// the dictionary of a conforming writer for the empty user password
pub fn crypt_base_fields(b: &CryptBase) -> CryptDoc {
    let id0: Vec<u8> = (0..16u8).map(|i| i.wrapping_mul(17).wrapping_add(3)).collect();
    let params = Params { r: b.r, n: b.n, cipher: b.cipher, p: -44, id0: id0.clone(), encrypt_metadata: true };
    let mut src = Rng::derive(7, "c14.crypt.entries", b.n as u64 + 100 * b.r as u64);
    let mut rnd = |k: usize| src.bytes(k);
    let e = make_entries(&mut Rec::off(), &params, b"", b"owner", &mut rnd);
    let mut f = DictFields { o: e.o.clone(), u: e.u.clone(), r: b.r as i64, p: -44, v: b.v, ..Default::default() };
    match b.v {
        1 => {}
        2 => f.bits = Some(8 * b.n as i64),
        4 => {
            f.bits = Some(8 * b.n as i64);
            f.cf.push(("StdCF".into(), Some(if b.cipher == Cipher::Rc4 { "V2" } else { "AESV2" }.to_string()), Some(b.n as i64), true, false));
            f.stm_f = Some("StdCF".into());
            f.str_f = Some("StdCF".into());
        }
        _ => {
            f.bits = Some(256);
            f.cf.push(("StdCF".into(), Some("AESV3".into()), Some(32), true, false));
            f.stm_f = Some("StdCF".into());
            f.str_f = Some("StdCF".into());
        }
    }
    if b.r >= 5 {
        f.oe = Some(e.oe.clone());
        f.ue = Some(e.ue.clone());
        f.perms = Some(e.perms.clone());
    }
    CryptDoc { fields: f, id0, file_key: e.file_key, cipher: b.cipher }
}

/// catalog, page tree, a page with an encrypted content stream and an encrypted string, the encryption
/// dictionary as object 6
pub fn crypt_document(c: &CryptDoc, desc: String, v: Variant) -> Planted {
    let mut quiet = Rec::off();
    let iv = [9u8; 16];
    let content = encrypt_object(&mut quiet, c.cipher, &c.file_key, 4, 0, b"BT /F1 12 Tf (hi) Tj ET", &iv);
    let lang = encrypt_object(&mut quiet, c.cipher, &c.file_key, 1, 0, b"en-GB", &iv);
    let hexs = |b: &[u8]| format!("<{}>", b.iter().map(|x| format!("{:02x}", x)).collect::<String>());
    let mut enc = vec![];
    ser_opt(&c.fields.to_pv(), &mut |s: &[u8]| s.to_vec(), &mut Rng::new(1), &mut enc, true);
    let objs: Vec<(u64, Vec<u8>)> = vec![
        (1, format!("<< /Type /Catalog /Pages 2 0 R /Lang {} >>", hexs(&lang)).into_bytes()),
        (2, b"<< /Type /Pages /Kids [3 0 R] /Count 1 /MediaBox [0 0 10 10] >>".to_vec()),
        (3, b"<< /Type /Page /Parent 2 0 R /Resources << >> /Contents 4 0 R >>".to_vec()),
        (4, stream_body("", &content)),
        (6, enc),
    ];
    let id = hexs(&c.id0);
    let bytes = build_doc_as(&objs, &format!("/Root 1 0 R /Encrypt 6 0 R /ID [{} {}]", id, id), Variant { compressed: false, ..v });
    Planted { frag: "crypt-guards", desc, bytes }
}

fn resize(b: &[u8], len: usize) -> Vec<u8> {
    let mut v = b.to_vec();
    v.resize(len, 0x5a);
    v
}

/// every entry of the encryption dictionary at its guard values (one at a time per base dictionary), and
/// the entries that are combined by the code crossed: V × R, Length × R, CFM × CF /Length × V × R, |U| × R
pub fn crypt_docs(thorough: bool) -> Vec<Planted> {
    crypt_cases(thorough).into_iter().enumerate().map(|(i, (desc, c))| {
        let v = if i % 2 == 0 { PLAIN } else { Variant { prefix: 13, compressed: false } };
        crypt_document(&c, desc, v)
    }).collect()
}

/// the dictionaries behind `crypt_docs` (also the cases of the `c14.crypt` correspondence stream)
pub fn crypt_cases(thorough: bool) -> Vec<(String, CryptDoc)> {
    let mut out: Vec<(String, CryptDoc)> = vec![];
    let bases = crypt_bases();
    let cfms = ["None", "V2", "AESV2", "AESV3"];
    for b in bases.iter() {
        let base = crypt_base_fields(b);
        let mut put = |what: String, edit: &dyn Fn(&mut DictFields)| {
            let mut c = CryptDoc { fields: base.fields.clone(), id0: base.id0.clone(), file_key: base.file_key.clone(), cipher: base.cipher };
            edit(&mut c.fields);
            out.push((format!("crypt-guards[{} {}]", b.name, what), c));
        };
        put("unchanged".into(), &|_| {});
        // ---- one at a time
        for x in values("crypt.Length") {
            put(format!("Length={}", x), &|f| f.bits = Some(x));
            // the key length of the dictionary also when the crypt filter does not state one
            if b.v >= 4 {
                put(format!("Length={} no CF Length", x), &|f| { f.bits = Some(x); for cf in f.cf.iter_mut() { cf.2 = None; } });
            }
        }
        put("no Length".into(), &|f| f.bits = None);
        for x in values("crypt.V") {
            put(format!("V={}", x), &|f| f.v = x);
        }
        for x in values("crypt.R") {
            put(format!("R={}", x), &|f| f.r = x);
        }
        for x in [-1i64, 0, 1, -44, -3904, 2147483647, -2147483648] {
            put(format!("P={}", x), &|f| f.p = x);
        }
        for len in values("crypt.U.len").into_iter().filter(|l| (0..=64).contains(l)) {
            put(format!("|U|={}", len), &|f| f.u = resize(&f.u, len as usize));
            put(format!("|O|={}", len), &|f| f.o = resize(&f.o, len as usize));
        }
        for len in values("crypt.UE.len").into_iter().filter(|l| (0..=64).contains(l)) {
            put(format!("|UE|={}", len), &|f| f.ue = Some(resize(f.ue.as_deref().unwrap_or(&[]), len as usize)));
            put(format!("|OE|={}", len), &|f| f.oe = Some(resize(f.oe.as_deref().unwrap_or(&[]), len as usize)));
        }
        put("no UE".into(), &|f| f.ue = None);
        put("no OE".into(), &|f| f.oe = None);
        put("EncryptMetadata false".into(), &|f| f.encrypt_metadata = Some(false));
        put("no StmF".into(), &|f| f.stm_f = None);
        put("StmF unknown".into(), &|f| f.stm_f = Some("Other".into()));
        put("StmF Identity".into(), &|f| f.stm_f = Some("Identity".into()));
        put("no CF".into(), &|f| f.cf.clear());
        // ---- crossed
        for vv in cross_values("crypt.V") {
            for rr in cross_values("crypt.R") {
                put(format!("V={} R={}", vv, rr), &|f| { f.v = vv; f.r = rr; });
            }
        }
        for rr in [2i64, 3, 4, 5] {
            for x in if thorough { values("crypt.Length") } else { cross_values("crypt.Length") } {
                put(format!("R={} Length={}", rr, x), &|f| { f.r = rr; f.bits = Some(x); });
            }
            for len in [0usize, 15, 16, 17, 31, 32, 33, 48] {
                put(format!("R={} |U|={}", rr, len), &|f| { f.r = rr; f.u = resize(&f.u, len); });
            }
        }
        if b.v >= 4 {
            for cfm in cfms {
                for x in values("crypt.CF.Length") {
                    for (vv, rr) in [(4i64, 4i64), (4, 3), (5, 4), (5, 5), (5, 6), (4, 2)] {
                        if !thorough && (vv, rr) != (b.v, b.r as i64) && !(x == 17 || x == 32 || x == 536870912) { continue; }
                        put(format!("CFM={} CF.Length={} V={} R={}", cfm, x, vv, rr), &|f| {
                            f.v = vv;
                            f.r = rr;
                            for cf in f.cf.iter_mut() { cf.1 = Some(cfm.to_string()); cf.2 = Some(x); }
                        });
                    }
                }
            }
        }
    }
    out
}

// ---------------------------------------------------------------------------------------------------
// dense documents: grids of hostile objects

/// a document whose objects 10.. are `bodies`; the page's contents are object 10
pub fn dense_doc(name: &'static str, desc: String, bodies: Vec<Vec<u8>>, res: &str) -> Planted {
    let mut objs: Vec<(u64, Vec<u8>)> = vec![
        (1, b"<< /Type /Catalog /Pages 2 0 R >>".to_vec()),
        (2, b"<< /Type /Pages /Kids [3 0 R] /Count 1 /MediaBox [0 0 10 10] >>".to_vec()),
        (3, format!("<< /Type /Page /Parent 2 0 R /Resources << {} >> /Contents 10 0 R >>", res).into_bytes()),
    ];
    for (i, b) in bodies.into_iter().enumerate() {
        objs.push((10 + i as u64, b));
    }
    Planted { frag: name, desc, bytes: build_doc(&objs, "/Root 1 0 R") }
}

pub const DENSE_OBJECTS: u64 = 400;

/// Flate / LZW streams with every combination of the small value sets of Predictor × Colors ×
/// BitsPerComponent × Columns (and EarlyChange for LZW): one document per (filter, predictor, colors), the
/// grid BitsPerComponent × Columns inside
pub fn predictor_docs(thorough: bool) -> Vec<Planted> {
    let mut out = vec![];
    // two rows of 5 bytes: a tag byte that is a valid PNG filter type, then four bytes
    let payload: Vec<u8> = vec![1, 10, 20, 30, 40, 2, 1, 2, 3, 4];
    let filters: Vec<(&str, Vec<u8>, Vec<i64>)> = vec![
        ("FlateDecode", zlib(&payload), vec![1]),
        // (quick tier: the grid under EarlyChange 1 only; the other values are in the one-at-a-time sweep)
        ("LZWDecode", lzw_encode(&payload, true, None), if thorough { cross_values("enc.EarlyChange") } else { vec![1] }),
    ];
    for (fname, data, earlies) in &filters {
        for early in earlies {
            for pred in cross_values("enc.Predictor") {
                for colors in cross_values("enc.Colors") {
                    let mut bodies = vec![];
                    for bpc in cross_values("enc.BitsPerComponent") {
                        for columns in cross_values("enc.Columns") {
                            let parms = format!("/Predictor {} /Colors {} /BitsPerComponent {} /Columns {} /EarlyChange {}", pred, colors, bpc, columns, early);
                            bodies.push(stream_body(&format!("/Type /XObject /Subtype /Image /Width 1 /Height 1 /BitsPerComponent 8 /ColorSpace /DeviceGray /Filter /{} /DecodeParms << {} >>", fname, parms), data));
                        }
                    }
                    out.push(dense_doc("predictor-grid", format!("predictor-grid[{} EarlyChange={} Predictor={} Colors={} × BitsPerComponent × Columns]", fname, early, pred, colors), bodies, ""));
                }
            }
        }
    }
    // the one-at-a-time sweep with the large values, per predictor kind
    for (fname, data, _) in &filters {
        for pred in [2i64, 10, 12, 15] {
            let mut bodies = vec![];
            for (field, key) in [("enc.Colors", "Colors"), ("enc.BitsPerComponent", "BitsPerComponent"), ("enc.Columns", "Columns"), ("enc.Predictor", "Predictor"), ("enc.EarlyChange", "EarlyChange")] {
                for t in texts(field) {
                    let parms: Vec<String> = [("Predictor", pred.to_string()), ("Colors", "1".to_string()), ("BitsPerComponent", "8".to_string()), ("Columns", "4".to_string()), ("EarlyChange", "1".to_string())]
                        .iter().map(|(k, dflt)| format!("/{} {}", k, if *k == key { &t } else { dflt })).collect();
                    bodies.push(stream_body(&format!("/Type /XObject /Subtype /Image /Width 1 /Height 1 /BitsPerComponent 8 /ColorSpace /DeviceGray /Filter /{} /DecodeParms << {} >>", fname, parms.join(" ")), data));
                }
            }
            out.push(dense_doc("predictor-grid", format!("predictor-sweep[{} Predictor={}]", fname, pred), bodies, ""));
        }
    }
    out
}

/// CCITT: K × Columns × Rows
pub fn ccitt_docs() -> Vec<Planted> {
    let mut out = vec![];
    for k in cross_values("enc.K") {
        let mut bodies = vec![];
        for columns in values("enc.CCITT.Columns") {
            for rows in values("enc.CCITT.Rows") {
                // `image_data` compares /Width with /Columns before it decodes: both are given the same value
                // (and once a fixed width, for the comparison itself)
                let width = if (0..=2147483647).contains(&columns) { columns } else { 8 };
                bodies.push(stream_body(&format!("/Type /XObject /Subtype /Image /Width {} /Height 1 /BitsPerComponent 1 /ImageMask true /Filter /CCITTFaxDecode /DecodeParms << /K {} /Columns {} /Rows {} >>", width, k, columns, rows), &[0x80, 0x00, 0x10, 0x01]));
                if rows == 0 {
                    bodies.push(stream_body(&format!("/Type /XObject /Subtype /Image /Width 8 /Height 1 /BitsPerComponent 1 /ImageMask true /Filter /CCITTFaxDecode /DecodeParms << /K {} /Columns {} >>", k, columns), &[0x80, 0x00, 0x10, 0x01]));
                }
            }
        }
        out.push(dense_doc("ccitt-grid", format!("ccitt-grid[K={} × Columns × Rows]", k), bodies, ""));
    }
    out
}

/// function objects: FunctionType, /Size entries, /BitsPerSample, /Order and the lengths of the arrays
pub fn function_docs() -> Vec<Planted> {
    let mut out = vec![];
    let arr = |n: i64| -> String { format!("[{}]", (0..n.max(0)).map(|i| format!("{}.0", i % 2)).collect::<Vec<_>>().join(" ")) };
    let lens = [0i64, 1, 2, 3, 4, 5];
    // type 2: Domain × Range × C0 × C1 lengths
    let mut bodies = vec![];
    for d in lens { for r in [-1i64, 0, 1, 2, 4] { for c in [-1i64, 0, 1, 3] {
        let range = if r < 0 { String::new() } else { format!("/Range {}", arr(r)) };
        let c0 = if c < 0 { String::new() } else { format!("/C0 {} /C1 {}", arr(c), arr(c + 1)) };
        bodies.push(format!("<< /FunctionType 2 /Domain {} {} {} /N 1.0 >>", arr(d), range, c0).into_bytes());
    } } }
    out.push(dense_doc("function-grid", "function-grid[type 2: |Domain| × |Range| × |C0|]".into(), bodies, ""));
    // type 4: Domain × Range lengths × programs that leave 0..3 values
    let mut bodies = vec![];
    for d in lens { for r in [-1i64, 0, 1, 2, 3, 4] { for prog in ["{ }", "{ pop }", "{ dup }", "{ dup dup }", "{ 1 2 3 3 1 roll }"] {
        let range = if r < 0 { String::new() } else { format!("/Range {}", arr(r)) };
        bodies.push(stream_body(&format!("/FunctionType 4 /Domain {} {}", arr(d), range), prog.as_bytes()));
    } } }
    out.push(dense_doc("function-grid", "function-grid[type 4: |Domain| × |Range| × program]".into(), bodies, ""));
    // type 0: Size entries × number of inputs × Order × BitsPerSample, and Encode / Decode lengths
    for n_in in [1i64, 2, 3] {
        let mut bodies = vec![];
        for size in values("function.Size").into_iter().filter(|s| *s >= -1) {
            for order in values("function.Order").into_iter().filter(|o| (-1..=5).contains(o)) {
                for bps in [0i64, 1, 8, 16, 32, 33] {
                    let sizes = format!("[{}]", (0..n_in).map(|_| size.to_string()).collect::<Vec<_>>().join(" "));
                    bodies.push(stream_body(&format!("/FunctionType 0 /Domain {} /Range [0.0 1.0] /Size {} /Order {} /BitsPerSample {}", arr(2 * n_in), sizes, order, bps), &[1, 2, 3, 4, 5, 6, 7, 8]));
                }
            }
        }
        for e in lens { for dlen in lens { for size_len in [0i64, 1, 2, 3] {
            let sizes = format!("[{}]", (0..size_len).map(|_| "2").collect::<Vec<_>>().join(" "));
            bodies.push(stream_body(&format!("/FunctionType 0 /Domain {} /Range [0.0 1.0 0.0 1.0] /Size {} /Encode {} /Decode {} /BitsPerSample 8", arr(2 * n_in), sizes, arr(e), arr(dlen)), &[1, 2, 3, 4, 5, 6, 7, 8]));
        } } }
        out.push(dense_doc("function-grid", format!("function-grid[type 0, {} inputs: Size × Order × BitsPerSample; |Encode| × |Decode| × |Size|]", n_in), bodies, ""));
    }
    let mut bodies = vec![];
    for t in texts("function.FunctionType") {
        bodies.push(format!("<< /FunctionType {} /Domain [0.0 1.0] /Range [0.0 1.0] /N 1.0 >>", t).into_bytes());
        bodies.push(stream_body(&format!("/FunctionType {} /Domain [0.0 1.0] /Range [0.0 1.0] /Size [2] /BitsPerSample 8", t), b"{ }"));
    }
    out.push(dense_doc("function-grid", "function-grid[FunctionType]".into(), bodies, ""));
    out
}

/// fonts: /W entries with every pair of CID guard values in both forms, /FirstChar × /LastChar × |Widths|
pub fn font_docs() -> Vec<Planted> {
    let mut out = vec![];
    let cids: Vec<i64> = values("font.W.cid").into_iter().filter(|c| *c >= -1 && *c <= 4294967295).collect();
    let mut bodies = vec![];
    let cid_font = |w: String| -> Vec<u8> {
        format!("<< /Type /Font /Subtype /CIDFontType2 /BaseFont /Leaf /CIDSystemInfo << >> /FontDescriptor << /Type /FontDescriptor /FontName /Leaf /Flags 4 /FontBBox [0 0 1 1] /ItalicAngle 0 >> /W {} >>", w).into_bytes()
    };
    for c1 in &cids {
        for c2 in &cids {
            bodies.push(cid_font(format!("[{} {} 500.0]", c1, c2)));
        }
        for len in [0usize, 1, 2, 3] {
            bodies.push(cid_font(format!("[{} [{}]]", c1, vec!["500.0"; len].join(" "))));
        }
        bodies.push(cid_font(format!("[1 [500.0] {} [600.0] 0 0 700.0]", c1)));
    }
    out.push(dense_doc("font-grid", "font-grid[/W: c1 × c2, c1 × array length]".into(), bodies, ""));
    let mut bodies = vec![];
    for first in values("font.FirstChar").into_iter().filter(|c| *c >= -1) {
        for last in [-1i64, 0, 31, 32, 33, 255] {
            for n in [0usize, 1, 2] {
                bodies.push(format!("<< /Type /Font /Subtype /TrueType /BaseFont /S /FirstChar {} /LastChar {} /Widths [{}] >>", first, last, vec!["500.0"; n].join(" ")).into_bytes());
            }
        }
    }
    out.push(dense_doc("font-grid", "font-grid[FirstChar × LastChar × |Widths|]".into(), bodies, ""));
    out
}

/// object streams and cross-reference streams: pairs of the fields that are added / multiplied / compared
pub fn layout_docs() -> Vec<Planted> {
    let mut out = vec![];
    let mem = [(20u64, 10u64, 0u64), (21, 10, 1)];
    let spec = |n: &str, first: &str, o0: &str, o1: &str| ObjStmSpec { n: n.into(), first: first.into(), header: format!("20 {} 21 {} ", o0, o1), body: b"11 [22] ".to_vec(), extends: None };
    let t = |f: &str| -> Vec<String> { values(f).into_iter().filter(|v| *v >= -1).map(|v| v.to_string()).collect() };
    for n in t("objstm.N") {
        for first in t("objstm.First") {
            out.push(Planted { frag: "objstm", desc: format!("objstm-pairs[N={} First={}]", n, first), bytes: objstm_doc_at(0, &spec(&n, &first, "0", "3"), None, &mem, None, None) });
        }
    }
    for first in t("objstm.First") {
        for o1 in t("objstm.offset") {
            out.push(Planted { frag: "objstm", desc: format!("objstm-pairs[First={} offset1={}]", first, o1), bytes: objstm_doc_at(13, &spec("2", &first, "0", &o1), None, &mem, None, None) });
        }
    }
    for o0 in t("objstm.offset") {
        for o1 in t("objstm.offset") {
            out.push(Planted { frag: "objstm", desc: format!("objstm-pairs[offset0={} offset1={}]", o0, o1), bytes: objstm_doc_at(0, &spec("2", "10", &o0, &o1), None, &mem, None, None) });
        }
    }
    // /W triples (their sum is the entry length) and count × width
    let ws: Vec<String> = cross_values("xref.W").into_iter().filter(|v| *v >= 0).map(|v| v.to_string()).collect();
    for a in &ws { for b in &ws { for c in &ws {
        out.push(Planted { frag: "xref-stream", desc: format!("xref-W[{} {} {}]", a, b, c), bytes: xref_stream_doc_at(0, [a.as_str(), b.as_str(), c.as_str()], None, "5", [1, 4, 2], 0, None) });
    } } }
    for cnt in t("xref.Index.count") {
        for w in &ws {
            out.push(Planted { frag: "xref-stream", desc: format!("xref-count[count={} W=1 {} 2]", cnt, w), bytes: xref_stream_doc_at(13, ["1", w.as_str(), "2"], Some(&format!("0 {}", cnt)), "5", [1, 4, 2], 0, None) });
        }
    }
    for size in texts("xref.Size") {
        out.push(Planted { frag: "xref-stream", desc: format!("xref-Size[{}]", size), bytes: xref_stream_doc_at(0, ["1", "4", "2"], None, &size, [1, 4, 2], 0, None) });
    }
    out
}
