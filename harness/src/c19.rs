//! C19 — glyph widths and Unicode maps follow the font dictionaries exactly.
//!
//! Correspondence streams (model = lean/PdfModel/Model/{Widths,CMap}.lean):
//!   c19.w.exhaustive   every sequence of ≤ 2 (quick; + a sample of 3) / ≤ 3 (thorough) groups over the codes
//!                      0..4 (runs `c [w…]` of length 0..2, ranges `c1 c2 w` with c1 ≤ c2), in-memory CID font,
//!                      all codes 0..7 queried; only the sequences with pairwise disjoint ranges     in domain
//!   c19.w.disjoint     random well-formed /W arrays, disjoint groups anywhere in 0..65535, any order, integer
//!                      and real widths, every boundary ±1 queried; in-memory CID font               in domain
//!   c19.w.file         the same through generated real files: CIDFontType2/0 object, directly and as the
//!                      descendant of a Type0 font, inner arrays in place or as references, uncached/cached
//!                                                                                                   in domain
//!   c19.w.any          overlapping groups (last assignment wins in the model)                       drift only
//!   c19.w.outside      malformed arrays (missing width, non-numbers, negative / reversed / out-of-range codes)
//!                                                                                                   drift only
//!   c19.simple         Type1/TrueType: FirstChar 0..255, /Widths of any length or absent            in domain
//!   c19.simple.outside negative / huge FirstChar                                                    drift only
//!   c19.fontw          `Font::widths` by subtype: Type1 / TrueType with /FirstChar /LastChar /Widths and the
//!                      descriptor's /MissingWidth (in memory and through generated files), MMType1 / Type3 (nothing
//!                      reported), Type0 over nothing / a CID font / a Type0 over a CID font                in domain
//!   c19.diff           /Encoding /Differences arrays (groups `code name…`, any order, overlapping; in memory, in a
//!                      font of a generated file, directly or by reference) → the glyph name of every boundary code
//!                                                                                                   in domain
//!   c19.diffwrite      `Encoding::to_primitive` of random maps: the array written vs the model's, and read back
//!                                                                                                   in domain
//!   c19.diff.outside   arrays with other primitives / a negative code                               drift only
//!   c19.cmap.write     random maps u16 → non-empty strings (BMP + supplementary planes; runs, singletons, the
//!                      ends of the code range): `write_cmap` text vs model text, and the text read back by
//!                      `Font::to_unicode` vs the model reader                                       in domain
//!   c19.cmap.parse     conformant CMap programs from a generator: PostScript header / trailer, `usecmap`, codespace
//!                      ranges, dictionaries, literal strings, counts, any number and order of blocks, comments ended by
//!                      LF or CR anywhere, all six white-space characters (also inside hexadecimal strings), digits in
//!                      either case, 1- and 2-byte codes, bfchar, both bfrange forms, text after `endcmap`
//!                                                                                                   in domain
//!   c19.cmap.conf      domain certificate: every program of c19.cmap.parse with the entries the generator meant is sent to
//!                      the driver's sound checker for `CMapSpells` (must answer 1); seven non-spellings must get 0  in domain
//!   c19.cmap.file      the same through a /ToUnicode stream of a font in a generated file (Flate or plain)
//!                                                                                                   in domain
//!   c19.cmap.outside   damaged programs (bytes replaced, truncated, unpaired surrogates, odd digits, long
//!                      codes, empty strings, range overflowing the last byte, short arrays)         drift only
//! Oracles (implementation against the property's own statement, independent of the model):
//!   c19.width          width of every queried code = the one its group assigns, else the default
//!   c19.roundtrip      `to_unicode(write_cmap(m)) == m`
//!   c19.cmapspec       every code of a conformant program maps to the text the specification defines
//!   c19.encoding       glyph name of every code = that of the last group naming it; written maps read back equal
//!   c19.regress        deterministic witnesses of the repaired defects D39 and D33 (font part); the two
//!                      D33 loops run in a child process with a time and memory limit

use crate::driver::{hex, Driver};
use crate::pdfwrite::*;
use crate::report::*;
use crate::rng::Rng;
use crate::util::*;
use pdf::file::FileOptions;
use pdf::font::{write_cmap, CIDFont, Font, FontData, FontDescriptor, FontType, TFont, ToUnicodeMap, Type0Font};
use pdf::object::{MaybeRef, NoResolve, PlainRef, RcRef, Rectangle, Ref, Resolve, Stream as PdfStreamObj};
use pdf::primitive::{Dictionary, Name, Primitive};
use serde_json::json;
use std::collections::BTreeMap;
use std::sync::Arc;

// ---------------------------------------------------------------------------------------------------
// /W arrays

#[derive(Clone, Debug)]
enum Num {
    Int(i32),
    /// text as written (always with a fraction) and its value
    Real(String, f32),
}

impl Num {
    fn bits(&self) -> u32 {
        match self {
            Num::Int(i) => (*i as f32).to_bits(),
            Num::Real(_, f) => f.to_bits(),
        }
    }
    fn text(&self) -> String {
        match self {
            Num::Int(i) => i.to_string(),
            Num::Real(t, _) => t.clone(),
        }
    }
    fn prim(&self) -> Primitive {
        match self {
            Num::Int(i) => Primitive::Integer(*i),
            Num::Real(_, f) => Primitive::Number(*f),
        }
    }
    fn req(&self) -> String {
        match self {
            Num::Int(i) => format!("i{}:{}", i, self.bits()),
            Num::Real(_, _) => format!("r{}", self.bits()),
        }
    }
}

#[derive(Clone, Debug)]
enum Elem {
    Num(Num),
    /// a name inside a width list
    Other,
}

#[derive(Clone, Debug)]
enum Item {
    Num(Num),
    Arr(Vec<Elem>),
    /// reference to an array object (file mode) — in memory: a reference that does not resolve
    RefArr(Vec<Elem>),
    RefOther,
    Other,
}

fn elem_req(e: &Elem) -> String {
    match e {
        Elem::Num(n) => n.req(),
        Elem::Other => "O".into(),
    }
}

fn items_req(items: &[Item], in_memory: bool) -> String {
    if items.is_empty() {
        return "-".into();
    }
    items
        .iter()
        .map(|it| match it {
            Item::Num(n) => n.req(),
            Item::Arr(xs) => format!("[{}]", xs.iter().map(elem_req).collect::<Vec<_>>().join(";")),
            Item::RefArr(xs) => if in_memory { "X".to_string() } else { format!("{{{}}}", xs.iter().map(elem_req).collect::<Vec<_>>().join(";")) },
            Item::RefOther => "X".into(),
            Item::Other => "O".into(),
        })
        .collect::<Vec<_>>()
        .join(",")
}

fn items_prims(items: &[Item]) -> Vec<Primitive> {
    let el = |e: &Elem| match e {
        Elem::Num(n) => n.prim(),
        Elem::Other => Primitive::Name("Fnord".into()),
    };
    items
        .iter()
        .map(|it| match it {
            Item::Num(n) => n.prim(),
            Item::Arr(xs) => Primitive::Array(xs.iter().map(el).collect()),
            Item::RefArr(_) | Item::RefOther => Primitive::Reference(PlainRef { id: 999, gen: 0 }),
            Item::Other => Primitive::Name("Fnord".into()),
        })
        .collect()
}

#[derive(Clone, Debug)]
enum Group {
    Run { c1: u32, by_ref: bool, xs: Vec<Num> },
    Range { c1: u32, c2: u32, w: Num },
}

impl Group {
    fn span(&self) -> (u32, u32) {
        // [lo, hi) of the codes assigned
        match self {
            Group::Run { c1, xs, .. } => (*c1, *c1 + xs.len() as u32),
            Group::Range { c1, c2, .. } => (*c1, (*c2 + 1).max(*c1)),
        }
    }
    fn items(&self) -> Vec<Item> {
        match self {
            Group::Run { c1, by_ref, xs } => {
                let es = xs.iter().cloned().map(Elem::Num).collect();
                vec![Item::Num(Num::Int(*c1 as i32)), if *by_ref { Item::RefArr(es) } else { Item::Arr(es) }]
            }
            Group::Range { c1, c2, w } => vec![Item::Num(Num::Int(*c1 as i32)), Item::Num(Num::Int(*c2 as i32)), Item::Num(w.clone())],
        }
    }
}

fn disjoint(gs: &[Group]) -> bool {
    let mut sp: Vec<(u32, u32)> = gs.iter().map(|g| g.span()).filter(|(a, b)| b > a).collect();
    sp.sort();
    sp.windows(2).all(|w| w[0].1 <= w[1].0)
}

/// the property's oracle: the width the array assigns (groups applied in order), else the default
fn oracle_width(gs: &[Group], dw: u32, code: usize) -> u32 {
    let mut r = dw;
    for g in gs {
        match g {
            Group::Run { c1, xs, .. } => {
                let c1 = *c1 as usize;
                if code >= c1 && code < c1 + xs.len() {
                    r = xs[code - c1].bits();
                }
            }
            Group::Range { c1, c2, w } => {
                if code >= *c1 as usize && code <= *c2 as usize {
                    r = w.bits();
                }
            }
        }
    }
    r
}

fn rand_num(rng: &mut Rng, tag: &mut u32) -> Num {
    *tag += 1;
    match rng.below(4) {
        0 => Num::Int(*tag as i32),
        1 => Num::Int(-(*tag as i32)),
        2 => { let t = format!("{}.5", tag); let f = t.parse::<f32>().unwrap(); Num::Real(t, f) }
        _ => { let t = format!("-{}.25", tag); let f = t.parse::<f32>().unwrap(); Num::Real(t, f) }
    }
}

fn descriptor() -> FontDescriptor {
    FontDescriptor {
        font_name: Name::from("Verif"),
        font_family: None,
        font_stretch: None,
        font_weight: None,
        flags: 4,
        font_bbox: Rectangle { left: 0.0, bottom: 0.0, right: 1000.0, top: 1000.0 },
        italic_angle: 0.0,
        ascent: None,
        descent: None,
        leading: 0.0,
        cap_height: None,
        xheight: 0.0,
        stem_v: 0.0,
        stem_h: 0.0,
        avg_width: 0.0,
        max_width: 0.0,
        missing_width: 0.0,
        font_file: None,
        font_file2: None,
        font_file3: None,
        char_set: None,
    }
}

fn mem_cid_font(dw: f32, w: Vec<Primitive>, type0: bool) -> Font {
    let cid = Font {
        subtype: FontType::CIDFontType2,
        name: Some(Name::from("Verif")),
        data: FontData::CIDFontType2(CIDFont { system_info: Dictionary::new(), font_descriptor: descriptor(), default_width: dw, widths: w, cid_to_gid_map: None, _other: Dictionary::new() }),
        encoding: None,
        to_unicode: None,
        _other: Dictionary::new(),
    };
    if !type0 {
        return cid;
    }
    Font {
        subtype: FontType::Type0,
        name: Some(Name::from("Verif")),
        data: FontData::Type0(Type0Font { descendant_fonts: vec![MaybeRef::from(cid)], to_unicode: None }),
        encoding: None,
        to_unicode: None,
        _other: Dictionary::new(),
    }
}

fn show_widths(font: &Font, resolve: &impl Resolve, codes: &[usize]) -> String {
    match font.widths(resolve) {
        Ok(Some(w)) => format!("ok {}", codes.iter().map(|&c| w.get(c).to_bits().to_string()).collect::<Vec<_>>().join(",")),
        Ok(None) => "none".into(),
        Err(_) => "err".into(),
    }
}

fn real_w_mem(dw: f32, items: &[Item], type0: bool, codes: &[usize]) -> String {
    let prims = items_prims(items);
    match no_panic(|| {
        let f = mem_cid_font(dw, prims, type0);
        show_widths(&f, &NoResolve, codes)
    }) {
        Ok(s) => s,
        Err(_) => "panic".into(),
    }
}

fn codes_req(codes: &[usize]) -> String {
    if codes.is_empty() { "-".into() } else { codes.iter().map(|c| c.to_string()).collect::<Vec<_>>().join(",") }
}

const FD_BODY: &str = "<< /Type /FontDescriptor /FontName /Verif /Flags 4 /FontBBox [0 0 1000 1000] /ItalicAngle 0 >>";

/// a file holding the font (object 4; Type0 wrapper = object 3 when `type0`); returns (bytes, font object number)
fn font_file(rng: &mut Rng, font_body_of: impl Fn(&mut Vec<(u64, Vec<u8>)>, &mut u64) -> String, type0: bool, to_unicode: Option<(&[u8], bool)>) -> (Vec<u8>, u64) {
    let mut objs: Vec<(u64, Vec<u8>)> = vec![];
    let mut next = 10u64;
    objs.push((1, b"<< /Type /Catalog /Pages 2 0 R >>".to_vec()));
    objs.push((2, b"<< /Type /Pages /Kids [] /Count 0 >>".to_vec()));
    objs.push((5, FD_BODY.as_bytes().to_vec()));
    let body = font_body_of(&mut objs, &mut next);
    objs.push((4, body.into_bytes()));
    let mut tu = String::new();
    let mut tu_stream: Option<(u64, Vec<u8>)> = None;
    if let Some((data, flate)) = to_unicode {
        let id = next;
        next += 1;
        tu = format!(" /ToUnicode {} 0 R", id);
        let body = if flate { stream_body("/Filter /FlateDecode", &zlib(data)) } else { stream_body("", data) };
        tu_stream = Some((id, body));
    }
    let font_id = if type0 {
        objs.push((3, format!("<< /Type /Font /Subtype /Type0 /BaseFont /Verif /Encoding /Identity-H /DescendantFonts [4 0 R]{} >>", tu).into_bytes()));
        3
    } else {
        4
    };
    rng.shuffle(&mut objs);
    let mut w = PdfWriter::new(b"", "1.7");
    w.free(0, 0, 65535);
    if rng.chance(1, 2) {
        let (packed, direct): (Vec<_>, Vec<_>) = objs.into_iter().partition(|(id, _)| id % 2 == 0 && *id != 2);
        for (id, b) in &direct {
            w.object(*id, 0, b);
        }
        if let Some((id, b)) = &tu_stream {
            w.object(*id, 0, b);
        }
        let mut top = next;
        if !packed.is_empty() {
            w.object_stream(top, &packed, StmFilter::Flate, b"\n", "");
            top += 1;
        }
        w.finish(XrefFormat::Stream, top + 1, "/Root 1 0 R", &[], top);
    } else {
        for (id, b) in &objs {
            w.object(*id, 0, b);
        }
        if let Some((id, b)) = &tu_stream {
            w.object(*id, 0, b);
        }
        w.finish(XrefFormat::Classic, next, "/Root 1 0 R", &[], 0);
    }
    (w.out, font_id)
}

fn w_text(items: &[Item], objs: &mut Vec<(u64, Vec<u8>)>, next: &mut u64) -> String {
    let el = |e: &Elem| match e {
        Elem::Num(n) => n.text(),
        Elem::Other => "/Fnord".to_string(),
    };
    let mut parts = vec![];
    for it in items {
        parts.push(match it {
            Item::Num(n) => n.text(),
            Item::Arr(xs) => format!("[{}]", xs.iter().map(el).collect::<Vec<_>>().join(" ")),
            Item::RefArr(xs) => {
                let id = *next;
                *next += 1;
                objs.push((id, format!("[ {} ]", xs.iter().map(el).collect::<Vec<_>>().join(" ")).into_bytes()));
                format!("{} 0 R", id)
            }
            Item::RefOther => {
                let id = *next;
                *next += 1;
                objs.push((id, b"<< /Not /AnArray >>".to_vec()));
                format!("{} 0 R", id)
            }
            Item::Other => "/Fnord".to_string(),
        });
    }
    parts.join(" ")
}

fn real_w_file(rng: &mut Rng, dw: Option<&Num>, items: &[Item], codes: &[usize]) -> (String, Vec<u8>, String) {
    let type0 = rng.chance(1, 2);
    let sub = if rng.chance(1, 2) { "CIDFontType2" } else { "CIDFontType0" };
    let w_as_ref = rng.chance(1, 5);
    let dwt = dw.map(|d| format!(" /DW {}", d.text())).unwrap_or_default();
    let items_c = items.to_vec();
    let (bytes, font_id) = font_file(
        rng,
        move |objs, next| {
            let wt = w_text(&items_c, objs, next);
            let wref = if w_as_ref {
                let id = *next;
                *next += 1;
                objs.push((id, format!("[{}]", wt).into_bytes()));
                format!("{} 0 R", id)
            } else {
                format!("[{}]", wt)
            };
            format!("<< /Type /Font /Subtype /{} /BaseFont /Verif /CIDSystemInfo << /Registry (Adobe) /Ordering (Identity) /Supplement 0 >> /FontDescriptor 5 0 R{} /W {} >>", sub, dwt, wref)
        },
        type0,
        None,
    );
    let cached = rng.chance(1, 2);
    let mode = format!("{}{}{}", if type0 { "type0," } else { "cidfont," }, if cached { "cached" } else { "uncached" }, if w_as_ref { ",W-by-ref" } else { "" });
    let data = bytes.clone();
    let codes = codes.to_vec();
    let r = no_panic(move || {
        macro_rules! go {
            ($f:expr) => {{
                let file = match $f { Ok(f) => f, Err(e) => return format!("load-failed: {}", e) };
                let res = file.resolver();
                let font = match res.get::<Font>(Ref::new(PlainRef { id: font_id, gen: 0 })) { Ok(f) => f, Err(e) => return format!("font-failed: {}", e) };
                show_widths(&font, &res, &codes)
            }};
        }
        if cached { go!(FileOptions::cached().load(data)) } else { go!(FileOptions::uncached().load(data)) }
    });
    (r.unwrap_or_else(|_| "panic".into()), bytes, mode)
}

fn boundary_codes(gs: &[Group], rng: &mut Rng) -> Vec<usize> {
    let mut cs: Vec<usize> = vec![0, 1, 65534, 65535, 65536, 70000];
    for g in gs {
        let (lo, hi) = g.span();
        for d in [-1i64, 0, 1] {
            for b in [lo as i64, hi as i64 - 1, hi as i64] {
                let c = b + d;
                if c >= 0 {
                    cs.push(c as usize);
                }
            }
        }
        if hi > lo {
            cs.push((lo + rng.below((hi - lo) as u64) as u32) as usize);
        }
    }
    for _ in 0..4 {
        cs.push(rng.below(66000) as usize);
    }
    cs.sort();
    cs.dedup();
    cs
}

/// pairwise disjoint groups anywhere in 0..=65535, in random order
fn gen_disjoint(rng: &mut Rng, allow_ref: bool) -> Vec<Group> {
    let k = rng.usize(7);
    let mut gs = vec![];
    let mut pos: u32 = match rng.below(4) { 0 => 0, 1 => rng.below(50) as u32, 2 => rng.below(60000) as u32, _ => 65400 + rng.below(100) as u32 };
    let mut tag = 100;
    for _ in 0..k {
        let len = match rng.below(6) { 0 => 0, 1 => 1, 2 => 2, _ => 1 + rng.below(40) as u32 };
        if pos + len > 65536 {
            break;
        }
        if rng.chance(1, 2) {
            let xs = (0..len).map(|_| rand_num(rng, &mut tag)).collect();
            gs.push(Group::Run { c1: pos, by_ref: allow_ref && rng.chance(1, 3), xs });
        } else if len > 0 {
            gs.push(Group::Range { c1: pos, c2: pos + len - 1, w: rand_num(rng, &mut tag) });
        }
        pos += len;
        pos += match rng.below(5) { 0 => 0, 1 => 1, 2 => rng.below(50) as u32, 3 => rng.below(3000) as u32, _ => rng.below(30000) as u32 };
        if pos > 65535 {
            // a last group that ends exactly at 65535
            if rng.chance(1, 2) {
                let l = 1 + rng.below(5) as u32;
                let c1 = 65536 - l;
                if gs.iter().all(|g: &Group| g.span().1 <= c1) {
                    gs.push(Group::Range { c1, c2: 65535, w: rand_num(rng, &mut tag) });
                }
            }
            break;
        }
    }
    rng.shuffle(&mut gs);
    gs
}

fn gen_overlapping(rng: &mut Rng) -> Vec<Group> {
    let k = 1 + rng.usize(6);
    let mut tag = 100;
    (0..k)
        .map(|_| {
            let c1 = rng.below(40) as u32;
            if rng.chance(1, 2) {
                let len = rng.below(8) as u32;
                Group::Run { c1, by_ref: false, xs: (0..len).map(|_| rand_num(rng, &mut tag)).collect() }
            } else {
                Group::Range { c1, c2: c1 + rng.below(12) as u32, w: rand_num(rng, &mut tag) }
            }
        })
        .collect()
}

fn small_group_kinds() -> Vec<Group> {
    let mut v = vec![];
    for c1 in 0..5u32 {
        for len in 0..3usize {
            v.push(Group::Run { c1, by_ref: false, xs: (0..len).map(|i| Num::Int(i as i32)).collect() });
        }
        for c2 in c1..5u32 {
            v.push(Group::Range { c1, c2, w: Num::Int(0) });
        }
    }
    v
}

/// give every width of a sequence its own value
fn retag(gs: &mut Vec<Group>) {
    let mut t = 100;
    for g in gs.iter_mut() {
        match g {
            Group::Run { xs, .. } => for x in xs.iter_mut() { t += 1; *x = if t % 2 == 0 { Num::Int(t) } else { Num::Real(format!("{}.5", t), t as f32 + 0.5) }; },
            Group::Range { w, .. } => { t += 1; *w = Num::Int(t); }
        }
    }
}

struct WCase {
    gs: Vec<Group>,
    dw: Num,
    codes: Vec<usize>,
    tag: String,
}

fn w_streams_mem(driver: &Driver, or: &mut Oracle, cases: Vec<WCase>, st_dis: &mut Stream, st_any: &mut Stream, seed: u64) {
    let mut reqs = vec![];
    let mut imps = vec![];
    let mut dis = vec![];
    for c in &cases {
        let items: Vec<Item> = c.gs.iter().flat_map(|g| g.items()).collect();
        let d = disjoint(&c.gs);
        let type0 = c.codes.len() % 2 == 0;
        let imp = real_w_mem(f32::from_bits(c.dw.bits()), &items, type0, &c.codes);
        let rq = format!("c19.w {} {} {} @{}", c.dw.bits(), items_req(&items, true), codes_req(&c.codes), c.tag);
        if d {
            st_dis.count(&format!("groups={}", c.gs.len()));
            // oracle
            let exp = format!("ok {}", c.codes.iter().map(|&k| oracle_width(&c.gs, c.dw.bits(), k).to_string()).collect::<Vec<_>>().join(","));
            or.case(&rq, c.gs.len() > 1, || json!({"request": rq, "observed": imp}));
            or.count(&format!("stream={}", st_dis.name));
            if imp != exp {
                or.fail(if imp == "panic" { "panic" } else { "width-mismatch" }, &format!("widths of a well-formed /W array: expected {} got {}", trunc(&exp), trunc(&imp)),
                    json!({"stream": st_dis.name, "seed": seed, "tag": c.tag, "request": rq, "expected": exp, "observed": imp}));
            }
        }
        reqs.push(rq);
        imps.push(imp);
        dis.push(d);
    }
    let resp = driver.ask(&reqs);
    for (((rq, m), i), d) in reqs.iter().zip(resp.iter()).zip(imps.iter()).zip(dis.iter()) {
        let st: &mut Stream = if *d { &mut *st_dis } else { &mut *st_any };
        st.case(rq, m, i, rq.contains(','));
    }
}

fn w_exhaustive(driver: &Driver, or: &mut Oracle, seed: u64, thorough: bool, rep: &mut Report) {
    let kinds = small_group_kinds();
    let mut st = Stream::new("c19.w.exhaustive", true);
    st.exhaustive = true;
    let mut st_any = Stream::new("c19.w.any", false);
    let codes: Vec<usize> = (0..8).collect();
    let mut cases = vec![];
    let mut push = |idx: Vec<usize>, cases: &mut Vec<WCase>| {
        let mut gs: Vec<Group> = idx.iter().map(|&i| kinds[i].clone()).collect();
        retag(&mut gs);
        cases.push(WCase { gs, dw: Num::Int(1000), codes: codes.clone(), tag: format!("c19.w.exhaustive/{}/{}", seed, idx.iter().map(|i| i.to_string()).collect::<Vec<_>>().join("-")) });
    };
    push(vec![], &mut cases);
    let n = kinds.len();
    for a in 0..n {
        push(vec![a], &mut cases);
        for b in 0..n {
            push(vec![a, b], &mut cases);
            if thorough {
                for c in 0..n {
                    push(vec![a, b, c], &mut cases);
                }
            }
        }
    }
    if !thorough {
        for case in 0..3000 {
            let mut rng = Rng::derive(seed, "c19.w.exhaustive", case);
            push(vec![rng.usize(n), rng.usize(n), rng.usize(n)], &mut cases);
        }
    }
    w_streams_mem(driver, or, cases, &mut st, &mut st_any, seed);
    rep.streams.push(st);
    rep.streams.push(st_any);
}

fn w_random(driver: &Driver, or: &mut Oracle, seed: u64, n: u64, only: Option<u64>, rep: &mut Report) {
    let mut st = Stream::new("c19.w.disjoint", true);
    let mut st_any = Stream::new("c19.w.any", false);
    let mut cases = vec![];
    for case in 0..n {
        if only.map(|o| o != case).unwrap_or(false) { continue; }
        let mut rng = Rng::derive(seed, "c19.w.disjoint", case);
        let gs = if case % 4 == 3 { gen_overlapping(&mut rng) } else { gen_disjoint(&mut rng, false) };
        let mut t = 7;
        let dw = if rng.chance(1, 3) { Num::Int(1000) } else { rand_num(&mut rng, &mut t) };
        let codes = boundary_codes(&gs, &mut rng);
        cases.push(WCase { gs, dw, codes, tag: format!("c19.w.disjoint/{}/{}", seed, case) });
    }
    w_streams_mem(driver, or, cases, &mut st, &mut st_any, seed);
    rep.streams.push(st);
    rep.streams.push(st_any);
}

fn w_file(driver: &Driver, or: &mut Oracle, seed: u64, n: u64, only: Option<u64>, rep: &mut Report) {
    let mut st = Stream::new("c19.w.file", true);
    let mut reqs = vec![];
    let mut imps = vec![];
    for case in 0..n {
        if only.map(|o| o != case).unwrap_or(false) { continue; }
        let mut rng = Rng::derive(seed, "c19.w.file", case);
        let gs = gen_disjoint(&mut rng, true);
        let mut t = 7;
        let dw = if rng.chance(1, 3) { None } else { Some(rand_num(&mut rng, &mut t)) };
        let dwbits = dw.as_ref().map(|d| d.bits()).unwrap_or(1000f32.to_bits());
        let codes = boundary_codes(&gs, &mut rng);
        let items: Vec<Item> = gs.iter().flat_map(|g| g.items()).collect();
        let (imp, bytes, mode) = real_w_file(&mut rng, dw.as_ref(), &items, &codes);
        st.count(&format!("mode={}", mode));
        st.count(&format!("groups={}", gs.len()));
        let rq = format!("c19.w {} {} {} @c19.w.file/{}/{}", dwbits, items_req(&items, false), codes_req(&codes), seed, case);
        let exp = format!("ok {}", codes.iter().map(|&k| oracle_width(&gs, dwbits, k).to_string()).collect::<Vec<_>>().join(","));
        or.case(&rq, gs.len() > 1, || json!({"request": rq, "observed": imp, "mode": mode}));
        or.count("stream=c19.w.file");
        if imp != exp {
            or.fail(if imp == "panic" { "panic" } else { "width-mismatch" }, &format!("widths of a well-formed /W array read from a file ({}): expected {} got {}", mode, trunc(&exp), trunc(&imp)),
                json!({"stream": "c19.w.file", "seed": seed, "case": case, "request": rq, "expected": exp, "observed": imp, "file_hex": hex(&bytes)}));
        }
        reqs.push(rq);
        imps.push(imp);
    }
    let resp = driver.ask(&reqs);
    for ((rq, m), i) in reqs.iter().zip(resp.iter()).zip(imps.iter()) {
        st.case(rq, m, i, rq.contains(','));
    }
    rep.streams.push(st);
}

fn gen_malformed(rng: &mut Rng) -> Vec<Item> {
    let mut tag = 50;
    let gs = gen_overlapping(rng);
    let mut items: Vec<Item> = gs.iter().flat_map(|g| g.items()).collect();
    let n = items.len();
    match rng.below(10) {
        0 => { items.pop(); }
        1 => { let i = rng.usize(n); items.remove(i); }
        2 => { let i = rng.usize(n); items[i] = Item::Other; }
        3 => { let i = rng.usize(n); items[i] = Item::Num(Num::Int(-(1 + rng.below(5) as i32))); }
        4 => { let i = rng.usize(n); items[i] = Item::Num(rand_num(rng, &mut tag)); }
        5 => { let i = rng.usize(n); items[i] = Item::RefOther; }
        6 => {
            for it in items.iter_mut() {
                if let Item::Arr(xs) = it {
                    if !xs.is_empty() { let k = rng.usize(xs.len()); xs[k] = Elem::Other; break; }
                }
            }
        }
        7 => { items.insert(0, Item::Num(Num::Int(5))); items.insert(1, Item::Num(Num::Int(2))); items.insert(2, Item::Num(Num::Int(9))); }  // reversed range
        8 => { let c = 65530 + rng.below(12) as i32; items.push(Item::Num(Num::Int(c))); items.push(Item::Arr((0..rng.below(8)).map(|_| Elem::Num(rand_num(rng, &mut tag))).collect())); }
        _ => { let c = 65530 + rng.below(12) as i32; items.push(Item::Num(Num::Int(c - 3))); items.push(Item::Num(Num::Int(c))); items.push(Item::Num(Num::Int(1))); }
    }
    items
}

/// does the interpreter reach a `c1 c2 w` group whose last code is negative or far beyond the CID range?
fn risky_last_code(items: &[Item]) -> bool {
    let mut i = 0;
    while i < items.len() {
        match &items[i] {
            Item::Num(Num::Int(c1)) if *c1 >= 0 => {}
            _ => return false,
        }
        match items.get(i + 1) {
            Some(Item::Arr(_)) => i += 2,
            Some(Item::Num(Num::Int(c2))) => {
                if *c2 < 0 || *c2 > 70000 {
                    return true;
                }
                i += 3;
            }
            _ => return false,
        }
    }
    false
}

fn w_outside(driver: &Driver, seed: u64, n: u64, rep: &mut Report) {
    let mut st = Stream::new("c19.w.outside", false);
    let mut reqs = vec![];
    let mut imps = vec![];
    for case in 0..n {
        let mut rng = Rng::derive(seed, "c19.w.outside", case);
        let items = gen_malformed(&mut rng);
        let codes: Vec<usize> = vec![0, 1, 2, 3, 5, 8, 13, 21, 34, 39, 40, 55, 65529, 65530, 65535, 65536];
        // a negative or very large integer may send an unrepaired interpreter into a loop of ~2^64 steps (D33):
        // such cases run in a child process with a memory and a time limit
        let risky = risky_last_code(&items);
        let ir = items_req(&items, true);
        let imp = if risky { st.count("ran_in_child"); run_child_w(&ir, &codes) } else { real_w_mem(1000.0, &items, false, &codes) };
        reqs.push(format!("c19.w {} {} {} @c19.w.outside/{}/{}", 1000f32.to_bits(), ir, codes_req(&codes), seed, case));
        imps.push(imp);
    }
    let resp = driver.ask(&reqs);
    for ((rq, m), i) in reqs.iter().zip(resp.iter()).zip(imps.iter()) {
        st.count(&format!("outcome={}", m.split(' ').next().unwrap_or("")));
        st.case(rq, m, i, true);
    }
    rep.streams.push(st);
}

fn simple_streams(driver: &Driver, or: &mut Oracle, seed: u64, n: u64, rep: &mut Report) {
    let mut st = Stream::new("c19.simple", true);
    let mut st_out = Stream::new("c19.simple.outside", false);
    let mut reqs = vec![];
    let mut imps = vec![];
    let mut dom = vec![];
    for case in 0..n {
        let mut rng = Rng::derive(seed, "c19.simple", case);
        let outside = case % 8 == 7;
        let first: i32 = if outside { *rng.pick(&[-1, -5, -2147483648, 2147483647, 70000]) } else { *rng.pick(&[0, 1, 31, 32, 65, 128, 255]) };
        let len = match rng.below(5) { 0 => 0, 1 => 1, 2 => 224, _ => rng.usize(260) };
        let have = !rng.chance(1, 8);
        let ws: Vec<f32> = (0..len).map(|i| if i % 3 == 0 { i as f32 + 0.5 } else { (1000 - i as i32) as f32 }).collect();
        let mut codes: Vec<usize> = vec![0, 1, 255, 256, 65535];
        for d in [-1i64, 0, 1] {
            for b in [first as i64, first as i64 + len as i64 - 1, first as i64 + len as i64] {
                if b + d >= 0 { codes.push((b + d) as usize); }
            }
        }
        for _ in 0..3 { codes.push(rng.below(300) as usize); }
        codes.sort();
        codes.dedup();
        let tt = rng.chance(1, 2);
        let ws2 = ws.clone();
        let codes2 = codes.clone();
        let imp = no_panic(move || {
            let info = TFont { base_font: None, first_char: Some(first), last_char: Some(first.wrapping_add(len as i32 - 1)), widths: if have { Some(ws2) } else { None }, font_descriptor: None };
            let f = Font { subtype: if tt { FontType::TrueType } else { FontType::Type1 }, name: Some(Name::from("Verif")), data: if tt { FontData::TrueType(info) } else { FontData::Type1(info) }, encoding: None, to_unicode: None, _other: Dictionary::new() };
            show_widths(&f, &NoResolve, &codes2)
        }).unwrap_or_else(|_| "panic".into());
        let wreq = if !have { "none".to_string() } else if ws.is_empty() { "-".to_string() } else { ws.iter().map(|w| w.to_bits().to_string()).collect::<Vec<_>>().join(",") };
        let rq = format!("c19.simple {} {} {} @c19.simple/{}/{}", first, wreq, codes_req(&codes), seed, case);
        if !outside {
            // oracle: entry at code - first inside the table, default (0.0) outside
            let exp = format!("ok {}", codes.iter().map(|&c| {
                let k = c as i64 - first as i64;
                if have && k >= 0 && (k as usize) < ws.len() { ws[k as usize].to_bits() } else { 0f32.to_bits() }
            }.to_string()).collect::<Vec<_>>().join(","));
            or.case(&rq, len > 1, || json!({"request": rq, "observed": imp}));
            or.count("stream=c19.simple");
            if imp != exp {
                or.fail(if imp == "panic" { "panic" } else { "simple-width-mismatch" }, &format!("simple font widths: expected {} got {}", trunc(&exp), trunc(&imp)),
                    json!({"stream": "c19.simple", "seed": seed, "case": case, "request": rq, "expected": exp, "observed": imp}));
            }
        }
        reqs.push(rq);
        imps.push(imp);
        dom.push(!outside);
    }
    let resp = driver.ask(&reqs);
    for (((rq, m), i), d) in reqs.iter().zip(resp.iter()).zip(imps.iter()).zip(dom.iter()) {
        if *d { st.case(rq, m, i, true) } else { st_out.case(rq, m, i, true) }
    }
    rep.streams.push(st);
    rep.streams.push(st_out);
}


// ---------------------------------------------------------------------------------------------------
// Font::widths by subtype (simple fonts with /MissingWidth, MMType1 / Type3, Type0 nesting)

fn descriptor_mw(mw: f32) -> FontDescriptor {
    let mut d = descriptor();
    d.missing_width = mw;
    d
}

fn font_by_subtype(driver: &Driver, or: &mut Oracle, seed: u64, n: u64, only: Option<u64>, rep: &mut Report) {
    let mut st = Stream::new("c19.fontw", true);
    let mut reqs = vec![];
    let mut imps = vec![];
    for case in 0..n {
        if only.map(|o| o != case).unwrap_or(false) { continue; }
        let mut rng = Rng::derive(seed, "c19.fontw", case);
        let kind = rng.below(8);
        let codes: Vec<usize> = { let mut c = vec![0usize, 1, 31, 32, 33, 64, 65, 66, 127, 128, 254, 255, 256, 1000]; for _ in 0..3 { c.push(rng.below(300) as usize); } c.sort(); c.dedup(); c };
        let tag = format!("@c19.fontw/{}/{}", seed, case);
        match kind {
            0..=4 => {
                // Type1 / TrueType, in memory or through a file
                let first: Option<i32> = if rng.chance(1, 10) { None } else { Some(*rng.pick(&[0, 1, 31, 32, 65, 128, 200, 255])) };
                let len = match rng.below(4) { 0 => 0, 1 => 1, _ => rng.usize(230) };
                let have = !rng.chance(1, 8);
                let ws: Vec<f32> = (0..len).map(|i| if i % 3 == 0 { i as f32 + 0.5 } else { (1000 - i as i32) as f32 }).collect();
                let mw: Option<f32> = match rng.below(4) { 0 => None, 1 => Some(0.0), 2 => Some(500.0), _ => Some(250.5) };
                let tt = rng.chance(1, 2);
                let via_file = rng.chance(1, 3);
                st.count(&format!("kind={}{}", if tt { "TrueType" } else { "Type1" }, if via_file { ",file" } else { ",memory" }));
                let imp = if via_file {
                    let mut body = format!("<< /Type /Font /Subtype /{} /BaseFont /Verif", if tt { "TrueType" } else { "Type1" });
                    if let Some(f) = first { body.push_str(&format!(" /FirstChar {} /LastChar {}", f, f as i64 + len as i64 - 1)); }
                    if have { body.push_str(&format!(" /Widths [{}]", ws.iter().map(|w| if w.fract() == 0.0 { format!("{}", *w as i32) } else { format!("{}", w) }).collect::<Vec<_>>().join(" "))); }
                    let mwc = mw;
                    let (bytes, font_id) = font_file(&mut rng, move |objs, next| {
                        let mut b = body.clone();
                        if let Some(m) = mwc {
                            let id = *next;
                            *next += 1;
                            objs.push((id, format!("<< /Type /FontDescriptor /FontName /Verif /Flags 4 /FontBBox [0 0 1000 1000] /ItalicAngle 0 /MissingWidth {} >>", if m.fract() == 0.0 { format!("{}", m as i32) } else { format!("{}", m) }).into_bytes()));
                            b.push_str(&format!(" /FontDescriptor {} 0 R", id));
                        }
                        b.push_str(" >>");
                        b
                    }, false, None);
                    let codes2 = codes.clone();
                    no_panic(move || {
                        let file = match FileOptions::uncached().load(bytes) { Ok(f) => f, Err(e) => return format!("load-failed: {}", e) };
                        let res = file.resolver();
                        let font = match res.get::<Font>(Ref::new(PlainRef { id: font_id, gen: 0 })) { Ok(f) => f, Err(e) => return format!("font-failed: {}", e) };
                        show_widths(&font, &res, &codes2)
                    }).unwrap_or_else(|_| "panic".into())
                } else {
                    let ws2 = ws.clone();
                    let codes2 = codes.clone();
                    no_panic(move || {
                        let info = TFont { base_font: None, first_char: first, last_char: first.map(|f| f + len as i32 - 1), widths: if have { Some(ws2) } else { None }, font_descriptor: mw.map(descriptor_mw) };
                        let f = Font { subtype: if tt { FontType::TrueType } else { FontType::Type1 }, name: Some(Name::from("Verif")), data: if tt { FontData::TrueType(info) } else { FontData::Type1(info) }, encoding: None, to_unicode: None, _other: Dictionary::new() };
                        show_widths(&f, &NoResolve, &codes2)
                    }).unwrap_or_else(|_| "panic".into())
                };
                let wreq = if !have { "none".to_string() } else if ws.is_empty() { "-".to_string() } else { ws.iter().map(|w| w.to_bits().to_string()).collect::<Vec<_>>().join(",") };
                let rq = format!("c19.fontw S/{}/{}/{} {} {}", first.map(|f| f.to_string()).unwrap_or("none".into()), wreq, mw.map(|m| m.to_bits().to_string()).unwrap_or("none".into()), codes_req(&codes), tag);
                // oracle (ISO 32000-1 9.6.2.1): entry at code - FirstChar inside the table, /MissingWidth (default 0) outside
                let exp = match first {
                    None => "none".to_string(),
                    Some(f) => format!("ok {}", codes.iter().map(|&c| {
                        let k = c as i64 - f as i64;
                        if have && k >= 0 && (k as usize) < ws.len() { ws[k as usize].to_bits() } else { mw.unwrap_or(0.0).to_bits() }
                    }.to_string()).collect::<Vec<_>>().join(",")),
                };
                or.case(&rq, len > 1, || json!({"request": rq, "observed": imp}));
                or.count("stream=c19.fontw");
                if imp != exp {
                    or.fail(if imp == "panic" { "panic" } else { "simple-width-mismatch" }, &format!("simple font widths with /MissingWidth: expected {} got {}", trunc(&exp), trunc(&imp)),
                        json!({"stream": "c19.fontw", "seed": seed, "case": case, "request": rq, "expected": exp, "observed": imp}));
                }
                reqs.push(rq);
                imps.push(imp);
            }
            5 => {
                // MMType1 / Type3: kept as raw dictionaries, no widths reported
                let sub = if rng.chance(1, 2) { FontType::MMType1 } else { FontType::Type3 };
                st.count("kind=MMType1/Type3");
                let codes2 = codes.clone();
                let imp = no_panic(move || {
                    let mut d = Dictionary::new();
                    d.insert("FirstChar", Primitive::Integer(32));
                    d.insert("Widths", Primitive::Array(vec![Primitive::Integer(500)]));
                    let f = Font { subtype: sub, name: Some(Name::from("Verif")), data: FontData::Other(d), encoding: None, to_unicode: None, _other: Dictionary::new() };
                    show_widths(&f, &NoResolve, &codes2)
                }).unwrap_or_else(|_| "panic".into());
                reqs.push(format!("c19.fontw O {} {}", codes_req(&codes), tag));
                imps.push(imp);
            }
            _ => {
                // Type0 nesting: over nothing, over a CID font, over a Type0 over a CID font
                let depth = rng.usize(3);
                st.count(&format!("kind=Type0,depth={}", depth));
                let gs = gen_disjoint(&mut rng, false);
                let items: Vec<Item> = gs.iter().flat_map(|g| g.items()).collect();
                let prims = items_prims(&items);
                let codes2 = codes.clone();
                let imp = no_panic(move || {
                    let mut f: Option<Font> = if depth == 0 { None } else { Some(mem_cid_font(1000.0, prims, false)) };
                    for _ in 0..depth.max(1) {
                        f = Some(Font { subtype: FontType::Type0, name: Some(Name::from("Verif")), data: FontData::Type0(Type0Font { descendant_fonts: f.into_iter().map(MaybeRef::from).collect(), to_unicode: None }), encoding: None, to_unicode: None, _other: Dictionary::new() });
                    }
                    show_widths(&f.unwrap(), &NoResolve, &codes2)
                }).unwrap_or_else(|_| "panic".into());
                let inner = if depth == 0 { "T/".to_string() } else { format!("{}C/{}/{}", "T/".repeat(depth), 1000f32.to_bits(), items_req(&items, true)) };
                reqs.push(format!("c19.fontw {} {} {}", inner, codes_req(&codes), tag));
                imps.push(imp);
            }
        }
    }
    let resp = driver.ask(&reqs);
    for ((rq, m), i) in reqs.iter().zip(resp.iter()).zip(imps.iter()) {
        st.case(rq, m, i, true);
    }
    rep.streams.push(st);
}

// ---------------------------------------------------------------------------------------------------
// /Encoding /Differences: which glyph name a code selects

fn diff_prims(items: &[(Option<i32>, Option<u32>)]) -> Vec<Primitive> {
    // (Some(code), None) = integer, (None, Some(id)) = name, (None, None) = another primitive
    items.iter().map(|it| match it { (Some(c), _) => Primitive::Integer(*c), (None, Some(n)) => Primitive::Name(format!("g{}", n).as_str().into()), _ => Primitive::Boolean(true) }).collect()
}

fn diff_req(items: &[(Option<i32>, Option<u32>)]) -> String {
    if items.is_empty() { return "-".into(); }
    items.iter().map(|it| match it { (Some(c), _) => format!("i{}", c), (None, Some(n)) => format!("n{}", n), _ => "O".to_string() }).collect::<Vec<_>>().join(",")
}

fn show_diffs(e: &pdf::encoding::Encoding, codes: &[u32]) -> String {
    format!("ok {}", codes.iter().map(|c| e.differences.get(c).map(|n| n.as_str().trim_start_matches('g').to_string()).unwrap_or("-".into())).collect::<Vec<_>>().join(","))
}

fn encoding_streams(driver: &Driver, or: &mut Oracle, seed: u64, n: u64, only: Option<u64>, rep: &mut Report) {
    use pdf::encoding::{BaseEncoding, Encoding};
    use pdf::object::{NoUpdate, Object, ObjectWrite};
    let mut st = Stream::new("c19.diff", true);
    let mut st_out = Stream::new("c19.diff.outside", false);
    let mut st_w = Stream::new("c19.diffwrite", true);
    let mut reqs: Vec<(String, String, u8)> = vec![];
    for case in 0..n {
        if only.map(|o| o != case).unwrap_or(false) { continue; }
        let mut rng = Rng::derive(seed, "c19.diff", case);
        let tag = format!("@c19.diff/{}/{}", seed, case);
        // groups `code name name …`, any order, overlapping or not
        let ng = rng.usize(6);
        let mut items: Vec<(Option<i32>, Option<u32>)> = vec![];
        let mut oracle: BTreeMap<u32, u32> = BTreeMap::new();
        let mut codes: Vec<u32> = vec![0, 1, 255, 256];
        let mut name = 100;
        for _ in 0..ng {
            let c: i32 = match rng.below(5) { 0 => 0, 1 => rng.below(40) as i32, 2 => 250 + rng.below(6) as i32, 3 => rng.below(256) as i32, _ => rng.below(70000) as i32 };
            let len = rng.usize(6);
            items.push((Some(c), None));
            for i in 0..len {
                name += 1;
                items.push((None, Some(name)));
                oracle.insert(c as u32 + i as u32, name);
            }
            for d in [-1i64, 0, 1] { for b in [c as i64, c as i64 + len as i64 - 1, c as i64 + len as i64] { if b + d >= 0 { codes.push((b + d) as u32); } } }
        }
        codes.sort();
        codes.dedup();
        let outside = case % 10 == 9;
        if outside {
            match rng.below(3) {
                0 => items.push((None, None)),
                1 => { items.insert(0, (Some(-1), None)); items.insert(1, (None, Some(7))); }
                _ => { let i = rng.usize(items.len() + 1); items.insert(i, (None, None)); }
            }
        }
        let via_file = !outside && rng.chance(1, 4);
        let prims = diff_prims(&items);
        let codes2 = codes.clone();
        let imp = if via_file {
            let arr = items.iter().map(|it| match it { (Some(c), _) => c.to_string(), (None, Some(n)) => format!("/g{}", n), _ => "true".into() }).collect::<Vec<_>>().join(" ");
            let by_ref = rng.chance(1, 2);
            let (bytes, font_id) = font_file(&mut rng, move |objs, next| {
                let enc = format!("<< /Type /Encoding /BaseEncoding /WinAnsiEncoding /Differences [{}] >>", arr);
                let e = if by_ref { let id = *next; *next += 1; objs.push((id, enc.into_bytes())); format!("{} 0 R", id) } else { enc };
                format!("<< /Type /Font /Subtype /Type1 /BaseFont /Verif /FirstChar 0 /LastChar 0 /Widths [500] /Encoding {} >>", e)
            }, false, None);
            st.count("via=file");
            no_panic(move || {
                let file = match FileOptions::uncached().load(bytes) { Ok(f) => f, Err(e) => return format!("load-failed: {}", e) };
                let res = file.resolver();
                let font = match res.get::<Font>(Ref::new(PlainRef { id: font_id, gen: 0 })) { Ok(f) => f, Err(e) => return format!("font-failed: {}", e) };
                match font.encoding() { Some(e) => show_diffs(e, &codes2), None => "no-encoding".into() }
            }).unwrap_or_else(|_| "panic".into())
        } else {
            if !outside { st.count("via=memory"); }
            no_panic(move || {
                let mut d = Dictionary::new();
                d.insert("BaseEncoding", Primitive::Name("WinAnsiEncoding".into()));
                d.insert("Differences", Primitive::Array(prims));
                match Encoding::from_primitive(Primitive::Dictionary(d), &NoResolve) { Ok(e) => show_diffs(&e, &codes2), Err(_) => "err".into() }
            }).unwrap_or_else(|_| "panic".into())
        };
        let rq = format!("c19.diff {} {} {}", diff_req(&items), codes.iter().map(|c| c.to_string()).collect::<Vec<_>>().join(","), tag);
        if !outside {
            let exp = format!("ok {}", codes.iter().map(|c| oracle.get(c).map(|n| n.to_string()).unwrap_or("-".into())).collect::<Vec<_>>().join(","));
            or.case(&rq, ng > 1, || json!({"request": rq, "observed": imp}));
            or.count("stream=c19.diff");
            if imp != exp {
                or.fail(if imp == "panic" { "panic" } else { "differences-mismatch" }, &format!("/Differences: expected {} got {}", trunc(&exp), trunc(&imp)),
                    json!({"stream": "c19.diff", "seed": seed, "case": case, "request": rq, "expected": exp, "observed": imp}));
            }
        }
        reqs.push((rq, imp, if outside { 1 } else { 0 }));
        // writer: a map code → name, written and read back
        if !outside {
            let m: BTreeMap<u32, u32> = oracle.clone();
            let m2 = m.clone();
            let wr = no_panic(move || {
                let e = Encoding { base: BaseEncoding::WinAnsiEncoding, differences: m2.iter().map(|(k, v)| (*k, format!("g{}", v).as_str().into())).collect() };
                let p = e.to_primitive(&mut NoUpdate).map_err(|e| format!("{}", e))?;
                let items = match &p {
                    Primitive::Dictionary(d) => match d.get("Differences") { Some(Primitive::Array(a)) => a.clone(), _ => return Err("no Differences".to_string()) },
                    Primitive::Name(_) => vec![],
                    _ => return Err("unexpected primitive".to_string()),
                };
                let txt = items.iter().map(|it| match it { Primitive::Integer(i) => format!("i{}", i), Primitive::Name(n) => format!("n{}", n.as_str().trim_start_matches('g')), _ => "O".into() }).collect::<Vec<_>>().join(",");
                let back = Encoding::from_primitive(p, &NoResolve).map_err(|e| format!("{}", e))?;
                let same = back.differences.len() == m2.len() && m2.iter().all(|(k, v)| back.differences.get(k).map(|n| n.as_str() == format!("g{}", v)).unwrap_or(false));
                Ok::<_, String>((if txt.is_empty() { "ok -".to_string() } else { format!("ok {}", txt) }, same))
            });
            let wrq = format!("c19.diffwrite {} {}", if m.is_empty() { "-".to_string() } else { m.iter().map(|(k, v)| format!("{}={}", k, v)).collect::<Vec<_>>().join(";") }, tag);
            let (wimp, same) = match wr { Ok(Ok((t, s))) => (t, s), Ok(Err(e)) => (format!("err {}", e), false), Err(_) => ("panic".to_string(), false) };
            or.case(&wrq, m.len() > 1, || json!({"request": wrq, "observed": wimp}));
            or.count("stream=c19.diffwrite");
            if !same {
                or.fail(if wimp == "panic" { "panic" } else { "differences-roundtrip" }, &format!("Encoding written and read back differs from the map ({})", trunc(&wimp)),
                    json!({"stream": "c19.diff", "seed": seed, "case": case, "request": wrq, "observed": wimp}));
            }
            reqs.push((wrq, wimp, 2));
        }
    }
    let resp = driver.ask(&reqs.iter().map(|r| r.0.clone()).collect::<Vec<_>>());
    for ((rq, imp, k), m) in reqs.iter().zip(resp.iter()) {
        match k { 0 => st.case(rq, m, imp, true), 1 => st_out.case(rq, m, imp, true), _ => st_w.case(rq, m, imp, true) }
    }
    rep.streams.push(st);
    rep.streams.push(st_out);
    rep.streams.push(st_w);
}

// ---------------------------------------------------------------------------------------------------
// character maps

type UMap = BTreeMap<u16, Vec<u32>>;

fn show_umap(m: &UMap) -> String {
    if m.is_empty() {
        return "ok -".into();
    }
    format!("ok {}", m.iter().map(|(k, v)| format!("{}={}", k, v.iter().map(|c| c.to_string()).collect::<Vec<_>>().join("+"))).collect::<Vec<_>>().join(","))
}

fn to_umap(m: &ToUnicodeMap) -> UMap {
    m.iter().map(|(k, s)| (k, s.chars().map(|c| c as u32).collect())).collect()
}

/// `parse_cmap` is private: reach it through `Font::to_unicode` with an in-memory stream
fn real_parse(data: &[u8]) -> String {
    let data = data.to_vec();
    no_panic(move || {
        let s: PdfStreamObj<()> = PdfStreamObj::new((), data);
        let f = Font { subtype: FontType::Type0, name: None, data: FontData::Other(Dictionary::new()), encoding: None, to_unicode: Some(RcRef::new(PlainRef { id: 1, gen: 0 }, Arc::new(s))), _other: Dictionary::new() };
        match f.to_unicode(&NoResolve) {
            Some(Ok(m)) => show_umap(&to_umap(&m)),
            Some(Err(_)) => "err".into(),
            None => "none".into(),
        }
    })
    .unwrap_or_else(|_| "panic".into())
}

fn rand_char(rng: &mut Rng) -> u32 {
    loop {
        let c = match rng.below(8) {
            0 => 0x20 + rng.below(0x5f) as u32,
            1 => rng.below(0x100) as u32,
            2 => 0xD7F0 + rng.below(0x40) as u32,     // around the surrogate block
            3 => 0xE000 + rng.below(0x2000) as u32,
            4 => 0xFF00 + rng.below(0x100) as u32,
            5 => 0x10000 + rng.below(0x400) as u32,
            6 => 0x10FC00 + rng.below(0x400) as u32,
            _ => rng.below(0x110000) as u32,
        };
        if (0xD800..0xE000).contains(&c) || c == 0 {
            continue;
        }
        return c;
    }
}

fn rand_str(rng: &mut Rng) -> Vec<u32> {
    let n = match rng.below(6) { 0 | 1 | 2 => 1, 3 => 2, 4 => 3, _ => 1 + rng.usize(5) };
    (0..n).map(|_| rand_char(rng)).collect()
}

fn gen_umap(rng: &mut Rng) -> UMap {
    let mut m = UMap::new();
    let pieces = rng.usize(9);
    for _ in 0..pieces {
        let start: u32 = match rng.below(6) { 0 => 0, 1 => rng.below(300) as u32, 2 => 65535 - rng.below(6) as u32, 3 => 255 - rng.below(4) as u32, _ => rng.below(65536) as u32 };
        let len = match rng.below(5) { 0 | 1 => 1, 2 => 2, 3 => 3, _ => 1 + rng.below(30) as u32 };
        for i in 0..len {
            let c = start + i;
            if c > 65535 { break; }
            m.insert(c as u16, rand_str(rng));
        }
    }
    m
}

fn umap_req(m: &UMap) -> String {
    if m.is_empty() { return "-".into(); }
    m.iter().map(|(k, v)| format!("{}={}", k, v.iter().map(|c| c.to_string()).collect::<Vec<_>>().join("+"))).collect::<Vec<_>>().join(";")
}

fn real_write(m: &UMap) -> Result<String, String> {
    let m = m.clone();
    no_panic(move || {
        let tm = ToUnicodeMap::create(m.iter().map(|(k, v)| (*k, v.iter().map(|&c| char::from_u32(c).unwrap()).collect::<String>().as_str().into())));
        write_cmap(&tm)
    })
}

fn cmap_write(driver: &Driver, or: &mut Oracle, seed: u64, n: u64, only: Option<u64>, rep: &mut Report) {
    let mut st = Stream::new("c19.cmap.write", true);
    let mut reqs = vec![];
    let mut imps = vec![];
    for case in 0..n {
        if only.map(|o| o != case).unwrap_or(false) { continue; }
        let mut rng = Rng::derive(seed, "c19.cmap.write", case);
        let m = gen_umap(&mut rng);
        st.count(&format!("entries={}", match m.len() { 0 => "0".to_string(), 1..=3 => "1-3".into(), 4..=20 => "4-20".into(), _ => "21+".into() }));
        if m.values().any(|v| v.iter().any(|&c| c >= 0x10000)) { st.count("has_supplementary"); }
        let tag = format!("@c19.cmap.write/{}/{}", seed, case);
        match real_write(&m) {
            Err(_) => {
                reqs.push(format!("c19.write {} {}", umap_req(&m), tag));
                imps.push("panic".to_string());
                or.case(&tag, true, || json!({"map": umap_req(&m)}));
                or.fail("panic", "write_cmap panicked", json!({"stream": "c19.cmap.write", "seed": seed, "case": case, "map": umap_req(&m)}));
            }
            Ok(text) => {
                reqs.push(format!("c19.write {} {}", umap_req(&m), tag));
                imps.push(format!("ok {}", hex(text.as_bytes())));
                let back = real_parse(text.as_bytes());
                reqs.push(format!("c19.parse {} {}", hex(text.as_bytes()), tag));
                imps.push(back.clone());
                // oracle: the writer's text reads back as the same map
                let exp = show_umap(&m);
                or.case(&tag, m.len() > 1, || json!({"map": umap_req(&m), "text": text}));
                or.count("stream=c19.cmap.write");
                if back != exp {
                    or.fail("write-read-mismatch", &format!("write_cmap then to_unicode: expected {} got {}", trunc(&exp), trunc(&back)),
                        json!({"stream": "c19.cmap.write", "seed": seed, "case": case, "map": umap_req(&m), "text_hex": hex(text.as_bytes()), "expected": exp, "observed": back}));
                }
            }
        }
    }
    let resp = driver.ask(&reqs);
    for ((rq, m), i) in reqs.iter().zip(resp.iter()).zip(imps.iter()) {
        st.case(rq, m, i, rq.contains(';') || rq.len() > 80);
    }
    rep.streams.push(st);
}

/// an entry of a bfchar / bfrange block as the specification sees it: codes and Unicode strings (scalar values)
#[derive(Clone, Debug)]
enum BfEntry {
    Char { cid: u16, s: Vec<u32> },
    /// string form `<lo> <hi> <dst0>`: code lo+i maps to ss[i]; the UTF-16BE of ss[i] is that of ss[0] with the last byte + i
    RangeStr { lo: u16, ss: Vec<Vec<u32>> },
    /// array form `<lo> <hi> [<dst0> …]`
    RangeArr { lo: u16, ss: Vec<Vec<u32>> },
}

fn utf16be(s: &[u32]) -> Vec<u8> {
    let st: String = s.iter().map(|&c| char::from_u32(c).unwrap()).collect();
    st.encode_utf16().flat_map(|u| u.to_be_bytes()).collect()
}

fn utf16be_decode(b: &[u8]) -> Vec<u32> {
    let u: Vec<u16> = b.chunks(2).map(|c| u16::from_be_bytes([c[0], c[1]])).collect();
    char::decode_utf16(u).map(|r| r.unwrap() as u32).collect()
}

/// what the specification says the entries map (ISO 32000-1 9.10.3 / Adobe TN 5411): independent of the library
fn spec_denote(entries: &[BfEntry]) -> UMap {
    let mut m = UMap::new();
    for e in entries {
        match e {
            BfEntry::Char { cid, s } => { m.insert(*cid, s.clone()); }
            BfEntry::RangeStr { lo, ss } | BfEntry::RangeArr { lo, ss } => {
                for (i, s) in ss.iter().enumerate() {
                    m.insert(*lo + i as u16, s.clone());
                }
            }
        }
    }
    m
}

/// the entries in the notation of the driver's `c19.conf` request
fn entries_req(entries: &[BfEntry]) -> String {
    let us = |s: &Vec<u32>| if s.is_empty() { "e".to_string() } else { s.iter().map(|c| c.to_string()).collect::<Vec<_>>().join("+") };
    if entries.is_empty() {
        return "-".into();
    }
    entries
        .iter()
        .map(|e| match e {
            BfEntry::Char { cid, s } => format!("c:{}:{}", cid, us(s)),
            BfEntry::RangeStr { lo, ss } => format!("s:{}:{}", lo, ss.iter().map(us).collect::<Vec<_>>().join("|")),
            BfEntry::RangeArr { lo, ss } => format!("a:{}:{}", lo, ss.iter().map(us).collect::<Vec<_>>().join("|")),
        })
        .collect::<Vec<_>>()
        .join(";")
}

/// layout choices of a generated program
#[derive(Clone, Copy)]
struct Layout {
    /// all six white-space characters, comments (ended by LF or CR), literal strings and dictionaries in the junk
    rich: bool,
    /// header / trailer / `endcmap`
    framed: bool,
}

/// one separator run: white space (any of the six characters) and comments; empty only if `!must`
fn sep(rng: &mut Rng, lay: Layout, must: bool) -> String {
    let n = if must { 1 + rng.usize(3) } else { rng.usize(3) };
    let mut s = String::new();
    for _ in 0..n {
        if lay.rich && rng.chance(1, 8) {
            s.push('%');
            s.push_str(*rng.pick(&["", " a comment", " <0000> <0041>", " beginbfchar <01> <0041> endbfchar", "%EndComments", " endcmap ] >"]));
            s.push(if rng.chance(1, 2) { '\n' } else { '\r' });
        } else if lay.rich {
            s.push_str(*rng.pick(&[" ", " ", "\n", "\t", "\r", "\r\n", "\x0c", "\0", "  "]));
        } else {
            s.push_str(*rng.pick(&[" ", " ", "\n", "\t", "\r\n", "  "]));
        }
    }
    s
}

/// a hexadecimal string: digits in either case, white space between digits
fn hexs(b: &[u8], rng: &mut Rng, lay: Layout) -> String {
    let style = rng.below(3); // upper, lower, mixed
    let mut s = String::from("<");
    for x in b {
        for d in [x >> 4, x & 15] {
            if rng.chance(1, 40) {
                s.push_str(if lay.rich { *rng.pick(&[" ", "\n", "\x0c", "\0", "\t", "\r"]) } else { " " });
            }
            let lower = match style { 0 => false, 1 => true, _ => rng.chance(1, 2) };
            s.push(std::char::from_digit(d as u32, 16).map(|c| if lower { c } else { c.to_ascii_uppercase() }).unwrap());
        }
    }
    if rng.chance(1, 40) { s.push(' '); }
    s.push('>');
    s
}

/// a code: two bytes, or one byte when it fits and the coin says so
fn code_hex(c: u16, rng: &mut Rng, lay: Layout) -> String {
    if c < 256 && rng.chance(1, 3) { hexs(&[c as u8], rng, lay) } else { hexs(&c.to_be_bytes(), rng, lay) }
}

/// tokens that the reader skips between blocks: PostScript header / trailer material
fn junk_tokens(rng: &mut Rng, lay: Layout, n: usize) -> Vec<String> {
    let words = ["def", "begin", "end", "dict", "findresource", "12", "usecmap", "CMapName", "currentdict", "defineresource", "pop", "begincmap",
        "1", "begincodespacerange", "endcodespacerange", "3.5", "-1", "endbfchars", "beginbfcharx", "Endcmap", "R", "true"];
    let names = ["/CIDInit", "/ProcSet", "/Registry", "/Ordering", "/Supplement", "/CMapName", "/Adobe-Identity-UCS", "/CMapType", "/CIDSystemInfo", "/", "/beginbfchar"];
    let mut v = vec![];
    for _ in 0..n {
        match rng.below(if lay.rich { 8 } else { 4 }) {
            0 | 1 => v.push(rng.pick(&words).to_string()),
            2 => v.push(rng.pick(&names).to_string()),
            3 => { v.push("<".into()); v.push(rng.pick(&["0000", "FFFF", "00", "ff", "8140"]).to_string()); v.push(">".into()); }
            4 => { v.push("(".into()); v.push(rng.pick(&["Adobe", "UCS", "Identity", "CIDInit"]).to_string()); v.push(")".into()); }
            5 => { v.push("<<".into()); v.push("/Registry".into()); v.push("(".into()); v.push("Adobe".into()); v.push(")".into()); v.push("/Supplement".into()); v.push("0".into()); v.push(">>".into()); }
            6 => v.push(rng.pick(&["[", "]", "{", "}"]).to_string()),
            _ => v.push(rng.pick(&words).to_string()),
        }
    }
    v
}

fn is_regular_byte(b: u8) -> bool {
    !matches!(b, 0 | 9 | 10 | 12 | 13 | 32 | b'(' | b')' | b'<' | b'>' | b'[' | b']' | b'{' | b'}' | b'/' | b'%')
}

/// append a token: a separator is needed between two regular characters and between two angle brackets
fn push_tok(t: &mut String, tok: &str, rng: &mut Rng, lay: Layout) {
    let last = t.as_bytes().last().copied();
    let first = tok.as_bytes()[0];
    let must = match last {
        None => false,
        Some(l) => (is_regular_byte(l) && is_regular_byte(first)) || (l == b'<' && first == b'<') || (l == b'>' && first == b'>') || l == b'/',
    };
    t.push_str(&sep(rng, lay, must));
    t.push_str(tok);
}

/// A conformant CMap program and the entries it holds. Cids of different entries do not overlap (the specification
/// does not say which of two definitions of a code wins).
fn gen_cmap_program_with(rng: &mut Rng, lay: Layout) -> (Vec<u8>, Vec<BfEntry>, String) {
    let mut used = std::collections::BTreeSet::<u16>::new();
    let mut sections: Vec<Vec<BfEntry>> = vec![];
    let nsec = rng.usize(5);
    let mut desc = String::new();
    let small = rng.chance(1, 5); // a one-byte code space
    for _ in 0..nsec {
        let is_char = rng.chance(1, 2);
        let cnt = 1 + rng.usize(6);
        let mut sec = vec![];
        for _ in 0..cnt {
            let maxc: u32 = if small { 255 } else { 65535 };
            let lo = match rng.below(5) { 0 => rng.below(20) as u32, 1 => maxc - rng.below(8) as u32, 2 => rng.below(256) as u32, _ => rng.below(maxc as u64 + 1) as u32 };
            if is_char {
                if used.contains(&(lo as u16)) { continue; }
                used.insert(lo as u16);
                sec.push(BfEntry::Char { cid: lo as u16, s: rand_str(rng) });
                desc.push('c');
            } else {
                let len = 1 + rng.below(12) as u32;
                let hi = (lo + len - 1).min(maxc);
                if (lo..=hi).any(|c| used.contains(&(c as u16))) { continue; }
                for c in lo..=hi { used.insert(c as u16); }
                if rng.chance(1, 2) {
                    // string form: the last byte must not overflow within the range; only the low byte of the last unit
                    // moves, so the strings stay valid UTF-16 (a low surrogate stays in DC00..DFFF)
                    let mut d = utf16be(&rand_str(rng));
                    let l = d.len();
                    if d[l - 1] as u32 + (hi - lo) > 255 { d[l - 1] = (255 - (hi - lo)) as u8; }
                    let ss = (0..=(hi - lo)).map(|i| { let mut x = d.clone(); x[l - 1] += i as u8; utf16be_decode(&x) }).collect();
                    sec.push(BfEntry::RangeStr { lo: lo as u16, ss });
                    desc.push('s');
                } else {
                    let ss = (lo..=hi).map(|_| rand_str(rng)).collect();
                    sec.push(BfEntry::RangeArr { lo: lo as u16, ss });
                    desc.push('a');
                }
            }
        }
        if !sec.is_empty() { sections.push(sec); }
    }
    let mut t = String::new();
    if lay.framed && lay.rich && rng.chance(1, 2) {
        t.push_str(if rng.chance(1, 2) { "%!PS-Adobe-3.0 Resource-CMap\n%%DocumentNeededResources: ProcSet (CIDInit)\r" } else { "%!PS-Adobe-3.0 Resource-CMap\r\n" });
    }
    if lay.framed {
        for tok in ["/CIDInit", "/ProcSet", "findresource", "begin", "12", "dict", "begin", "begincmap"] { push_tok(&mut t, tok, rng, lay); }
        if rng.chance(1, 3) { for tok in ["/Adobe-Japan1-UCS2", "usecmap"] { push_tok(&mut t, tok, rng, lay); } }
        let nj = rng.usize(6);
        let toks = junk_tokens(rng, lay, nj);
        for tok in &toks { push_tok(&mut t, tok, rng, lay); }
        for tok in ["1", "begincodespacerange", "<", if small { "00" } else { "0000" }, ">", "<", if small { "FF" } else { "FFFF" }, ">", "endcodespacerange"] { push_tok(&mut t, tok, rng, lay); }
    }
    let mut all = vec![];
    for sec in &sections {
        let is_char = matches!(sec[0], BfEntry::Char { .. });
        if rng.chance(1, 3) {
            let nj = 1 + rng.usize(3);
            let toks = junk_tokens(rng, lay, nj);
            for tok in &toks { push_tok(&mut t, tok, rng, lay); }
        }
        if rng.chance(5, 6) { push_tok(&mut t, &sec.len().to_string(), rng, lay); }
        push_tok(&mut t, if is_char { "beginbfchar" } else { "beginbfrange" }, rng, lay);
        for e in sec {
            match e {
                BfEntry::Char { cid, s } => {
                    push_tok(&mut t, &code_hex(*cid, rng, lay), rng, lay);
                    push_tok(&mut t, &hexs(&utf16be(s), rng, lay), rng, lay);
                }
                BfEntry::RangeStr { lo, ss } => {
                    push_tok(&mut t, &code_hex(*lo, rng, lay), rng, lay);
                    push_tok(&mut t, &code_hex((*lo as u32 + ss.len() as u32 - 1) as u16, rng, lay), rng, lay);
                    push_tok(&mut t, &hexs(&utf16be(&ss[0]), rng, lay), rng, lay);
                }
                BfEntry::RangeArr { lo, ss } => {
                    push_tok(&mut t, &code_hex(*lo, rng, lay), rng, lay);
                    push_tok(&mut t, &code_hex((*lo as u32 + ss.len() as u32 - 1) as u16, rng, lay), rng, lay);
                    push_tok(&mut t, "[", rng, lay);
                    for s in ss { push_tok(&mut t, &hexs(&utf16be(s), rng, lay), rng, lay); }
                    push_tok(&mut t, "]", rng, lay);
                }
            }
            all.push(e.clone());
        }
        push_tok(&mut t, if is_char { "endbfchar" } else { "endbfrange" }, rng, lay);
    }
    if lay.framed && rng.chance(3, 4) {
        push_tok(&mut t, "endcmap", rng, lay);
        // what follows endcmap is never read
        t.push_str(*rng.pick(&["\nCMapName currentdict /CMap defineresource pop\nend\nend\n", " 1 beginbfchar <0001> <0041> endbfchar\n", "", "\r", "%%EOF", "(", "<"]));
    } else {
        t.push_str(&sep(rng, lay, false));
    }
    (t.into_bytes(), all, desc)
}

fn gen_cmap_program(rng: &mut Rng) -> (Vec<u8>, Vec<BfEntry>, String) {
    let lay = Layout { rich: rng.chance(3, 4), framed: rng.chance(3, 4) };
    gen_cmap_program_with(rng, lay)
}

fn cmap_parse(driver: &Driver, or: &mut Oracle, seed: u64, n: u64, only: Option<u64>, rep: &mut Report) {
    let mut st = Stream::new("c19.cmap.parse", true);
    let mut reqs = vec![];
    let mut creqs = vec![];
    let mut imps = vec![];
    for case in 0..n {
        if only.map(|o| o != case).unwrap_or(false) { continue; }
        let mut rng = Rng::derive(seed, "c19.cmap.parse", case);
        // (a string-form destination stays valid UTF-16 under the increment: only the low byte of the last unit
        //  moves, so a low surrogate stays in DC00..DFFF and a BMP unit never enters D800..DFFF)
        let (text, entries, desc) = gen_cmap_program(&mut rng);
        for ch in desc.chars() { st.count(&format!("entry={}", match ch { 'c' => "bfchar", 's' => "bfrange-string", _ => "bfrange-array" })); }
        let imp = real_parse(&text);
        let exp = show_umap(&spec_denote(&entries));
        let tag = format!("@c19.cmap.parse/{}/{}", seed, case);
        or.case(&tag, entries.len() > 1, || json!({"text": String::from_utf8_lossy(&text), "observed": imp}));
        or.count("stream=c19.cmap.parse");
        if imp != exp {
            or.fail(if imp == "panic" { "panic" } else { "cmap-spec-mismatch" }, &format!("conformant CMap: expected {} got {}", trunc(&exp), trunc(&imp)),
                json!({"stream": "c19.cmap.parse", "seed": seed, "case": case, "text_hex": hex(&text), "expected": exp, "observed": imp}));
        }
        reqs.push(format!("c19.parse {} {}", hex(&text), tag));
        imps.push(imp);
        // domain certificate: the text is a member of `CMapSpells entries` (sound checker run by the driver)
        creqs.push((format!("c19.conf {} {} {}", entries_req(&entries), hex(&text), tag), "1"));
        for (k, b) in [("comment", b'%'), ("form_feed", 0x0cu8), ("nul", 0u8), ("cr", b'\r'), ("literal_string", b'('), ("dict", b'{')] {
            if text.contains(&b) { st.count(&format!("layout={}", k)); }
        }
    }
    if only.is_none() {
        // the certificate must be able to refuse: texts that are no spelling of the entries given
        let e1 = vec![BfEntry::Char { cid: 3, s: vec![0x41] }];
        let e2 = vec![BfEntry::RangeArr { lo: 16, ss: vec![vec![0x41], vec![0x42]] }];
        for (es, text) in [
            (&e1, &b"1 beginbfchar <0003> <0042> endbfchar"[..]),            // other destination
            (&e1, b"1 beginbfchar <0003> <0041> % no end of line"),          // unterminated comment swallows the end
            (&e1, b"1 beginbfchar <0003> (A) endbfchar"),                    // literal string
            (&e1, b"1 beginbfchar <0003> <0041> endbfchar beginbfchar <0004> <0041> endbfchar"), // an entry too many
            (&e2, b"1 beginbfrange <0010> <0011> [<0041>, <0042>] endbfrange"), // comma (D39)
            (&e2, b"1 beginbfrange <0010> <0012> [<0041> <0042>] endbfrange"),  // wrong last code
            (&e1, b"1 beginbfchar<0003><0041>endbfcharx"),                   // block not closed by the keyword
        ] {
            creqs.push((format!("c19.conf {} {} @c19.cmap.conf/0/neg", entries_req(es), hex(text)), "0"));
        }
    }
    let resp = driver.ask(&reqs);
    for ((rq, m), i) in reqs.iter().zip(resp.iter()).zip(imps.iter()) {
        st.case(rq, m, i, rq.len() > 100);
    }
    rep.streams.push(st);
    let mut sc = Stream::new("c19.cmap.conf", true);
    let resp = driver.ask(&creqs.iter().map(|c| c.0.clone()).collect::<Vec<_>>());
    for ((rq, want), m) in creqs.iter().zip(resp.iter()) {
        sc.count(if m == "1" { "certified" } else { "refused" });
        sc.case(rq, m, want, rq.len() > 100);
    }
    rep.streams.push(sc);
}

fn cmap_file(driver: &Driver, or: &mut Oracle, seed: u64, n: u64, only: Option<u64>, rep: &mut Report) {
    let mut st = Stream::new("c19.cmap.file", true);
    let mut reqs = vec![];
    let mut imps = vec![];
    for case in 0..n {
        if only.map(|o| o != case).unwrap_or(false) { continue; }
        let mut rng = Rng::derive(seed, "c19.cmap.file", case);
        let (text, entries, _) = gen_cmap_program(&mut rng);
        let flate = rng.chance(1, 2);
        let type0 = rng.chance(1, 2);
        let tu_on_cid = !type0;
        let textc = text.clone();
        let (bytes, font_id) = font_file(
            &mut rng,
            move |_objs, _next| {
                format!("<< /Type /Font /Subtype /CIDFontType2 /BaseFont /Verif /CIDSystemInfo << /Registry (Adobe) /Ordering (Identity) /Supplement 0 >> /FontDescriptor 5 0 R /W [] {}>>", if tu_on_cid { "/ToUnicode 10 0 R " } else { "" })
            },
            type0,
            Some((&textc, flate)),
        );
        let cached = rng.chance(1, 2);
        st.count(&format!("mode={},{},{}", if type0 { "type0" } else { "cidfont" }, if flate { "flate" } else { "plain" }, if cached { "cached" } else { "uncached" }));
        let data = bytes.clone();
        let imp = no_panic(move || {
            macro_rules! go {
                ($f:expr) => {{
                    let file = match $f { Ok(f) => f, Err(e) => return format!("load-failed: {}", e) };
                    let res = file.resolver();
                    let font = match res.get::<Font>(Ref::new(PlainRef { id: font_id, gen: 0 })) { Ok(f) => f, Err(e) => return format!("font-failed: {}", e) };
                    match font.to_unicode(&res) {
                        Some(Ok(m)) => show_umap(&to_umap(&m)),
                        Some(Err(_)) => "err".to_string(),
                        None => "none".to_string(),
                    }
                }};
            }
            if cached { go!(FileOptions::cached().load(data)) } else { go!(FileOptions::uncached().load(data)) }
        }).unwrap_or_else(|_| "panic".into());
        let exp = show_umap(&spec_denote(&entries));
        let tag = format!("@c19.cmap.file/{}/{}", seed, case);
        or.case(&tag, entries.len() > 1, || json!({"observed": imp}));
        or.count("stream=c19.cmap.file");
        if imp != exp {
            or.fail(if imp == "panic" { "panic" } else { "cmap-spec-mismatch" }, &format!("conformant CMap in a /ToUnicode stream: expected {} got {}", trunc(&exp), trunc(&imp)),
                json!({"stream": "c19.cmap.file", "seed": seed, "case": case, "file_hex": hex(&bytes), "expected": exp, "observed": imp}));
        }
        reqs.push(format!("c19.parse {} {}", hex(&text), tag));
        imps.push(imp);
    }
    let resp = driver.ask(&reqs);
    for ((rq, m), i) in reqs.iter().zip(resp.iter()).zip(imps.iter()) {
        st.case(rq, m, i, rq.len() > 100);
    }
    rep.streams.push(st);
}

fn cmap_outside(driver: &Driver, seed: u64, n: u64, rep: &mut Report) {
    let mut st = Stream::new("c19.cmap.outside", false);
    let mut reqs = vec![];
    let mut imps = vec![];
    // bytes that keep the text away from constructs other packages are repairing (form feed, `+`, literal strings)
    let alphabet: &[u8] = b"<>[]0123456789ABCDEFabcdef \n\tbeginfchrax/,.{}";
    for case in 0..n {
        let mut rng = Rng::derive(seed, "c19.cmap.outside", case);
        // plain layout (no literal strings, comments, `endcmap`): the damage below may move anything into a section
        let (mut text, _, _) = gen_cmap_program_with(&mut rng, Layout { rich: false, framed: false });
        let kind = rng.below(8);
        match kind {
            0 => { let k = 1 + rng.usize(3); for _ in 0..k { if !text.is_empty() { let i = rng.usize(text.len()); text[i] = *rng.pick(alphabet); } } }
            1 => { if !text.is_empty() { let i = rng.usize(text.len()); text.truncate(i); } }
            2 => { text.extend_from_slice(b"\n1 beginbfchar\n<0005> <D800>\n<0006> <DC000041>\n<0007> <D83D>\n<0008> <0041D83DDE00>\nendbfchar\n"); }
            3 => { text.extend_from_slice(b"\n1 beginbfchar\n<005> <004>\n<01> <4>\n<0102> <>\n<> <0041>\nendbfchar\n1 beginbfrange <0001> <0002> <> <0003> <0004> <41> endbfrange\n"); }
            4 => { text.extend_from_slice(b"\n1 beginbfchar\n<000102> <0041>\n<0009> <0042>\nendbfchar\n"); }
            5 => { text.extend_from_slice(b"\n2 beginbfrange\n<0010> <0020> <00FE>\n<0030> <0035> [<0041> <0042>]\n<0040> <003F> <0043>\n<0050> <0051> [<0044> <0045> <0046>]\nendbfrange\n"); }
            6 => { text.extend_from_slice(b"\n1 beginbfrange\n<0010> <0011> [<0041>, <0042>]\n<0012> <0012> <0043>\nendbfrange\n1 beginbfchar <0013> <0044> endbfchar\n"); }
            _ => { let i = rng.usize(text.len() + 1); let ins: &[u8] = *rng.pick(&[&b" beginbfchar "[..], b" beginbfrange ", b" endcmap ", b" <0041> ", b" [ ", b" ] ", b"<<", b">>"]); let tail = text.split_off(i); text.extend_from_slice(ins); text.extend_from_slice(&tail); }
        }
        st.count(&format!("damage={}", kind));
        imps.push(real_parse(&text));
        reqs.push(format!("c19.parse {} @c19.cmap.outside/{}/{}", hex(&text), seed, case));
    }
    let resp = driver.ask(&reqs);
    for ((rq, m), i) in reqs.iter().zip(resp.iter()).zip(imps.iter()) {
        st.count(&format!("model={}", m.split(' ').next().unwrap_or("")));
        if m == "unmodelled" {
            continue; // outside the modelled fragment: nothing to compare
        }
        st.case(rq, m, i, true);
    }
    rep.streams.push(st);
}

// ---------------------------------------------------------------------------------------------------
// regression witnesses of the repaired defects

/// the primitives of a /W array from the model-request notation (`items_req(.., true)`)
fn prims_from_req(items: &str) -> Vec<Primitive> {
    fn elem(t: &str) -> Primitive {
        if let Some(r) = t.strip_prefix('i') {
            Primitive::Integer(r.split(':').next().unwrap().parse().unwrap())
        } else if let Some(r) = t.strip_prefix('r') {
            Primitive::Number(f32::from_bits(r.parse().unwrap()))
        } else if t == "X" {
            Primitive::Reference(PlainRef { id: 999, gen: 0 })
        } else {
            Primitive::Name("Fnord".into())
        }
    }
    if items == "-" {
        return vec![];
    }
    items
        .split(',')
        .map(|t| {
            if t.starts_with('[') {
                let inner = &t[1..t.len() - 1];
                Primitive::Array(if inner.is_empty() { vec![] } else { inner.split(';').map(elem).collect() })
            } else {
                elem(t)
            }
        })
        .collect()
}

fn child_w(items: &str, codes: &[usize]) -> String {
    let prims = prims_from_req(items);
    match no_panic(|| show_widths(&mem_cid_font(1000.0, prims, false), &NoResolve, codes)) {
        Ok(s) => s,
        Err(_) => "panic".into(),
    }
}

/// run `child_w` in a child process with a memory and a time limit
fn run_child_w(items: &str, codes: &[usize]) -> String {
    let exe = std::env::current_exe().expect("current_exe");
    let dir = std::env::temp_dir();
    let pid = std::process::id();
    static SEQ: std::sync::atomic::AtomicU64 = std::sync::atomic::AtomicU64::new(0);
    let seq = SEQ.fetch_add(1, std::sync::atomic::Ordering::SeqCst);
    let rp = dir.join(format!("pdfverif-c19-{}-{}.replay.json", pid, seq));
    let out = dir.join(format!("pdfverif-c19-{}-{}.out.json", pid, seq));
    std::fs::write(&rp, json!({"child_w": items, "codes": codes}).to_string()).expect("write child replay");
    let _ = std::fs::remove_file(&out);
    let cmd = format!("ulimit -v 3000000; exec '{}' C19 --tier quick --seed 0 --driver /nonexistent --out '{}' --replay '{}'", exe.display(), out.display(), rp.display());
    let mut child = match std::process::Command::new("sh").arg("-c").arg(&cmd).stdout(std::process::Stdio::null()).stderr(std::process::Stdio::null()).spawn() {
        Ok(c) => c,
        Err(e) => return format!("spawn-failed: {}", e),
    };
    let t0 = std::time::Instant::now();
    let res = loop {
        match child.try_wait() {
            Ok(Some(status)) => {
                if status.success() {
                    break std::fs::read_to_string(&out).ok().and_then(|t| serde_json::from_str::<serde_json::Value>(&t).ok()).and_then(|v| v["extra"]["child_result"].as_str().map(|s| s.to_string())).unwrap_or_else(|| "no-result".into());
                } else {
                    break format!("abnormal-exit: {:?}", status);
                }
            }
            Ok(None) => {
                if t0.elapsed().as_secs() >= 20 {
                    let _ = child.kill();
                    let _ = child.wait();
                    break "timeout".to_string();
                }
                std::thread::sleep(std::time::Duration::from_millis(10));
            }
            Err(e) => break format!("wait-failed: {}", e),
        }
    };
    let _ = std::fs::remove_file(&rp);
    let _ = std::fs::remove_file(&out);
    res
}

fn regressions(or: &mut Oracle) {
    // D39: the range form written by write_cmap must be readable
    let mut m = UMap::new();
    m.insert(1, vec![0x41]);
    m.insert(2, vec![0x42]);
    m.insert(3, vec![0x1F600]);
    m.insert(9, vec![0x43]);
    let back = real_write(&m).map(|t| real_parse(t.as_bytes())).unwrap_or_else(|_| "panic".into());
    or.case("D39", true, || json!({"witness": "D39", "observed": back}));
    or.count("witness=D39");
    if back != show_umap(&m) {
        or.fail("write-read-mismatch", &format!("D39 witness {{1:A,2:B,3:U+1F600,9:C}}: write_cmap then to_unicode gives {}", back), json!({"stream": "c19.regress", "witness": "D39", "observed": back}));
    }
    type0_without_descendants(or);
    // simple font: /MissingWidth is the width of the codes outside the table (was a constant 0)
    {
        let got = no_panic(|| {
            let info = TFont { base_font: None, first_char: Some(32), last_char: Some(33), widths: Some(vec![600.0, 700.0]), font_descriptor: Some(descriptor_mw(500.0)) };
            let f = Font { subtype: FontType::Type1, name: Some(Name::from("Verif")), data: FontData::Type1(info), encoding: None, to_unicode: None, _other: Dictionary::new() };
            match f.widths(&NoResolve) { Ok(Some(w)) => format!("{} {} {} {}", w.get(31), w.get(32), w.get(33), w.get(34)), _ => "no-widths".into() }
        }).unwrap_or_else(|_| "panic".into());
        or.case("missing-width", true, || json!({"witness": "missing-width", "observed": got}));
        or.count("witness=missing-width");
        if got != "500 600 700 500" {
            or.fail("simple-width-mismatch", &format!("MissingWidth witness (FirstChar 32, Widths [600 700], MissingWidth 500), codes 31..34: expected 500 600 700 500 got {}", got), json!({"stream": "c19.regress", "witness": "missing-width", "observed": got}));
        }
    }
    // D33 (font part)
    for (name, items, want) in [
        ("D33-empty-run-at-0", "i0:0,[]", "ok"),
        ("D33-negative-last", "i0:0,i-1:0,i500:0", "err"),
        ("D33-huge-last", "i0:0,i2147483647:0,i500:0", "err"),
        ("D33-first-beyond-range", "i2147483647:0,[i600:0;i700:0]", "err"),
    ] {
        let got = run_child_w(items, &[0, 1, 2, 65535]);
        or.case(name, true, || json!({"witness": name, "w": items, "observed": got}));
        or.count(&format!("witness={}", name));
        if !got.starts_with(want) {
            let sig = if got == "panic" { "panic" } else if got == "timeout" || got.starts_with("abnormal-exit") { "hang-or-abort" } else { "width-mismatch" };
            or.fail(sig, &format!("{} witness /W [{}]: expected `{}…`, got {}", name, items.replace(',', " "), want, got), json!({"stream": "c19.regress", "witness": name, "child_w": items, "observed": got}));
        }
    }
}

/// a Type0 font whose /DescendantFonts is empty: `Font::widths` indexed `descendant_fonts[0]`
fn type0_without_descendants(or: &mut Oracle) {
    let got = no_panic(|| {
        let f = Font { subtype: FontType::Type0, name: Some(Name::from("Verif")), data: FontData::Type0(Type0Font { descendant_fonts: vec![], to_unicode: None }), encoding: None, to_unicode: None, _other: Dictionary::new() };
        show_widths(&f, &NoResolve, &[0, 1])
    }).unwrap_or_else(|_| "panic".into());
    or.case("type0-no-descendants", true, || json!({"witness": "type0-no-descendants", "observed": got}));
    or.count("witness=type0-no-descendants");
    if got == "panic" {
        or.fail("panic", "Type0 font with an empty /DescendantFonts: Font::widths panicked", json!({"stream": "c19.regress", "witness": "type0-no-descendants", "observed": got}));
    }
}

fn parse_tag(r: &serde_json::Value) -> Option<(String, u64, u64)> {
    let from_req = |q: &str| -> Option<(String, u64, u64)> {
        let tag = q.split(' ').find(|f| f.starts_with('@'))?;
        let p: Vec<&str> = tag[1..].split('/').collect();
        // (the case field of the exhaustive stream is a group-index list: the whole stream is re-run)
        if p.len() == 3 { Some((p[0].to_string(), p[1].parse().ok()?, p[2].parse().unwrap_or(0))) } else { None }
    };
    if let Some(q) = r["disagreement"]["request"].as_str() {
        return from_req(q);
    }
    if let (Some(s), Some(seed), Some(case)) = (r["stream"].as_str(), r["seed"].as_u64(), r["case"].as_u64()) {
        return Some((s.to_string(), seed, case));
    }
    r["request"].as_str().and_then(from_req)
}

pub fn run(driver: &Driver, seed: u64, thorough: bool, replay: Option<&serde_json::Value>) -> Report {
    let mut rep = Report::new("C19");
    if let Some(r) = replay {
        if let Some(items) = r["child_w"].as_str() {
            if r["stream"].as_str() != Some("c19.regress") {
                // child process of `run_child_w`
                let codes: Vec<usize> = r["codes"].as_array().map(|a| a.iter().filter_map(|c| c.as_u64()).map(|c| c as usize).collect()).unwrap_or_default();
                rep.extra.insert("child_result".into(), json!(child_w(items, &codes)));
                return rep;
            }
        }
        let mut or_w = Oracle::new("c19.width");
        let mut or_rt = Oracle::new("c19.roundtrip");
        let mut or_sp = Oracle::new("c19.cmapspec");
        let mut or_rg = Oracle::new("c19.regress");
        match parse_tag(r) {
            Some((stream, seed, case)) => match stream.as_str() {
                "c19.w.disjoint" | "c19.w.any" => w_random(driver, &mut or_w, seed, case + 1, Some(case), &mut rep),
                "c19.w.file" => w_file(driver, &mut or_w, seed, case + 1, Some(case), &mut rep),
                "c19.cmap.write" => cmap_write(driver, &mut or_rt, seed, case + 1, Some(case), &mut rep),
                "c19.cmap.parse" => cmap_parse(driver, &mut or_sp, seed, case + 1, Some(case), &mut rep),
                "c19.cmap.file" => cmap_file(driver, &mut or_sp, seed, case + 1, Some(case), &mut rep),
                "c19.w.exhaustive" => w_exhaustive(driver, &mut or_w, seed, false, &mut rep),
                "c19.simple" => simple_streams(driver, &mut or_w, seed, case + 1, &mut rep),
                "c19.fontw" => font_by_subtype(driver, &mut or_w, seed, case + 1, Some(case), &mut rep),
                "c19.diff" | "c19.diff.outside" | "c19.diffwrite" => encoding_streams(driver, &mut or_w, seed, case + 1, Some(case), &mut rep),
                "c19.w.outside" => w_outside(driver, seed, case + 1, &mut rep),
                "c19.cmap.outside" => cmap_outside(driver, seed, case + 1, &mut rep),
                _ => regressions(&mut or_rg),
            },
            None => regressions(&mut or_rg),
        }
        rep.oracles.extend([or_w, or_rt, or_sp, or_rg]);
        return rep;
    }
    let mut or_rg = Oracle::new("c19.regress");
    regressions(&mut or_rg);
    let mut or_w = Oracle::new("c19.width");
    w_exhaustive(driver, &mut or_w, seed, thorough, &mut rep);
    w_random(driver, &mut or_w, seed, if thorough { 200_000 } else { 8000 }, None, &mut rep);
    w_file(driver, &mut or_w, seed, if thorough { 20_000 } else { 1000 }, None, &mut rep);
    w_outside(driver, seed, if thorough { 50_000 } else { 1500 }, &mut rep);
    simple_streams(driver, &mut or_w, seed, if thorough { 50_000 } else { 1500 }, &mut rep);
    font_by_subtype(driver, &mut or_w, seed, if thorough { 30_000 } else { 1200 }, None, &mut rep);
    let mut or_enc = Oracle::new("c19.encoding");
    encoding_streams(driver, &mut or_enc, seed, if thorough { 100_000 } else { 3000 }, None, &mut rep);
    let mut or_rt = Oracle::new("c19.roundtrip");
    cmap_write(driver, &mut or_rt, seed, if thorough { 100_000 } else { 5000 }, None, &mut rep);
    let mut or_sp = Oracle::new("c19.cmapspec");
    cmap_parse(driver, &mut or_sp, seed, if thorough { 100_000 } else { 5000 }, None, &mut rep);
    cmap_file(driver, &mut or_sp, seed, if thorough { 10_000 } else { 600 }, None, &mut rep);
    cmap_outside(driver, seed, if thorough { 100_000 } else { 4000 }, &mut rep);
    // merge the two `c19.w.any` streams
    let mut merged: Vec<Stream> = vec![];
    for s in rep.streams.drain(..) {
        if let Some(m) = merged.iter_mut().find(|m| m.name == s.name) {
            m.cases += s.cases;
            m.distinct_nontrivial += s.distinct_nontrivial;
            m.disagreements.extend(s.disagreements);
            for (k, v) in s.histogram { *m.histogram.entry(k).or_insert(0) += v; }
        } else {
            merged.push(s);
        }
    }
    rep.streams = merged;
    rep.oracles.extend([or_rg, or_w, or_rt, or_sp, or_enc]);
    rep
}
