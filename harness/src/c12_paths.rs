//! C12, construction paths: however a configuration is put together — every order of the builder calls
//! `.parse_options`, `.password`, `.cache`, `.log`, starting from `uncached()` or `cached()`, or
//! `Storage::with_cache` + `File::new` directly, or `set_options` after loading — it answers what the plainest
//! construction `FileOptions::uncached().password(pw).parse_options(po).load(bytes)` answers for the same parse
//! options and password. Run on documents on which the option sets differ (wrong-typed optional entry, optional
//! reference to a wrong-typed object, truncated xref stream, invalid content operator, missing `endobj`) and on
//! an encrypted document that needs its user password, × six option sets (strict, tolerant, each flag on its own).
//! The oracle also checks that it is not vacuous: per family, the option sets must not all answer the same.

use super::debug_hash;
use crate::registry::c06::doc as encdoc;
use crate::report::Oracle;
use crate::rng::Rng;
use crate::util::err_class;
use pdf::any::AnySync;
use pdf::error::PdfError;
use pdf::file::{Cache, File, FileOptions, Log, NoCache, NoLog, ObjectCache, Storage, StreamCache, SyncCache, Trailer};
use pdf::object::{Object, ParseOptions, PlainRef, Resolve};
use pdf::primitive::Primitive;
use serde_json::{json, Value};
use std::panic::{catch_unwind, AssertUnwindSafe};
use std::sync::atomic::{AtomicUsize, Ordering};
use std::sync::Arc;

pub const N_OPTION_SETS: u8 = 6;

pub fn mk_po(code: u8) -> ParseOptions {
    let s = ParseOptions::strict();
    match code {
        0 => s,
        1 => ParseOptions::tolerant(),
        2 => ParseOptions { allow_error_in_option: true, ..s },
        3 => ParseOptions { allow_xref_error: true, ..s },
        4 => ParseOptions { allow_invalid_ops: false, ..s },
        _ => ParseOptions { allow_missing_endobj: true, ..s },
    }
}

pub fn po_text(code: u8) -> &'static str {
    ["strict", "tolerant", "only-error-in-option", "only-xref-error", "no-invalid-ops", "only-missing-endobj"][code as usize % 6]
}

/// a cache of the user's own: computes every time
pub struct PassCache;
impl<T: Clone> Cache<T> for PassCache {
    fn get_or_compute(&self, _key: PlainRef, compute: impl FnOnce() -> T) -> T { compute() }
    fn clear(&self) {}
}

#[derive(Clone)]
pub struct CountLog(pub Arc<AtomicUsize>);
impl Log for CountLog {
    fn load_object(&self, _r: PlainRef) { self.0.fetch_add(1, Ordering::Relaxed); }
    fn log_get(&self, _r: PlainRef) { self.0.fetch_add(1, Ordering::Relaxed); }
}

// ---------------------------------------------------------------------------------------------------
// the documents

fn classic(objs: &[(u64, String)], size: u64, root: u64, no_endobj: Option<u64>) -> Vec<u8> {
    let mut out = b"%PDF-1.7\n".to_vec();
    let mut offs: Vec<Option<usize>> = vec![None; size as usize];
    for (id, body) in objs {
        offs[*id as usize] = Some(out.len());
        out.extend_from_slice(format!("{} 0 obj\n{}\n", id, body).as_bytes());
        if no_endobj != Some(*id) { out.extend_from_slice(b"endobj\n"); }
    }
    let xref = out.len();
    out.extend_from_slice(format!("xref\n0 {}\n", size).as_bytes());
    for (i, o) in offs.iter().enumerate() {
        match o {
            Some(p) => out.extend_from_slice(format!("{:010} 00000 n \n", p).as_bytes()),
            None => out.extend_from_slice(format!("{:010} {:05} f \n", 0, if i == 0 { 65535 } else { 0 }).as_bytes()),
        }
    }
    out.extend_from_slice(format!("trailer\n<< /Size {} /Root {} 0 R >>\nstartxref\n{}\n%%EOF\n", size, root, xref).as_bytes());
    out
}

fn stream_obj(data: &str) -> String {
    format!("<< /Length {} >>\nstream\n{}\nendstream", data.len(), data)
}

fn tree(page_extra: &str, content: &str) -> Vec<(u64, String)> {
    vec![
        (1, "<< /Type /Catalog /Pages 2 0 R >>".into()),
        (2, "<< /Type /Pages /Kids [3 0 R] /Count 1 >>".into()),
        (3, format!("<< /Type /Page /Parent 2 0 R /Contents 4 0 R {} >>", page_extra)),
        (4, stream_obj(content)),
        (5, "1005".into()),
    ]
}

/// a cross-reference stream that announces more entries than it has data for; the objects the document needs
/// are among the entries that are there
fn truncated_xref_stream() -> Vec<u8> {
    let objs = tree("/MediaBox [0 0 10 10]", "0 0 m 1 1 l S");
    let mut out = b"%PDF-1.7\n".to_vec();
    let mut offs = vec![0usize; 7];
    for (id, body) in &objs {
        offs[*id as usize] = out.len();
        out.extend_from_slice(format!("{} 0 obj\n{}\nendobj\n", id, body).as_bytes());
    }
    let xpos = out.len();
    offs[6] = xpos;
    let mut data: Vec<u8> = vec![0, 0, 0, 255];
    for id in 1..=6 {
        data.push(1);
        data.push((offs[id] >> 8) as u8);
        data.push((offs[id] & 255) as u8);
        data.push(0);
    }
    // 7 entries of data, 12 announced
    out.extend_from_slice(format!("6 0 obj\n<< /Type /XRef /Size 12 /W [1 2 1] /Root 1 0 R /Length {} >>\nstream\n", data.len()).as_bytes());
    out.extend_from_slice(&data);
    out.extend_from_slice(format!("\nendstream\nendobj\nstartxref\n{}\n%%EOF\n", xpos).as_bytes());
    out
}

pub struct PDoc {
    pub family: &'static str,
    pub bytes: Vec<u8>,
    pub password: Vec<u8>,
    pub ids: Vec<u64>,
}

pub fn documents() -> Vec<PDoc> {
    let plain = |family: &'static str, bytes: Vec<u8>| PDoc { family, bytes, password: vec![], ids: vec![1, 2, 3, 4, 5] };
    let mut v = vec![
        plain("wrong-typed-optional-entry", classic(&tree("/MediaBox (oops)", "0 0 m 1 1 l S"), 6, 1, None)),
        plain("optional-reference-to-wrong-type", classic(&tree("/MediaBox [0 0 10 10] /Resources 5 0 R", "0 0 m 1 1 l S"), 6, 1, None)),
        plain("dangling-optional-reference", classic(&tree("/MediaBox [0 0 10 10] /Resources 9 0 R", "0 0 m 1 1 l S"), 6, 1, None)),
        plain("truncated-xref-stream", truncated_xref_stream()),
        plain("invalid-content-operator", classic(&tree("/MediaBox [0 0 10 10]", "0 0 m 3 l (x) Tf 1 1 l S"), 6, 1, None)),
        plain("missing-endobj", classic(&tree("/MediaBox [0 0 10 10]", "0 0 m 1 1 l S"), 6, 1, Some(3))),
    ];
    // an encrypted document: without the password handed through it does not open
    let mut rng = Rng::derive(0xC12, "c12.paths.encrypted", 0);
    let variant = encdoc::variants().into_iter().find(|x| x.name == "R3-RC4" && x.n == 16).expect("variant");
    let opt = encdoc::DocOptions { stray_em_false: false, tweak: None, variant, encrypt_metadata: true, indirect_encrypt: true, xref_stream: false, with_metadata: false, with_objstm: false };
    let d = encdoc::build(&mut rng, &opt, b"user", b"owner");
    let ids: Vec<u64> = d.objects.iter().map(|o| o.id).filter(|id| *id < 1000).take(6).collect();
    v.push(PDoc { family: "encrypted-needs-password", bytes: d.bytes.clone(), password: b"user".to_vec(), ids });
    v
}

// ---------------------------------------------------------------------------------------------------
// what a file answers

fn answers<OC, SC, L>(file: &File<Vec<u8>, OC, SC, L>, ids: &[u64], with_open: bool) -> String
where
    OC: Cache<Result<AnySync, Arc<PdfError>>>,
    SC: Cache<Result<Arc<[u8]>, Arc<PdfError>>>,
    L: Log,
{
    let mut out = vec![];
    if with_open {
        out.push(format!("open:ok,pages={},root={}", file.num_pages(), debug_hash(file.get_root())));
    }
    let resolver = file.resolver();
    for n in 0..file.num_pages().min(3) {
        match file.get_page(n) {
            Ok(p) => {
                out.push(format!("page{}:{}", n, debug_hash(&*p)));
                match &p.contents {
                    Some(c) => match c.operations(&resolver) {
                        Ok(ops) => out.push(format!("ops{}:{}:{}", n, ops.len(), debug_hash(&ops))),
                        Err(e) => out.push(format!("ops{}:err:{}", n, err_class(&e))),
                    },
                    None => out.push(format!("ops{}:none", n)),
                }
            }
            Err(e) => out.push(format!("page{}:err:{}", n, err_class(&e))),
        }
    }
    for id in ids {
        match resolver.resolve(PlainRef { id: *id, gen: 0 }) {
            Ok(p) => out.push(format!("r{}:{}", id, debug_hash(&p))),
            Err(e) => out.push(format!("r{}:err:{}", id, err_class(&e))),
        }
    }
    out.join(";")
}

fn outcome<OC, SC, L>(r: std::thread::Result<pdf::error::Result<File<Vec<u8>, OC, SC, L>>>, ids: &[u64]) -> String
where
    OC: Cache<Result<AnySync, Arc<PdfError>>>,
    SC: Cache<Result<Arc<[u8]>, Arc<PdfError>>>,
    L: Log,
{
    match r {
        Err(_) => "open:panic".into(),
        Ok(Err(e)) => format!("open:err:{}", err_class(&e)),
        Ok(Ok(f)) => catch_unwind(AssertUnwindSafe(|| answers(&f, ids, true))).unwrap_or_else(|_| "panic".into()),
    }
}

/// the plainest construction
pub fn baseline(d: &PDoc, po: u8) -> String {
    let r = catch_unwind(AssertUnwindSafe(|| FileOptions::uncached().password(&d.password).parse_options(mk_po(po)).load(d.bytes.clone())));
    outcome(r, &d.ids)
}

struct Ctx<'a> {
    d: &'a PDoc,
    po: u8,
    base: &'a str,
    or: &'a mut Oracle,
    case: u64,
}

impl<'a> Ctx<'a> {
    fn judge(&mut self, path: &str, got: String) {
        let key = format!("{} {} {}", self.d.family, po_text(self.po), path);
        let (family, po) = (self.d.family, self.po);
        self.or.case(&key, true, || json!({"family": family, "options": po_text(po), "path": path, "answers": got.chars().take(160).collect::<String>()}));
        self.or.count(&format!("family={}", self.d.family));
        if got != self.base {
            let replay = json!({"stream": "c12.paths", "oracle": "c12.paths", "case": self.case, "family": self.d.family, "options": po_text(self.po), "path": path,
                "password_hex": crate::driver::hex(&self.d.password), "file_hex": crate::driver::hex(&self.d.bytes)});
            self.or.fail("construction-path-changes-answers",
                &format!("{} with parse options `{}`: the configuration built as `{}` answers {} but `uncached().password(pw).parse_options(po).load(..)` answers {}",
                    self.d.family, po_text(self.po), path, got.chars().take(200).collect::<String>(), self.base.chars().take(200).collect::<String>()), replay);
        }
    }
}

macro_rules! bstep {
    ($o:expr, P, $c:ident, $mk:expr) => { $o.parse_options(mk_po($c.po)) };
    ($o:expr, W, $c:ident, $mk:expr) => { $o.password(&$c.d.password) };
    ($o:expr, C, $c:ident, $mk:expr) => {{ let (oc, sc) = $mk; $o.cache(oc, sc) }};
    ($o:expr, L, $c:ident, $mk:expr) => { $o.log(CountLog(Arc::new(AtomicUsize::new(0)))) };
}

/// `base` followed by the builder calls named by the letters, then `load`
macro_rules! path {
    ($c:ident, $bname:expr, $base:expr, $mk:expr, $kname:expr; $($s:ident)*) => {{
        let name = format!("{}{}.load [caches: {}]", $bname, [$(stringify!($s)),*].iter().map(|s| match *s { "P" => ".parse_options(po)", "W" => ".password(pw)", "C" => ".cache(oc, sc)", _ => ".log(l)" }).collect::<String>(), $kname);
        let bytes = $c.d.bytes.clone();
        let r = catch_unwind(AssertUnwindSafe(|| {
            let o = $base;
            $( let o = bstep!(o, $s, $c, $mk); )*
            o.load(bytes)
        }));
        let got = outcome(r, &$c.d.ids);
        $c.judge(&name, got);
    }};
}

/// every order of the four builder calls (and the short forms) from `uncached()` and from `cached()`
macro_rules! all_orders {
    ($c:ident, $mk:expr, $kname:expr) => {{
        all_orders!(@from $c, "uncached()", FileOptions::uncached(), $mk, $kname);
        all_orders!(@from $c, "cached()", FileOptions::cached(), $mk, $kname);
    }};
    (@from $c:ident, $bname:expr, $base:expr, $mk:expr, $kname:expr) => {{
        // the short forms need the password where the document has one
        path!($c, $bname, $base, $mk, $kname; W P C);
        path!($c, $bname, $base, $mk, $kname; W C P);
        path!($c, $bname, $base, $mk, $kname; P C W);
        path!($c, $bname, $base, $mk, $kname; C P W);
        path!($c, $bname, $base, $mk, $kname; P W C);
        path!($c, $bname, $base, $mk, $kname; C W P);
        path!($c, $bname, $base, $mk, $kname; P W L);
        path!($c, $bname, $base, $mk, $kname; L W P);
        path!($c, $bname, $base, $mk, $kname; W L P);
        path!($c, $bname, $base, $mk, $kname; P W C L);
        path!($c, $bname, $base, $mk, $kname; P W L C);
        path!($c, $bname, $base, $mk, $kname; P C W L);
        path!($c, $bname, $base, $mk, $kname; P C L W);
        path!($c, $bname, $base, $mk, $kname; P L W C);
        path!($c, $bname, $base, $mk, $kname; P L C W);
        path!($c, $bname, $base, $mk, $kname; W P C L);
        path!($c, $bname, $base, $mk, $kname; W P L C);
        path!($c, $bname, $base, $mk, $kname; W C P L);
        path!($c, $bname, $base, $mk, $kname; W C L P);
        path!($c, $bname, $base, $mk, $kname; W L P C);
        path!($c, $bname, $base, $mk, $kname; W L C P);
        path!($c, $bname, $base, $mk, $kname; C P W L);
        path!($c, $bname, $base, $mk, $kname; C P L W);
        path!($c, $bname, $base, $mk, $kname; C W P L);
        path!($c, $bname, $base, $mk, $kname; C W L P);
        path!($c, $bname, $base, $mk, $kname; C L P W);
        path!($c, $bname, $base, $mk, $kname; C L W P);
        path!($c, $bname, $base, $mk, $kname; L P W C);
        path!($c, $bname, $base, $mk, $kname; L P C W);
        path!($c, $bname, $base, $mk, $kname; L W P C);
        path!($c, $bname, $base, $mk, $kname; L W C P);
        path!($c, $bname, $base, $mk, $kname; L C P W);
        path!($c, $bname, $base, $mk, $kname; L C W P);
    }};
}

/// `Storage::with_cache` + `load_storage_and_trailer_password` + `Trailer::from_primitive` + `File::new`
fn direct<OC, SC, L>(d: &PDoc, po: u8, oc: OC, sc: SC, log: L) -> pdf::error::Result<File<Vec<u8>, OC, SC, L>>
where
    OC: Cache<Result<AnySync, Arc<PdfError>>>,
    SC: Cache<Result<Arc<[u8]>, Arc<PdfError>>>,
    L: Log,
{
    let mut storage = Storage::with_cache(d.bytes.clone(), mk_po(po), oc, sc, log)?;
    let dict = storage.load_storage_and_trailer_password(&d.password)?;
    let trailer = {
        let r = storage.resolver();
        Trailer::from_primitive(Primitive::Dictionary(dict), &r)?
    };
    Ok(File::new(storage, trailer))
}

macro_rules! direct_path {
    ($c:ident, $mk:expr, $kname:expr) => {{
        let r = catch_unwind(AssertUnwindSafe(|| { let (oc, sc) = $mk; direct($c.d, $c.po, oc, sc, NoLog) }));
        let got = outcome(r, &$c.d.ids);
        $c.judge(&format!("Storage::with_cache(bytes, po, oc, sc, NoLog) + File::new [caches: {}]", $kname), got);
        let r = catch_unwind(AssertUnwindSafe(|| { let (oc, sc) = $mk; direct($c.d, $c.po, oc, sc, CountLog(Arc::new(AtomicUsize::new(0)))) }));
        let got = outcome(r, &$c.d.ids);
        $c.judge(&format!("Storage::with_cache(bytes, po, oc, sc, log) + File::new [caches: {}]", $kname), got);
    }};
}

fn one(d: &PDoc, po: u8, base: &str, or: &mut Oracle, case: u64) {
    let mut c = Ctx { d, po, base, or, case };
    all_orders!(c, (NoCache, NoCache), "none");
    all_orders!(c, { let oc: ObjectCache = SyncCache::new(); (oc, NoCache) }, "object cache");
    all_orders!(c, { let sc: StreamCache = SyncCache::new(); (NoCache, sc) }, "stream cache");
    all_orders!(c, { let oc: ObjectCache = SyncCache::new(); let sc: StreamCache = SyncCache::new(); (oc, sc) }, "both");
    all_orders!(c, (PassCache, PassCache), "custom");
    direct_path!(c, (NoCache, NoCache), "none");
    direct_path!(c, { let oc: ObjectCache = SyncCache::new(); let sc: StreamCache = SyncCache::new(); (oc, sc) }, "both");
    direct_path!(c, (PassCache, PassCache), "custom");
    // `cached()` without `.cache(..)`, and `uncached()` with fresh SyncCaches: the same thing
    path!(c, "cached()", FileOptions::cached(), (NoCache, NoCache), "its own"; W P);
    path!(c, "cached()", FileOptions::cached(), (NoCache, NoCache), "its own"; P W);
    path!(c, "cached()", FileOptions::cached(), (NoCache, NoCache), "its own"; P L W);
    // no `.parse_options(..)` at all: the default is strict, whatever else is called
    if po == 0 {
        path!(c, "cached()", FileOptions::cached(), (NoCache, NoCache), "its own"; W);
        path!(c, "cached()", FileOptions::cached(), (NoCache, NoCache), "its own"; W L);
        path!(c, "cached()", FileOptions::cached(), (PassCache, PassCache), "custom"; C W);
        path!(c, "cached()", FileOptions::cached(), (PassCache, PassCache), "custom"; L C W);
        path!(c, "uncached()", FileOptions::uncached(), (NoCache, NoCache), "none"; W);
        path!(c, "uncached()", FileOptions::uncached(), (NoCache, NoCache), "none"; L W);
        path!(c, "uncached()", FileOptions::uncached(), { let oc: ObjectCache = SyncCache::new(); let sc: StreamCache = SyncCache::new(); (oc, sc) }, "both"; W C);
        path!(c, "uncached()", FileOptions::uncached(), { let oc: ObjectCache = SyncCache::new(); let sc: StreamCache = SyncCache::new(); (oc, sc) }, "both"; C L W);
        path!(c, "uncached()", FileOptions::uncached(), (PassCache, PassCache), "custom"; C W L);
    }
    // options set after loading: the calls (not the opening) answer as under these options
    let strict_open = baseline(d, 0);
    if strict_open.starts_with("open:ok") && base.starts_with("open:ok") && strict_open.split(';').next() == base.split(';').next() {
        let r = catch_unwind(AssertUnwindSafe(|| {
            FileOptions::uncached().password(&d.password).load(d.bytes.clone()).map(|mut f| { f.set_options(mk_po(po)); answers(&f, &d.ids, false) })
        }));
        let got = match r { Ok(Ok(s)) => s, Ok(Err(e)) => format!("open:err:{}", err_class(&e)), Err(_) => "panic".into() };
        let want: String = base.split(';').skip(1).collect::<Vec<_>>().join(";");
        let mut c2 = Ctx { d, po, base: &want, or: c.or, case };
        c2.judge("uncached().password(pw).load(..) then set_options(po) [calls only]", got);
    }
}

pub fn oracle_paths(only: Option<&Value>) -> Oracle {
    let mut or = Oracle::new("c12.paths");
    let docs = documents();
    let mut case = 0u64;
    for d in &docs {
        let bases: Vec<String> = (0..N_OPTION_SETS).map(|po| baseline(d, po)).collect();
        let distinct = { let mut b = bases.clone(); b.sort(); b.dedup(); b.len() };
        or.count(&format!("{}: option sets with distinct answers = {}", d.family, distinct));
        if distinct < 2 && d.family != "dangling-optional-reference" && d.family != "encrypted-needs-password" {
            or.fail("sweep-has-no-power", &format!("family {}: all six option sets answer the same ({}): the document no longer tells the option sets apart", d.family, bases[0].chars().take(120).collect::<String>()),
                json!({"stream": "c12.paths", "oracle": "c12.paths", "family": d.family, "options": "strict", "file_hex": crate::driver::hex(&d.bytes)}));
        }
        if d.family == "encrypted-needs-password" {
            let nopw = outcome(catch_unwind(AssertUnwindSafe(|| FileOptions::uncached().load(d.bytes.clone()))), &d.ids);
            if nopw == bases[0] {
                or.fail("sweep-has-no-power", "the encrypted document answers the same with and without its password", json!({"stream": "c12.paths", "oracle": "c12.paths", "family": d.family, "options": "strict"}));
            }
        }
        for po in 0..N_OPTION_SETS {
            if let Some(r) = only {
                if r["family"].as_str() != Some(d.family) || r["options"].as_str() != Some(po_text(po)) { case += 1; continue; }
            }
            one(d, po, &bases[po as usize], &mut or, case);
            case += 1;
        }
    }
    or
}
