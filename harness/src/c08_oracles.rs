// C08 oracles (included by c08.rs)

// ---------------------------------------------------------------------------------------------------
// c08.roundtrip

fn pt(x: f32, y: f32) -> Point {
    Point { x, y }
}

/// deterministic witnesses: one per defect repaired by a `fix:` commit of this package (regression), run first
fn witnesses() -> Vec<(&'static str, Vec<Op>)> {
    vec![
        ("D19 leading=-ty then Td must merge into TD and read back", vec![Op::Leading { leading: -5.0 }, Op::MoveTextPosition { translation: pt(2.0, 5.0) }]),
        ("D19 leading=-tx then Td must not become TD", vec![Op::Leading { leading: -2.0 }, Op::MoveTextPosition { translation: pt(2.0, 5.0) }]),
        ("D20 ri operand is a name", vec![Op::RenderingIntent { intent: pdf::object::RenderingIntent::Perceptual }, Op::Save]),
        ("D21 sh is read back", vec![Op::Shade { name: name("Sh1") }, Op::Restore]),
        ("large real operands (>= 2^31) are read back", vec![
            Op::LineWidth { width: 3e9 }, Op::MoveTo { p: pt(2147483648.0, -2147483648.0) }, Op::Transform { matrix: Matrix { a: f32::MAX, b: f32::MIN, c: 1e20, d: 4294967296.0, e: 2147483520.0, f: -2147483904.0 } },
            Op::Dash { pattern: vec![1e10, 0.5], phase: 3e9 }, Op::TextDrawAdjusted { array: vec![TextDrawAdjusted::Spacing(-1e15), TextDrawAdjusted::Text(pstr(b"a"))] }, Op::TextFont { name: name("F1"), size: 1e12 },
        ]),
        ("text rendering modes 6 and 7", vec![Op::TextRenderMode { mode: TextMode::FillThenStrokeAndClip }, Op::TextRenderMode { mode: TextMode::Clip }]),
        ("v after h: first control point = start of the subpath", vec![Op::MoveTo { p: pt(1.0, 2.0) }, Op::LineTo { p: pt(3.0, 4.0) }, Op::Close, Op::CurveTo { c1: pt(1.0, 2.0), c2: pt(5.0, 5.0), p: pt(6.0, 7.0) }]),
        ("c after h with c1 = old end point must not become v", vec![Op::MoveTo { p: pt(1.0, 2.0) }, Op::LineTo { p: pt(3.0, 4.0) }, Op::Close, Op::CurveTo { c1: pt(3.0, 4.0), c2: pt(5.0, 5.0), p: pt(6.0, 7.0) }]),
        ("v after re: first control point = corner of the rectangle", vec![Op::MoveTo { p: pt(1.0, 2.0) }, Op::Rect { rect: ViewRect { x: 7.0, y: 8.0, width: 1.0, height: 1.0 } }, Op::CurveTo { c1: pt(7.0, 8.0), c2: pt(5.0, 5.0), p: pt(6.0, 7.0) }, Op::Close, Op::CurveTo { c1: pt(7.0, 8.0), c2: pt(5.0, 5.0), p: pt(6.0, 6.0) }]),
        ("every shorthand at once", vec![
            Op::MoveTo { p: pt(0.0, 0.0) }, Op::CurveTo { c1: pt(-0.0, 0.0), c2: pt(1.0, 1.0), p: pt(2.0, 2.0) }, Op::CurveTo { c1: pt(9.0, 9.0), c2: pt(3.0, 3.0), p: pt(3.0, 3.0) }, Op::Close, Op::Stroke,
            Op::Close, Op::FillAndStroke { winding: Winding::NonZero }, Op::Close, Op::FillAndStroke { winding: Winding::EvenOdd }, Op::Close, Op::Fill { winding: Winding::EvenOdd },
            Op::WordSpacing { word_space: 1.0 }, Op::CharSpacing { char_space: 2.0 }, Op::TextNewline, Op::TextDraw { text: pstr(b"x(y)") },
            Op::TextNewline, Op::TextDraw { text: pstr(b"z") }, Op::Leading { leading: 0.0 }, Op::MoveTextPosition { translation: pt(4.0, 0.0) },
        ]),
    ]
}

/// run one sequence through the real serializer and reader; on failure (signature, what)
fn roundtrip_check(ctx: &Ctx, v: &[Op]) -> Result<(), (String, String)> {
    let has_image = v.iter().any(|o| matches!(o, Op::InlineImage { .. }));
    let bytes = match real_serialize(v) {
        Ok(b) => b,
        Err(e) => {
            return if has_image && e == "err" { Ok(()) } else { Err((format!("roundtrip:serialize-{}", e), format!("serialize_ops returned {} for a sequence without inline image", e))) };
        }
    };
    if has_image {
        return Err(("roundtrip:inline-image-accepted".into(), "serialize_ops accepted an inline image (the model says it is rejected)".into()));
    }
    for allow in [false, true] {
        match ctx.parse(&bytes, allow) {
            Ok(read) => {
                if let Some((i, what)) = equiv::first_difference(&read, v) {
                    let kind = v.get(i).map(op_kind).unwrap_or("end");
                    return Err((format!("roundtrip:{}", kind), format!("{} (allow_invalid_ops={}); stream: {:?}", what, allow, String::from_utf8_lossy(&bytes))));
                }
            }
            Err(e) => return Err((format!("roundtrip:parse-{}", e), format!("parse_ops returned {} on the output of serialize_ops (allow_invalid_ops={}); stream: {:?}", e, allow, String::from_utf8_lossy(&bytes)))),
        }
    }
    Ok(())
}

fn oracle_roundtrip(ctx: &Ctx, seed: u64, from: u64, to: u64, with_witnesses: bool) -> Oracle {
    let mut or = Oracle::new("c08.roundtrip");
    if with_witnesses {
        for (i, (label, v)) in witnesses().into_iter().enumerate() {
            or.case(label, true, || json!({"witness": label, "ops": show_ops(&v)}));
            or.count("witness");
            if let Err((sig, what)) = roundtrip_check(ctx, &v) {
                or.fail(&sig, &format!("{}: {}", label, what), json!({"stream": "c08.roundtrip", "witness": i, "seed": seed, "case": 0, "ops": show_ops(&v)}));
            }
        }
    }
    for case in from..to {
        let mut h: Vec<String> = vec![];
        let v = gen_ser_case(ctx, seed, "c08.roundtrip", case, false, &mut |k| h.push(k.to_string()));
        for k in h {
            or.count(&k);
        }
        or.count(&format!("len={}", if v.len() > 20 { "21+".to_string() } else { format!("{:02}", (v.len() / 5) * 5) }));
        let key = show_ops(&v);
        or.case(&key, v.len() > 1, || json!({"ops": key}));
        if let Err((sig, what)) = roundtrip_check(ctx, &v) {
            or.fail(&sig, &what, json!({"stream": "c08.roundtrip", "seed": seed, "case": case, "ops": show_ops(&v), "bytes_hex": real_serialize(&v).map(|b| hex(&b)).unwrap_or_default()}));
        }
    }
    or
}

// ---------------------------------------------------------------------------------------------------
// c08.table

/// deterministic byte-level witnesses of the read direction: (label, signature on failure, bytes, expected)
fn parse_witnesses() -> Vec<(&'static str, &'static str, Vec<u8>, String)> {
    let img = |w: u8, h: u8, b: u8| format!("II:{}", planted_id(w, h, b));
    vec![
        ("D21 sh yields Op::Shade", "table:sh", b"/Sh1 sh\n".to_vec(), format!("sh:{}", hex(b"Sh1"))),
        ("Tr 6 and 7 are valid modes", "table:Tr", b"6 Tr 7 Tr\n".to_vec(), "Tr:6;Tr:7".to_string()),
        ("v after h starts at the start of the subpath", "table:v", b"1 2 m 3 4 l h 5 5 6 7 v\n".to_vec(),
            format!("m:{}:{};l:{}:{};h;c:{}:{}:{}:{}:{}:{}", bits(1.0), bits(2.0), bits(3.0), bits(4.0), bits(1.0), bits(2.0), bits(5.0), bits(5.0), bits(6.0), bits(7.0))),
        ("v after re starts at the corner of the rectangle", "table:v", b"7 8 1 1 re 5 5 6 7 v\n".to_vec(),
            format!("re:{}:{}:{}:{};c:{}:{}:{}:{}:{}:{}", bits(7.0), bits(8.0), bits(1.0), bits(1.0), bits(7.0), bits(8.0), bits(5.0), bits(5.0), bits(6.0), bits(7.0))),
        ("inline image whose data ends with LF", "inline-image:data-with-LF", b"q BI /W 2 /H 1 /BPC 8 /CS /G ID x\n\nEI Q\n".to_vec(), format!("q;{};Q", img(2, 1, b'x'))),
        ("inline image whose data contains LF E", "inline-image:data-with-LF", b"q BI /W 3 /H 1 /BPC 8 /CS /G ID x\nE\nEI Q\n".to_vec(), format!("q;{};Q", img(3, 1, b'x'))),
        // formerly the open finding inline-image:EI-not-after-LF (the reader only accepted EI after a line feed)
        ("inline image with EI after a space", "inline-image:EI-not-after-LF", b"q BI /W 1 /H 1 /BPC 8 /CS /G ID A EI Q\n".to_vec(), format!("q;{};Q", img(1, 1, b'A'))),
        ("inline image with EI after CR", "inline-image:EI-not-after-LF", b"q BI /W 1 /H 1 /BPC 8 /CS /G ID A\rEI Q\n".to_vec(), format!("q;{};Q", img(1, 1, b'A'))),
        ("two inline images with EI after a space: the first does not swallow the second", "inline-image:EI-not-after-LF",
            b"BI /W 1 /H 1 /BPC 8 /CS /G ID A EI q BI /W 1 /H 1 /BPC 8 /CS /G ID B\nEI Q\n".to_vec(), format!("{};q;{};Q", img(1, 1, b'A'), img(1, 1, b'B'))),
        ("EI inside a longer word is image data", "inline-image:EI-in-word", b"BI /W 5 /H 1 /BPC 8 /CS /G ID A EIy\nEI Q\n".to_vec(), format!("{};Q", img(5, 1, b'A'))),
        ("EI at the very end of the data", "inline-image:EI-at-end", b"q BI /W 1 /H 1 /BPC 8 /CS /G ID A EI".to_vec(), format!("q;{}", img(1, 1, b'A'))),
    ]
}

fn oracle_table(ctx: &Ctx, seed: u64, per_kw: u64, from: u64, to: u64, only_seq: bool) -> Oracle {
    let mut or = Oracle::new("c08.table");
    if !only_seq {
        for (i, (label, sig, bytes, expected)) in parse_witnesses().into_iter().enumerate() {
            or.case(label, true, || json!({"witness": label}));
            or.count("witness");
            let want = format!("ok {}", expected);
            for allow in [false, true] {
                let got = answer(&ctx.parse(&bytes, allow));
                if got != want {
                    or.fail(sig, &format!("{} (allow_invalid_ops={}): stream {:?} must read as {} but reads as {}", label, allow, String::from_utf8_lossy(&bytes), want, got),
                        json!({"stream": "c08.table", "witness": i, "seed": seed, "case": 0, "bytes_hex": hex(&bytes), "expected": want, "got": got}));
                    break;
                }
            }
        }
        for (idx, c) in kw_cases(seed, per_kw, false).into_iter().enumerate() {
            let e = match entry(&c.stmt.kw) {
                Some(e) => e,
                None => continue,
            };
            let mut ss = c.prefix.clone();
            ss.push(c.stmt.clone());
            let toks = stmt_toks(&ss);
            let bytes = print_toks(&toks);
            let mut expected = prefix_expected(&c.prefix);
            match e.support {
                Support::Construct => continue,
                Support::Unsupported => {}
                Support::Full => match denote(e.kw, c.vals.as_ref().unwrap(), c.path.cur) {
                    Some(d) => expected.extend(d),
                    None => continue, // `v` without a current point: outside the table's domain
                },
            }
            or.count(&format!("kw={}", e.kw));
            let key = show_toks(&toks);
            or.case(&key, true, || json!({"tokens": key}));
            let want = format!("ok {}", if expected.is_empty() { "-".to_string() } else { expected.join(";") });
            for allow in [false, true] {
                let got = answer(&ctx.parse(&bytes, allow));
                if got != want {
                    let sig = if e.support == Support::Unsupported { format!("table:unsupported-{}", e.kw) } else { format!("table:{}", e.kw) };
                    or.fail(&sig, &format!("operator {} (allow_invalid_ops={}): stream {:?} must read as {} but reads as {}", e.kw, allow, String::from_utf8_lossy(&bytes), want, got),
                        json!({"stream": "c08.table", "seed": seed, "case": idx, "kw": e.kw, "bytes_hex": hex(&bytes), "expected": want, "got": got}));
                    break;
                }
            }
        }
    }
    for case in from..to {
        let mut h: Vec<String> = vec![];
        let c = gen_parse_case(seed, "c08.table.seq", case, false, &mut |k| h.push(k.to_string()));
        let expected = match c.expected {
            Some(e) => e,
            None => continue,
        };
        for k in h {
            or.count(&k);
        }
        let bytes = print_toks(&c.toks);
        let key = show_toks(&c.toks);
        or.case(&key, key.matches(";K").count() >= 2, || json!({"tokens": key}));
        let want = format!("ok {}", if expected.is_empty() { "-".to_string() } else { expected.join(";") });
        for allow in [false, true] {
            let got = answer(&ctx.parse(&bytes, allow));
            if got != want {
                // classify by the first operation that differs
                let g: Vec<&str> = got.strip_prefix("ok ").unwrap_or("").split(';').collect();
                let i = expected.iter().zip(g.iter()).position(|(a, b)| a != b).unwrap_or(expected.len().min(g.len()));
                let code = expected.get(i).map(|s| s.split(':').next().unwrap_or("")).unwrap_or("end");
                or.fail(&format!("table-seq:{}", code), &format!("sequence (allow_invalid_ops={}): stream {:?} must read as {} but reads as {}", allow, String::from_utf8_lossy(&bytes), want, got),
                    json!({"stream": "c08.table.seq", "seed": seed, "case": case, "bytes_hex": hex(&bytes), "expected": want, "got": got}));
                break;
            }
        }
    }
    or
}

// ---------------------------------------------------------------------------------------------------
// c08.leak

fn oracle_leak(ctx: &Ctx, seed: u64, from: u64, to: u64) -> Oracle {
    let mut or = Oracle::new("c08.leak");
    for case in from..to {
        let mut rng = Rng::derive(seed, "c08.leak", case);
        let mut h: Vec<String> = vec![];
        let mut p = gen_parse_case(seed, "c08.leak.prefix", case, true, &mut |k| h.push(k.to_string())).toks;
        // the prefix ends with an operator (operands at its end would belong to what follows)
        while matches!(p.last(), Some(Tok::Prim(_))) {
            p.pop();
        }
        let last_kw = match p.last() {
            Some(Tok::Kw(s)) => s.clone(),
            Some(Tok::Img(_)) => "BI".to_string(),
            _ => continue,
        };
        // what follows: well-formed statements that do not depend on the current point
        let mut path = PathSt::default();
        let mut t = vec![];
        for _ in 0..1 + rng.usize(3) {
            loop {
                let (s, _) = wf_stmt(&mut rng, &mut path);
                if s.kw != "v" {
                    t.push(s);
                    break;
                }
            }
        }
        let t = stmt_toks(&t);
        let pb = print_toks(&p);
        let tb = print_toks(&t);
        let mut both = pb.clone();
        both.extend_from_slice(&tb);
        or.count(&format!("after={}", last_kw));
        let key = format!("{} | {}", show_toks(&p), show_toks(&t));
        or.case(&key, true, || json!({"prefix": show_toks(&p), "then": show_toks(&t)}));
        for allow in [true, false] {
            let a = ctx.parse(&pb, allow);
            let b = ctx.parse(&tb, allow);
            let ab = ctx.parse(&both, allow);
            let want = match (&a, &b) {
                (Ok(x), Ok(y)) => format!("ok {}", show_ops(&x.iter().chain(y.iter()).cloned().collect::<Vec<_>>())),
                (Err(e), _) => e.clone(),
                (_, Err(e)) => e.clone(),
            };
            let got = answer(&ab);
            or.count(&format!("prefix-outcome={}", if a.is_ok() { "ok" } else { "err" }));
            if got != want {
                or.fail(&format!("leak:{}", last_kw), &format!("after `{}` (allow_invalid_ops={}) the following operators read differently: alone {} / prefix {} / together {}; stream {:?}", last_kw, allow, answer(&b), answer(&a), got, String::from_utf8_lossy(&both)),
                    json!({"stream": "c08.leak", "seed": seed, "case": case, "bytes_hex": hex(&both), "expected": want, "got": got}));
                break;
            }
        }
    }
    or
}

// ---------------------------------------------------------------------------------------------------
// c08.file

fn build_file(parts: &[Vec<u8>], flate: &[bool]) -> Vec<u8> {
    let mut w = PdfWriter::new(b"", "1.7");
    w.free(0, 0, 65535);
    w.object(1, 0, b"<< /Type /Catalog /Pages 2 0 R >>");
    w.object(2, 0, b"<< /Type /Pages /Kids [3 0 R] /Count 1 >>");
    let refs: Vec<String> = (0..parts.len()).map(|i| format!("{} 0 R", 4 + i)).collect();
    let contents = if parts.len() == 1 { refs[0].clone() } else { format!("[{}]", refs.join(" ")) };
    w.object(3, 0, format!("<< /Type /Page /Parent 2 0 R /MediaBox [0 0 612 792] /Resources << >> /Contents {} >>", contents).as_bytes());
    for (i, p) in parts.iter().enumerate() {
        let body = if flate[i] { stream_body("/Filter /FlateDecode", &zlib(p)) } else { stream_body("", p) };
        w.object(4 + i as u64, 0, &body);
    }
    w.finish(XrefFormat::Classic, 4 + parts.len() as u64, "/Root 1 0 R", &[], 0);
    w.out.clone()
}

fn read_page_ops(file: &[u8]) -> Result<Vec<Op>, String> {
    let data = file.to_vec();
    match catch_unwind(AssertUnwindSafe(move || -> Result<Vec<Op>, String> {
        let f = FileOptions::uncached().load(data).map_err(|e| format!("load: {}", e))?;
        let page = f.get_page(0).map_err(|e| format!("page: {}", e))?;
        let c = page.contents.as_ref().ok_or("no contents")?;
        let r = c.operations(&f.resolver()).map_err(|e| format!("operations: {}", e));
        r
    })) {
        Ok(r) => r,
        Err(_) => Err("panic".into()),
    }
}

/// print the tokens as `k` parts cut between tokens; nothing but the tokens themselves at the cut
fn print_parts(toks: &[Tok], cuts: &[usize]) -> Vec<Vec<u8>> {
    let mut parts = vec![];
    let mut lo = 0;
    for &c in cuts.iter().chain(std::iter::once(&toks.len())) {
        let mut b = print_toks(&toks[lo..c]);
        while matches!(b.last(), Some(b' ') | Some(b'\n')) {
            b.pop();
        }
        parts.push(b);
        lo = c;
    }
    parts
}

fn oracle_file(_ctx: &Ctx, seed: u64, from: u64, to: u64, with_witness: bool) -> Oracle {
    let mut or = Oracle::new("c08.file");
    let mut cases: Vec<(String, u64, Vec<Tok>, Vec<String>, Vec<usize>, Vec<bool>)> = vec![];
    if with_witness {
        // deterministic: two parts, the first ends with `S`, the second starts with `q`
        let toks = vec![
            Tok::Prim(Primitive::Integer(0)), Tok::Prim(Primitive::Integer(0)), Tok::Kw("m".into()), Tok::Prim(Primitive::Integer(1)), Tok::Prim(Primitive::Integer(1)), Tok::Kw("l".into()), Tok::Kw("S".into()),
            Tok::Kw("q".into()), Tok::Prim(Primitive::Integer(2)), Tok::Kw("w".into()), Tok::Kw("Q".into()),
        ];
        let exp = vec![format!("m:{}:{}", bits(0.0), bits(0.0)), format!("l:{}:{}", bits(1.0), bits(1.0)), "S".into(), "q".into(), format!("w:{}", bits(2.0)), "Q".into()];
        cases.push(("witness: /Contents array split between S and q".into(), 0, toks, exp, vec![7], vec![false, false]));
    }
    for case in from..to {
        let mut rng = Rng::derive(seed, "c08.file", case);
        let c = gen_parse_case(seed, "c08.file.content", case, false, &mut |_| {});
        let expected = match c.expected {
            Some(e) => e,
            None => continue,
        };
        let nparts = 1 + rng.usize(3);
        let mut cuts: Vec<usize> = (0..nparts - 1).map(|_| rng.usize(c.toks.len() + 1)).collect();
        cuts.sort();
        let flate: Vec<bool> = (0..nparts).map(|_| rng.chance(1, 2)).collect();
        cases.push((format!("case {}", case), case, c.toks, expected, cuts, flate));
    }
    for (label, case, toks, expected, cuts, flate) in cases {
        let parts = print_parts(&toks, &cuts);
        let file = build_file(&parts, &flate);
        or.count(&format!("parts={}", parts.len()));
        or.count(&format!("flate={}", flate.iter().filter(|b| **b).count()));
        let key = format!("{} {:?} {}", show_toks(&toks), cuts, label);
        or.case(&key, toks.len() > 2, || json!({"tokens": show_toks(&toks), "cuts": cuts.clone()}));
        let want = format!("ok {}", if expected.is_empty() { "-".to_string() } else { expected.join(";") });
        let got = match read_page_ops(&file) {
            Ok(ops) => format!("ok {}", show_ops(&ops)),
            Err(e) => e,
        };
        if got != want {
            // is the cut to blame? the same tokens in one part
            let one = build_file(&[print_toks(&toks)], &[false]);
            let single = match read_page_ops(&one) {
                Ok(ops) => format!("ok {}", show_ops(&ops)),
                Err(e) => e,
            };
            let sig = if single == want { "file:parts-joined-without-separator" } else { "file:content" };
            or.fail(sig, &format!("{}: page content in {} part(s) {:?} must read as {} but Page::contents.operations() gives {}", label, parts.len(), parts.iter().map(|p| String::from_utf8_lossy(p).to_string()).collect::<Vec<_>>(), want, got),
                json!({"stream": "c08.file", "seed": seed, "case": case, "file_hex": hex(&file), "expected": want, "got": got}));
        }
    }
    or
}

// ---------------------------------------------------------------------------------------------------
// c08.laws: the hypotheses of the theorems about f32 (RealLaws), checked on Rust's f32 itself

fn law_failures(x: f32) -> Option<String> {
    if !x.is_finite() {
        return None;
    }
    if !(x == x) {
        return Some("x == x".into());
    }
    let twin = if x == 0.0 { -x } else { x };
    if !(twin == x && x == twin && -twin == -x) {
        return Some("== is symmetric / unary minus respects ==".into());
    }
    let s = format!("{}", x);
    let big = x.fract() == 0.0 && x.abs() >= 2147483648.0;
    if s.contains('e') || s.contains('E') {
        return Some(format!("{{}} printed an exponent: {}", s));
    }
    // FmtLaws: the text is `-?digits` or `-?digits.digits`, nothing else
    let body = s.strip_prefix('-').unwrap_or(&s);
    let shape_ok = !body.is_empty() && body.bytes().all(|b| b.is_ascii_digit() || b == b'.') && body.matches('.').count() <= 1
        && body.bytes().any(|b| b.is_ascii_digit());
    if !shape_ok {
        return Some(format!("{{}} printed something that is not [-]digits[.digits]: {}", s));
    }
    if !s.contains('.') {
        // FmtLaws.integral: with a `.` appended the text is a real token that converts back to the same value
        if format!("{}.", s).parse::<f32>().ok().map(|y| y.to_bits()) != Some(x.to_bits()) {
            return Some(format!("{}. does not read back to the same bits", s));
        }
        // integral: the digits either fit an i32 and convert back to an == value, or the value is `big`
        match s.parse::<i32>() {
            Ok(n) => {
                if !((n as f32) == x) {
                    return Some(format!("digits {} fit an i32 but {} as f32 != the value", s, n));
                }
            }
            Err(_) => {
                if !big {
                    return Some(format!("digits {} do not fit an i32 although |x| < 2^31", s));
                }
            }
        }
        if x.fract() != 0.0 {
            return Some("printed without a fraction but not integral".into());
        }
    } else {
        if x.fract() == 0.0 {
            return Some(format!("integral value printed with a fraction: {}", s));
        }
        if s.parse::<f32>().ok().map(|y| y.to_bits()) != Some(x.to_bits()) {
            return Some(format!("{} does not read back to the same bits", s));
        }
        if big {
            return Some("a value with a fraction satisfies the test of struct Real".into());
        }
    }
    None
}

fn oracle_laws(seed: u64, n: u64, exhaustive_integral: bool) -> Oracle {
    let mut or = Oracle::new("c08.laws");
    let mut check = |or: &mut Oracle, x: f32| {
        if let Some(what) = law_failures(x) {
            or.fail("laws:f32", &format!("f32 {:08x} ({}): {}", x.to_bits(), x, what), json!({"stream": "c08.laws", "seed": seed, "case": 0, "bits": format!("{:08x}", x.to_bits())}));
        }
    };
    let mut rng = Rng::derive(seed, "c08.laws", 0);
    for x in BOUNDARY_REALS {
        or.case(&format!("{:08x}", x.to_bits()), true, || json!({"bits": format!("{:08x}", x.to_bits())}));
        check(&mut or, *x);
    }
    for _ in 0..n {
        let x = real(&mut rng);
        or.case(&format!("{:08x}", x.to_bits()), true, || json!({"bits": format!("{:08x}", x.to_bits())}));
        or.count(if x.fract() == 0.0 { "integral" } else { "fraction" });
        check(&mut or, x);
        // transitivity of == on finite values: x == y and y == z only with equal bits or zeros
        let y = real(&mut rng);
        let z = real(&mut rng);
        if x == y && y == z && !(x == z) {
            or.fail("laws:f32", "== is not transitive", json!({"stream": "c08.laws", "seed": seed, "case": 0}));
        }
    }
    if exhaustive_integral {
        // every integral f32 of magnitude < 2^31 (the values `struct Real` prints as integer tokens)
        let mut count = 0u64;
        for b in 0..=0x4effffffu32 {
            let x = f32::from_bits(b);
            if x.fract() == 0.0 {
                count += 2;
                check(&mut or, x);
                check(&mut or, -x);
            }
        }
        or.cases += count;
        or.distinct_nontrivial += count;
        or.count("exhaustive-integral-below-2^31");
    }
    or
}

// ---------------------------------------------------------------------------------------------------

pub fn run(driver: &Driver, seed: u64, thorough: bool, replay: Option<&serde_json::Value>) -> Report {
    let mut rep = Report::new("C08");
    let ctx = Ctx::new();
    rep.notes.push(format!("Primitive::Number is written with a decimal point always (D9 repaired in primitive.rs): {}", ctx.prim_dot));
    if let Some(r) = replay {
        let seed = r["seed"].as_u64().unwrap_or(seed);
        let case = r["case"].as_u64().unwrap_or(0);
        let stream = r["stream"].as_str().unwrap_or("");
        match stream {
            "c08.roundtrip" => rep.oracles.push(oracle_roundtrip(&ctx, seed, case, case + 1, r.get("witness").is_some())),
            "c08.table" => rep.oracles.push(oracle_table(&ctx, seed, if thorough { 40 } else { 8 }, 0, 0, false)),
            "c08.table.seq" => rep.oracles.push(oracle_table(&ctx, seed, 0, case, case + 1, true)),
            "c08.leak" => rep.oracles.push(oracle_leak(&ctx, seed, case, case + 1)),
            "c08.file" => rep.oracles.push(oracle_file(&ctx, seed, case, case + 1, true)),
            "c08.laws" => rep.oracles.push(oracle_laws(seed, 50_000, false)),
            _ => {
                // a correspondence replay: re-run all streams of the quick tier with the stored seed
                rep.streams.push(stream_ser(driver, &ctx, seed, 1500, false));
                rep.streams.push(stream_parse(driver, &ctx, seed, 1000, false));
                rep.streams.push(stream_kw(driver, &ctx, seed, 8, false));
            }
        }
        return rep;
    }
    let t = thorough;
    rep.streams.push(stream_real(driver, seed, if t { 200_000 } else { 3000 }));
    rep.streams.push(stream_ser(driver, &ctx, seed, if t { 150_000 } else { 3000 }, false));
    rep.streams.push(stream_ser(driver, &ctx, seed, if t { 20_000 } else { 500 }, true));
    rep.streams.push(stream_parse(driver, &ctx, seed, if t { 100_000 } else { 2000 }, false));
    rep.streams.push(stream_parse(driver, &ctx, seed, if t { 50_000 } else { 1000 }, true));
    rep.streams.push(stream_kw(driver, &ctx, seed, if t { 200 } else { 8 }, false));
    rep.streams.push(stream_kw(driver, &ctx, seed, if t { 100 } else { 5 }, true));
    rep.streams.push(stream_spec(driver, seed, if t { 100 } else { 6 }));
    rep.streams.push(stream_inline(driver, &ctx, seed, if t { 200_000 } else { 3000 }));
    rep.streams.push(stream_bser(driver, &ctx, seed, if t { 100_000 } else { 2500 }, false));
    rep.streams.push(stream_bser(driver, &ctx, seed, if t { 10_000 } else { 300 }, true));
    rep.streams.push(stream_bparse(driver, &ctx, seed, if t { 100_000 } else { 2000 }, false));
    rep.streams.push(stream_bparse(driver, &ctx, seed, if t { 30_000 } else { 600 }, true));
    rep.oracles.push(oracle_roundtrip(&ctx, seed, 0, if t { 300_000 } else { 4000 }, true));
    rep.oracles.push(oracle_table(&ctx, seed, if t { 300 } else { 8 }, 0, if t { 100_000 } else { 2000 }, false));
    rep.oracles.push(oracle_leak(&ctx, seed, 0, if t { 100_000 } else { 2000 }));
    rep.oracles.push(oracle_file(&ctx, seed, 0, if t { 20_000 } else { 400 }, true));
    rep.oracles.push(oracle_laws(seed, if t { 2_000_000 } else { 50_000 }, t));
    rep
}
