//! C12 — caches are invisible: cached and uncached documents answer identically.
//!
//! Model: lean/PdfModel/Model/Cache.lean (generic) + Model/CacheDoc.lean (the generated documents).
//!
//! Correspondence streams (real library vs Lean driver, same document, same configuration, same calls,
//! compared call by call; value = canonical text, error = class):
//!   c12.orders     generated acyclic documents × one object × ALL orderings of its 5 distinct call kinds
//!                  (resolve, two typed loads, Stream::data, raw_image_data | image_data) × 4 configurations
//!   c12.random     generated acyclic documents × random call sequences (incl. page look-ups) × 4 configurations
//!   c12.cyclic     documents whose /Parent links form a cycle (the model mirrors the guard there too)
//! Oracles (real library against the property's own oracle: the uncached run of the same calls):
//!   c12.witness    deterministic witnesses: D27, D28 (repaired: regression), D43 (open)
//!   c12.uncached   the generated cases above: every cached configuration vs the uncached one
//!   c12.corpus     /repo/files/*.pdf: per object all orderings of its call kinds + random sequences,
//!                  values compared by a hash of their Debug text (lines sorted: HashMap order)
//!   c12.prefix     a call after a random prefix answers what it answers as the first call
//!   c12.paths      construction paths of a configuration (c12_paths.rs): every order of the builder calls, `cached()`,
//!                  `Storage::with_cache` + `File::new`, `set_options` × six parse option sets × documents that tell the
//!                  option sets apart (and one that needs its password): same answers as the plainest construction

#[path = "c12_doc.rs"]
pub mod doc;
#[path = "c12_paths.rs"]
pub mod paths;

use crate::driver::Driver;
use crate::report::{Oracle, Report, Stream as RStream};
use crate::rng::Rng;
use crate::util::*;
use doc::*;
use pdf::file::{FileOptions, NoCache, NoLog, ObjectCache, StreamCache, SyncCache, Cache, File};
use pdf::any::AnySync;
use pdf::error::PdfError;
use pdf::enc::StreamFilter;
use pdf::font::Font;
use pdf::object::*;
use pdf::object::Stream;
use pdf::primitive::{Dictionary, Primitive};
use serde_json::json;
use std::panic::{catch_unwind, AssertUnwindSafe};
use std::sync::Arc;

#[derive(Clone, Debug, PartialEq)]
pub enum Call {
    Get(u8, u64),
    Resolve(u64),
    SData(u64),
    RawImg(u64),
    ImgData(u64),
    Page(u32),
}

pub const T_PAGES: u8 = 0;
pub const T_I32: u8 = 1;
pub const T_DICT: u8 = 2;
pub const T_PRIM: u8 = 3;
pub const T_STREAM: u8 = 4;
pub const T_IMAGE: u8 = 5;
pub const T_OBJSTM: u8 = 6;
pub const T_CAT: u8 = 7;
// corpus only (not in the model)
pub const T_XOBJECT: u8 = 8;
pub const T_FONT: u8 = 9;
pub const T_RESOURCES: u8 = 10;

impl Call {
    pub fn text(&self) -> String {
        match self {
            Call::Get(t, id) => format!("g{}.{}", t, id),
            Call::Resolve(id) => format!("r.{}", id),
            Call::SData(id) => format!("s.{}", id),
            Call::RawImg(id) => format!("w.{}", id),
            Call::ImgData(id) => format!("m.{}", id),
            Call::Page(n) => format!("p.{}", n),
        }
    }
}

pub fn calls_text(calls: &[Call]) -> String {
    if calls.is_empty() { "-".into() } else { calls.iter().map(|c| c.text()).collect::<Vec<_>>().join(";") }
}

#[derive(Clone, Copy, PartialEq)]
pub enum Mode {
    /// generated documents: canonical text shared with the model
    Canon,
    /// corpus files: hash of the Debug text
    Debug,
}

fn marker(d: &Dictionary) -> i64 {
    d.get("Marker").and_then(|m| m.as_integer().ok()).map(|i| i as i64).unwrap_or(-1)
}

fn render_tree(t: &PageTree) -> String {
    let id = t.media_box.map(|r| r.right as i64).unwrap_or(-1);
    let kids: Vec<String> = t.kids.iter().map(|k| k.get_inner().id.to_string()).collect();
    let parent = match &t.parent {
        Some(p) => render_tree(&**p),
        None => "-".to_string(),
    };
    format!("T{}[{}]{}({})", id, kids.join("."), t.count, parent)
}

fn render_page(p: &Page) -> String {
    format!("L{}({})", marker(&p.other), render_tree(&p.parent))
}

fn render_node(n: &PagesNode) -> String {
    match n {
        PagesNode::Tree(t) => render_tree(t),
        PagesNode::Leaf(p) => render_page(p),
    }
}

fn render_prim(p: &Primitive) -> String {
    match p {
        Primitive::Integer(v) => format!("P{}", *v as i64 - 1000),
        Primitive::Dictionary(d) => format!("P{}", marker(d)),
        Primitive::Stream(s) => format!("P{}", marker(&s.info)),
        _ => "P?".to_string(),
    }
}

fn debug_hash<T: std::fmt::Debug>(v: &T) -> String {
    let txt = format!("{:#?}", v);
    let mut lines: Vec<&str> = txt.lines().map(|l| l.trim()).collect();
    lines.sort();
    format!("H{}", fnv_hex(lines.join("\n").as_bytes()))
}

fn filter_code(f: Option<&StreamFilter>) -> u8 {
    match f {
        None => 0,
        Some(StreamFilter::FlateDecode(_)) => 4,
        Some(StreamFilter::DCTDecode(_)) => 6,
        Some(_) => 9,
    }
}

fn err_text(e: &PdfError) -> String {
    format!("err:{}", err_class(e))
}

fn ok(s: String) -> String {
    format!("ok:{}", s)
}

/// one top level call on an open file; `None` resolver = a fresh one (`File::resolver`)
pub fn do_call<OC, SC, L: pdf::file::Log>(file: &File<Vec<u8>, OC, SC, L>, resolver: &impl Resolve, c: &Call, mode: Mode) -> String
where
    OC: Cache<Result<AnySync, Arc<PdfError>>>,
    SC: Cache<Result<Arc<[u8]>, Arc<PdfError>>>,
{
    macro_rules! typed {
        ($t:ty, $id:expr, $canon:expr) => {
            typed!($t, $id, $canon, |v: &$t| debug_hash(v))
        };
        ($t:ty, $id:expr, $canon:expr, $dbg:expr) => {
            match resolver.get::<$t>(Ref::from_id($id)) {
                Ok(v) => ok(if mode == Mode::Canon { $canon(&*v) } else { $dbg(&*v) }),
                Err(e) => err_text(&e),
            }
        };
    }
    match c {
        Call::Get(t, id) => {
            let id = *id;
            match *t {
                T_PAGES => typed!(PagesNode, id, |v: &PagesNode| render_node(v)),
                T_I32 => typed!(i32, id, |v: &i32| format!("I{}", v)),
                T_DICT => typed!(Dictionary, id, |v: &Dictionary| format!("D{}", marker(v))),
                T_PRIM => typed!(Primitive, id, |v: &Primitive| render_prim(v)),
                T_STREAM => typed!(Stream<()>, id, |_v: &Stream<()>| format!("S{}", id)),
                T_IMAGE => typed!(ImageXObject, id, |v: &ImageXObject| format!("X{}", marker(&v.inner.info.info.other))),
                T_OBJSTM => typed!(ObjectStream, id, |v: &ObjectStream| format!("O{}.{}", id, v.n_objects()), |v: &ObjectStream| format!("O{}.{}", id, v.n_objects())),
                T_CAT => typed!(Catalog, id, |v: &Catalog| {
                    let cid = v.version.as_ref().and_then(|n| n.as_str().strip_prefix('M').and_then(|s| s.parse::<i64>().ok())).unwrap_or(-1);
                    format!("C{}({})", cid, render_tree(&v.pages))
                }),
                T_XOBJECT => typed!(XObject, id, |v: &XObject| debug_hash(v)),
                T_FONT => typed!(Font, id, |v: &Font| debug_hash(v)),
                T_RESOURCES => typed!(Resources, id, |v: &Resources| debug_hash(v)),
                _ => "bad-type".to_string(),
            }
        }
        Call::Resolve(id) => match resolver.resolve(PlainRef { id: *id, gen: 0 }) {
            Ok(p) => ok(if mode == Mode::Canon { render_prim(&p) } else { debug_hash(&p) }),
            Err(e) => err_text(&e),
        },
        Call::SData(id) => match resolver.get::<Stream<()>>(Ref::from_id(*id)) {
            Ok(s) => match (*s).data(resolver) {
                Ok(d) => ok(format!("B{}", fnv_hex(&d))),
                Err(e) => err_text(&e),
            },
            Err(e) => err_text(&e),
        },
        Call::RawImg(id) => match resolver.get::<ImageXObject>(Ref::from_id(*id)) {
            Ok(s) => match s.raw_image_data(resolver) {
                Ok((d, f)) => ok(format!("B{}/{}", fnv_hex(&d), filter_code(f))),
                Err(e) => err_text(&e),
            },
            Err(e) => err_text(&e),
        },
        Call::ImgData(id) => match resolver.get::<ImageXObject>(Ref::from_id(*id)) {
            Ok(s) => match s.image_data(resolver) {
                Ok(d) => ok(format!("B{}", fnv_hex(&d))),
                Err(e) => err_text(&e),
            },
            Err(e) => err_text(&e),
        },
        Call::Page(n) => match file.get_page(*n) {
            Ok(p) => ok(if mode == Mode::Canon { render_page(&p) } else { debug_hash(&*p) }),
            Err(e) => err_text(&e),
        },
    }
}

/// what a whole history answers: the outcome of opening the file, then one answer per call
#[derive(Clone, Debug, PartialEq)]
pub struct Answers {
    pub open: String,
    pub calls: Vec<String>,
}

impl Answers {
    pub fn text(&self) -> String {
        format!("{}|{}", self.open, self.calls.join(";"))
    }
}

fn run_open<OC, SC>(bytes: &[u8], tolerant: bool, oc: OC, sc: SC, calls: &[Call], mode: Mode, one_resolver: bool, root: Option<u64>) -> Answers
where
    OC: Cache<Result<AnySync, Arc<PdfError>>>,
    SC: Cache<Result<Arc<[u8]>, Arc<PdfError>>>,
{
    let opts = FileOptions::uncached().cache(oc, sc).parse_options(if tolerant { ParseOptions::tolerant() } else { ParseOptions::strict() });
    let file = match catch_unwind(AssertUnwindSafe(|| opts.load(bytes.to_vec()))) {
        Ok(Ok(f)) => f,
        Ok(Err(e)) => return Answers { open: err_text(&e), calls: vec![] },
        Err(_) => return Answers { open: "panic".into(), calls: vec![] },
    };
    // what `load` loaded: the catalog (canonical text only for generated documents)
    let open = match (mode, root) {
        (Mode::Canon, Some(_)) => {
            let c = file.get_root();
            let cid = c.version.as_ref().and_then(|n| n.as_str().strip_prefix('M').and_then(|s| s.parse::<i64>().ok())).unwrap_or(-1);
            ok(format!("C{}({})", cid, render_tree(&c.pages)))
        }
        _ => "ok:open".to_string(),
    };
    let shared = file.resolver();
    let mut out = vec![];
    for c in calls {
        let r = catch_unwind(AssertUnwindSafe(|| {
            if one_resolver { do_call(&file, &shared, c, mode) } else { do_call(&file, &file.resolver(), c, mode) }
        }));
        match r {
            Ok(s) => out.push(s),
            Err(_) => {
                // a panic inside a compute closure leaves the in-process marker of SyncCache behind:
                // later calls on that key would wait for ever. Stop this history here.
                out.push("panic".into());
                break;
            }
        }
    }
    Answers { open, calls: out }
}

/// cfg: bit 1 = object cache, bit 0 = stream cache
pub fn run_config(cfg: u8, bytes: &[u8], tolerant: bool, calls: &[Call], mode: Mode, one_resolver: bool, root: Option<u64>) -> Answers {
    match cfg {
        0 => run_open(bytes, tolerant, NoCache, NoCache, calls, mode, one_resolver, root),
        1 => { let sc: StreamCache = SyncCache::new(); run_open(bytes, tolerant, NoCache, sc, calls, mode, one_resolver, root) }
        2 => { let oc: ObjectCache = SyncCache::new(); run_open(bytes, tolerant, oc, NoCache, calls, mode, one_resolver, root) }
        _ => { let oc: ObjectCache = SyncCache::new(); let sc: StreamCache = SyncCache::new(); run_open(bytes, tolerant, oc, sc, calls, mode, one_resolver, root) }
    }
}

pub fn cfg_text(cfg: u8) -> String {
    format!("{}{}", (cfg >> 1) & 1, cfg & 1)
}

fn request(d: &GDoc, cfg: u8, calls: &[Call]) -> String {
    format!("c12.run {} {} {} {}", cfg_text(cfg), if d.tolerant { 1 } else { 0 }, d.desc(), calls_text(calls))
}

// ---------------------------------------------------------------------------------------------------
// call generators

const MODEL_TYPES: [u8; 8] = [T_PAGES, T_I32, T_DICT, T_PRIM, T_STREAM, T_IMAGE, T_OBJSTM, T_CAT];

fn target_ids(d: &GDoc) -> Vec<u64> {
    let mut ids: Vec<u64> = d.objs.iter().map(|o| o.id).collect();
    // a number nobody mentions (if any), the number /Size and one beyond the table
    for id in 1..d.size - 1 {
        if d.get(id).is_none() {
            ids.push(id);
        }
    }
    ids.push(d.size);
    ids.push(d.size + 1);
    ids
}

fn n_pages(d: &GDoc) -> u32 {
    d.objs.iter().filter(|o| matches!(o.kind, GKind::Page { .. })).count() as u32
}

/// the distinct call kinds of one object: resolve, two typed loads, Stream::data, raw / decoded image data
fn kinds_of(rng: &mut Rng, d: &GDoc, id: u64) -> Vec<Call> {
    // types that make sense for the object come first, a clashing type second
    let natural: u8 = match d.get(id).map(|o| &o.kind) {
        Some(GKind::Int(_)) => T_I32,
        Some(GKind::Dict) => T_DICT,
        Some(GKind::Pages { .. }) | Some(GKind::Page { .. }) => T_PAGES,
        Some(GKind::Cat { .. }) => T_CAT,
        Some(GKind::Stream { .. }) => T_STREAM,
        Some(GKind::Image { .. }) => T_IMAGE,
        Some(GKind::ObjStm { .. }) => T_OBJSTM,
        Some(GKind::Annot { .. }) | Some(GKind::AnnotArr { .. }) => T_PRIM,
        None => T_PRIM,
    };
    let mut other = *rng.pick(&MODEL_TYPES);
    while other == natural {
        other = *rng.pick(&MODEL_TYPES);
    }
    let last = if rng.chance(1, 2) { Call::RawImg(id) } else { Call::ImgData(id) };
    vec![Call::Resolve(id), Call::Get(natural, id), Call::Get(other, id), Call::SData(id), last]
}

fn random_calls(rng: &mut Rng, d: &GDoc, n: usize) -> Vec<Call> {
    let ids = target_ids(d);
    let np = n_pages(d);
    // a few hot objects so that the same key is hit repeatedly with different kinds
    let hot: Vec<u64> = (0..3).map(|_| *rng.pick(&ids)).collect();
    (0..n).map(|_| {
        let id = if rng.chance(2, 3) { *rng.pick(&hot) } else { *rng.pick(&ids) };
        match rng.below(10) {
            0..=3 => Call::Get(*rng.pick(&MODEL_TYPES), id),
            4 => Call::Resolve(id),
            5 => Call::SData(id),
            6 => Call::RawImg(id),
            7 => Call::ImgData(id),
            _ => Call::Page(rng.below(np as u64 + 2) as u32),
        }
    }).collect()
}

fn permutations(n: usize) -> Vec<Vec<usize>> {
    fn go(cur: &mut Vec<usize>, used: &mut Vec<bool>, n: usize, out: &mut Vec<Vec<usize>>) {
        if cur.len() == n {
            out.push(cur.clone());
            return;
        }
        for i in 0..n {
            if !used[i] {
                used[i] = true;
                cur.push(i);
                go(cur, used, n, out);
                cur.pop();
                used[i] = false;
            }
        }
    }
    let mut out = vec![];
    go(&mut vec![], &mut vec![false; n], n, &mut out);
    out
}

// ---------------------------------------------------------------------------------------------------
// one case: a document, a call sequence; all four configurations; model and implementation

struct CaseOut {
    requests: Vec<String>,
    impls: Vec<String>,
}

fn classify(d: &GDoc, cfg: u8, c: &Call) -> &'static str {
    // D43 (open): a page-tree node / page / catalog loaded on a document whose /Parent links form a cycle,
    // tolerant mode, object cache on. Everything else is a plain violation.
    let tree_call = match c {
        Call::Get(t, id) => (*t == T_PAGES || *t == T_CAT) && matches!(d.get(*id).map(|o| &o.kind), Some(GKind::Pages { .. }) | Some(GKind::Page { .. }) | Some(GKind::Cat { .. })),
        Call::Page(_) => true,
        _ => false,
    };
    if tree_call && !d.acyclic() && d.tolerant && (cfg & 2) != 0 { "cyclic-typed-load-cached-under-guard" } else { "cached-answer-differs-from-uncached" }
}

/// runs the four configurations on the implementation, feeds the oracle, collects the model requests
fn one_case(d: &GDoc, bytes: &[u8], calls: &[Call], one_resolver: bool, or: &mut Oracle, replay: serde_json::Value, out: &mut CaseOut) {
    let base = run_config(0, bytes, d.tolerant, calls, Mode::Canon, one_resolver, Some(d.root));
    out.requests.push(request(d, 0, calls));
    out.impls.push(base.text());
    or.case(&format!("{} {}", d.desc(), calls_text(calls)), calls.len() > 1, || json!({"doc": d.desc(), "calls": calls_text(calls), "uncached": base.text()}));
    if base.open == "panic" || base.calls.iter().any(|a| a == "panic") {
        or.fail("panic", &format!("panic in the uncached run: {}", base.text()), replay.clone());
    }
    for cfg in 1..4u8 {
        let a = run_config(cfg, bytes, d.tolerant, calls, Mode::Canon, one_resolver, Some(d.root));
        out.requests.push(request(d, cfg, calls));
        out.impls.push(a.text());
        if a != base {
            let i = (0..calls.len()).find(|&i| a.calls.get(i) != base.calls.get(i));
            let (sig, what) = match i {
                Some(i) => (classify(d, cfg, &calls[i]), format!("call #{} `{}` of [{}] answers {} with caches {} but {} without (tolerant={})",
                    i, calls[i].text(), calls_text(calls), a.calls.get(i).cloned().unwrap_or_default(), cfg_text(cfg), base.calls.get(i).cloned().unwrap_or_default(), d.tolerant)),
                None => ("cached-answer-differs-from-uncached", format!("opening the file answers {} with caches {} but {} without", a.open, cfg_text(cfg), base.open)),
            };
            let mut r = replay.clone();
            r["cfg"] = json!(cfg_text(cfg));
            r["expected"] = json!(base.text());
            r["observed"] = json!(a.text());
            or.fail(sig, &what, r);
        }
    }
}

fn flush(driver: &Driver, st: &mut RStream, out: CaseOut) {
    let resp = driver.ask(&out.requests);
    for ((rq, m), i) in out.requests.iter().zip(resp.iter()).zip(out.impls.iter()) {
        let nontrivial = rq.rsplit(' ').next().map(|c| c.contains(';')).unwrap_or(false);
        st.case(rq, m, i, nontrivial);
        if let Some(first) = i.split('|').nth(1) {
            for a in first.split(';') {
                st.count(&format!("answer={}", a.split(':').next().unwrap_or("")));
            }
        }
    }
}

fn doc_replay(stream: &str, seed: u64, case: u64, d: &GDoc, bytes: &[u8], calls: &[Call]) -> serde_json::Value {
    json!({"stream": stream, "seed": seed, "case": case, "doc": d.desc(), "tolerant": d.tolerant, "calls": calls_text(calls), "file_hex": crate::driver::hex(bytes)})
}

fn count_doc(st: &mut RStream, d: &GDoc) {
    st.count(&format!("tolerant={}", d.tolerant));
    st.count(&format!("objects={}", d.objs.len() / 4 * 4));
    for o in &d.objs {
        let k = match &o.kind {
            GKind::Int(_) => "int", GKind::Dict => "dict", GKind::Pages { .. } => "pages", GKind::Page { .. } => "page", GKind::Cat { .. } => "catalog",
            GKind::Stream { .. } => "stream", GKind::Image { .. } => "image", GKind::ObjStm { .. } => "objstm",
            GKind::Annot { .. } => "annot", GKind::AnnotArr { .. } => "annot-array",
        };
        st.count(&format!("kind={}", k));
        if let GPlace::InStm(..) = o.place {
            st.count("placed=in-object-stream");
        }
        if let GKind::Stream { filters, .. } | GKind::Image { filters, .. } = &o.kind {
            st.count(&format!("chain-length={}", filters.len()));
        }
    }
}

fn stream_orders(driver: &Driver, seed: u64, from: u64, to: u64, or: &mut Oracle) -> RStream {
    let mut st = RStream::new("c12.orders", true);
    st.exhaustive = true;
    let perms = permutations(5);
    for case in from..to {
        let mut rng = Rng::derive(seed, "c12.orders", case);
        let d = gen_doc(&mut rng, &GenOpts { cyclic: false, odd_parents: true, objstms: true });
        let bytes = d.bytes();
        count_doc(&mut st, &d);
        let ids = target_ids(&d);
        let id = *rng.pick(&ids);
        let kinds = kinds_of(&mut rng, &d, id);
        let mut out = CaseOut { requests: vec![], impls: vec![] };
        for p in &perms {
            let calls: Vec<Call> = p.iter().map(|&i| kinds[i].clone()).collect();
            one_case(&d, &bytes, &calls, case % 2 == 0, or, doc_replay("c12.orders", seed, case, &d, &bytes, &calls), &mut out);
        }
        flush(driver, &mut st, out);
    }
    st
}

fn stream_random(driver: &Driver, name: &str, seed: u64, from: u64, to: u64, cyclic: bool, or: &mut Oracle) -> RStream {
    let mut st = RStream::new(name, true);
    let mut out = CaseOut { requests: vec![], impls: vec![] };
    for case in from..to {
        let mut rng = Rng::derive(seed, name, case);
        let odd = !cyclic || rng.chance(1, 2);
        let mut d = gen_doc(&mut rng, &GenOpts { cyclic, odd_parents: odd, objstms: true });
        if cyclic && rng.chance(5, 6) {
            d.tolerant = true; // in strict mode a cyclic page tree does not even open
        }
        if cyclic && d.acyclic() {
            st.count("skipped=no-inner-node");
            continue;
        }
        let bytes = d.bytes();
        count_doc(&mut st, &d);
        let n = 2 + rng.usize(12);
        let calls = random_calls(&mut rng, &d, n);
        st.count(&format!("calls={}", calls.len() / 4 * 4));
        one_case(&d, &bytes, &calls, case % 2 == 0, or, doc_replay(name, seed, case, &d, &bytes, &calls), &mut out);
        if out.requests.len() > 2000 {
            flush(driver, &mut st, std::mem::replace(&mut out, CaseOut { requests: vec![], impls: vec![] }));
        }
    }
    flush(driver, &mut st, out);
    st
}

/// the model driver's decidable domain check (`CacheDoc.okRanks`, proved sound in Lean) against the
/// generator's own notion of "no cycle among /Parent, /Pages links"
fn stream_domain(driver: &Driver, seed: u64, n: u64) -> RStream {
    let mut st = RStream::new("c12.domain", true);
    let mut reqs = vec![];
    let mut imps = vec![];
    for case in 0..n {
        let mut rng = Rng::derive(seed, "c12.domain", case);
        let cyclic = rng.chance(1, 3);
        let odd = rng.chance(1, 2);
        let d = gen_doc(&mut rng, &GenOpts { cyclic, odd_parents: odd, objstms: true });
        reqs.push(format!("c12.dom {} {}", if d.tolerant { 1 } else { 0 }, d.desc()));
        imps.push(if d.acyclic() { "1".to_string() } else { "0".to_string() });
        st.count(&format!("in-domain-of-the-theorems={}", d.acyclic()));
    }
    let resp = driver.ask(&reqs);
    for ((rq, m), i) in reqs.iter().zip(resp.iter()).zip(imps.iter()) {
        st.case(rq, m, i, true);
    }
    st
}

// ---------------------------------------------------------------------------------------------------
// deterministic witnesses

fn img(id: u64, filters: Vec<u8>, plain: &[u8]) -> GObj {
    GObj { id, kind: GKind::Image { filters, plain: plain.to_vec() }, place: GPlace::Direct }
}

fn base_objs() -> Vec<GObj> {
    vec![
        GObj { id: 1, kind: GKind::Cat { pages: 2 }, place: GPlace::Direct },
        GObj { id: 2, kind: GKind::Pages { parent: 0, kids: vec![3], count: 1 }, place: GPlace::Direct },
        GObj { id: 3, kind: GKind::Page { parent: 2 }, place: GPlace::Direct },
    ]
}

/// (name, document, calls)
pub fn witnesses() -> Vec<(&'static str, GDoc, Vec<Call>)> {
    let mut v = vec![];
    // D27: image data (stops before the Flate image codec) then the stream data of the same image
    let mut objs = base_objs();
    objs.push(img(4, vec![F_FLATE], b"image samples image samples"));
    v.push(("D27-image-then-stream", GDoc { size: 6, root: 1, tolerant: false, objs: objs.clone(), xref_stream: false, annots: vec![] }, vec![Call::RawImg(4), Call::SData(4)]));
    v.push(("D27-stream-then-image", GDoc { size: 6, root: 1, tolerant: false, objs, xref_stream: false, annots: vec![] }, vec![Call::SData(4), Call::ImgData(4), Call::RawImg(4)]));
    // D28: an object stream asked for as a page-tree node; afterwards its members must still resolve
    let mut objs = base_objs();
    objs.push(GObj { id: 4, kind: GKind::Int(1004), place: GPlace::InStm(5, 0) });
    objs.push(GObj { id: 5, kind: GKind::ObjStm { members: vec![4], filters: vec![F_FLATE] }, place: GPlace::Direct });
    v.push(("D28-cached-error-other-type", GDoc { size: 7, root: 1, tolerant: false, objs, xref_stream: true, annots: vec![] }, vec![Call::Get(T_PAGES, 5), Call::Resolve(4), Call::Get(T_I32, 4), Call::Get(T_STREAM, 5)]));
    let mut objs = base_objs();
    objs.push(GObj { id: 4, kind: GKind::Dict, place: GPlace::Direct });
    v.push(("D28-int-then-dict", GDoc { size: 6, root: 1, tolerant: false, objs, xref_stream: false, annots: vec![] }, vec![Call::Get(T_I32, 4), Call::Get(T_DICT, 4), Call::Get(T_PRIM, 4)]));
    // D43: /Parent links 2 -> 4 -> 2, tolerant mode
    let objs = vec![
        GObj { id: 1, kind: GKind::Cat { pages: 2 }, place: GPlace::Direct },
        GObj { id: 2, kind: GKind::Pages { parent: 4, kids: vec![4], count: 1 }, place: GPlace::Direct },
        GObj { id: 3, kind: GKind::Page { parent: 4 }, place: GPlace::Direct },
        GObj { id: 4, kind: GKind::Pages { parent: 2, kids: vec![3], count: 1 }, place: GPlace::Direct },
    ];
    v.push(("D43-cyclic-parents", GDoc { size: 6, root: 1, tolerant: true, objs, xref_stream: false, annots: vec![] }, vec![Call::Get(T_PAGES, 4), Call::Get(T_PAGES, 2)]));
    v
}

fn stream_witness(driver: &Driver, or: &mut Oracle) -> RStream {
    let mut st = RStream::new("c12.witness", true);
    let mut out = CaseOut { requests: vec![], impls: vec![] };
    for (name, d, calls) in witnesses() {
        let bytes = d.bytes();
        one_case(&d, &bytes, &calls, true, or, json!({"stream": "c12.witness", "witness": name, "doc": d.desc(), "calls": calls_text(&calls), "file_hex": crate::driver::hex(&bytes)}), &mut out);
        st.count(&format!("witness={}", name));
    }
    flush(driver, &mut st, out);
    st
}

// ---------------------------------------------------------------------------------------------------
// prefix independence on the implementation

fn oracle_prefix(seed: u64, n: u64) -> Oracle {
    let mut or = Oracle::new("c12.prefix");
    for case in 0..n {
        let mut rng = Rng::derive(seed, "c12.prefix", case);
        let d = gen_doc(&mut rng, &GenOpts { cyclic: false, odd_parents: true, objstms: true });
        let bytes = d.bytes();
        let npre = rng.usize(8);
        let mut calls = random_calls(&mut rng, &d, npre + 1);
        let q = calls.pop().unwrap();
        let cfg = 1 + rng.below(3) as u8;
        let alone = run_config(cfg, &bytes, d.tolerant, &[q.clone()], Mode::Canon, true, Some(d.root));
        calls.push(q.clone());
        let after = run_config(cfg, &bytes, d.tolerant, &calls, Mode::Canon, true, Some(d.root));
        or.case(&format!("{} {}", d.desc(), calls_text(&calls)), npre > 0, || json!({"doc": d.desc(), "calls": calls_text(&calls), "answer": after.calls.last()}));
        or.count(&format!("prefix-length={}", npre));
        if alone.calls.last() != after.calls.last() {
            or.fail("answer-depends-on-prefix", &format!("`{}` answers {:?} after [{}] but {:?} as the first call (caches {})", q.text(), after.calls.last(), calls_text(&calls[..npre]), alone.calls.last(), cfg_text(cfg)),
                doc_replay("c12.prefix", seed, case, &d, &bytes, &calls));
        }
    }
    or
}

// ---------------------------------------------------------------------------------------------------
// corpus

fn corpus_files() -> Vec<(String, Vec<u8>)> {
    let dir = format!("{}/files", repo_root());
    let mut names: Vec<String> = std::fs::read_dir(&dir).map(|rd| rd.filter_map(|e| e.ok()).map(|e| e.file_name().to_string_lossy().to_string()).collect()).unwrap_or_default();
    names.sort();
    names.into_iter()
        .filter(|n| n.ends_with(".pdf") && !n.starts_with("encrypted"))
        .filter_map(|n| std::fs::read(format!("{}/{}", dir, n)).ok().map(|b| (n, b)))
        .collect()
}

const CORPUS_TYPES: [u8; 9] = [T_PAGES, T_DICT, T_PRIM, T_STREAM, T_IMAGE, T_CAT, T_XOBJECT, T_FONT, T_RESOURCES];

fn oracle_corpus(seed: u64, thorough: bool, only: Option<(&str, u64)>) -> Oracle {
    let mut or = Oracle::new("c12.corpus");
    let perms = permutations(5);
    for (name, bytes) in corpus_files() {
        // number of objects and pages from an uncached open
        let (size, pages) = match FileOptions::uncached().load(bytes.clone()) {
            Ok(f) => (f.trailer.size.max(1) as u64, f.num_pages()),
            Err(_) => { or.count(&format!("unreadable={}", name)); continue; }
        };
        let n_obj = if thorough { 80 } else { 10 };
        let n_seq = if thorough { 150 } else { 20 };
        for case in 0..(n_obj + n_seq) {
            if let Some((f, c)) = only {
                if f != name || c != case { continue; }
            }
            let mut rng = Rng::derive(seed, &format!("c12.corpus.{}", name), case);
            let tolerant = rng.chance(1, 3);
            let histories: Vec<Vec<Call>> = if case < n_obj {
                let id = 1 + rng.below(size);
                // a type the object really loads as (probed without caches), and a second one
                let probe: Vec<Call> = CORPUS_TYPES.iter().filter(|&&t| t != T_PRIM).map(|&t| Call::Get(t, id)).collect();
                let loads = run_config(0, &bytes, tolerant, &probe, Mode::Debug, true, None).calls;
                let fits: Vec<u8> = probe.iter().zip(loads.iter()).filter(|(_, a)| a.starts_with("ok")).map(|(c, _)| if let Call::Get(t, _) = c { *t } else { 0 }).collect();
                let t1 = if fits.is_empty() { *rng.pick(&CORPUS_TYPES) } else { *rng.pick(&fits) };
                or.count(if fits.is_empty() { "object-loads-as=nothing-typed" } else { "object-loads-as=some-type" });
                let mut t2 = *rng.pick(&CORPUS_TYPES);
                while t2 == t1 { t2 = *rng.pick(&CORPUS_TYPES); }
                let kinds = vec![Call::Resolve(id), Call::Get(t1, id), Call::Get(t2, id), Call::SData(id), if rng.chance(1, 2) { Call::RawImg(id) } else { Call::ImgData(id) }];
                or.count("history=all-orderings-of-one-object");
                perms.iter().map(|p| p.iter().map(|&i| kinds[i].clone()).collect()).collect()
            } else {
                let hot: Vec<u64> = (0..4).map(|_| 1 + rng.below(size)).collect();
                let n = 4 + rng.usize(20);
                or.count("history=random-sequence");
                vec![(0..n).map(|_| {
                    let id = if rng.chance(3, 4) { *rng.pick(&hot) } else { 1 + rng.below(size) };
                    match rng.below(10) {
                        0..=3 => Call::Get(*rng.pick(&CORPUS_TYPES), id),
                        4 => Call::Resolve(id),
                        5 => Call::SData(id),
                        6 => Call::RawImg(id),
                        7 => Call::ImgData(id),
                        _ => Call::Page(rng.below(pages as u64 + 1) as u32),
                    }
                }).collect()]
            };
            for calls in histories {
                let base = run_config(0, &bytes, tolerant, &calls, Mode::Debug, case % 2 == 0, None);
                or.case(&format!("{} {} {}", name, tolerant, calls_text(&calls)), true, || json!({"file": name, "calls": calls_text(&calls), "uncached": base.text()}));
                for a in &base.calls {
                    or.count(&format!("answer={}", a.split(':').next().unwrap_or("")));
                }
                for cfg in 1..4u8 {
                    let a = run_config(cfg, &bytes, tolerant, &calls, Mode::Debug, case % 2 == 0, None);
                    if a != base {
                        let i = (0..calls.len()).find(|&i| a.calls.get(i) != base.calls.get(i)).unwrap_or(0);
                        or.fail("cached-answer-differs-from-uncached",
                            &format!("{}: call #{} `{}` of [{}] answers {} with caches {} but {} without (tolerant={})", name, i, calls[i].text(), calls_text(&calls),
                                a.calls.get(i).cloned().unwrap_or_default(), cfg_text(cfg), base.calls.get(i).cloned().unwrap_or_default(), tolerant),
                            json!({"stream": "c12.corpus", "seed": seed, "file": name, "case": case, "cfg": cfg_text(cfg), "tolerant": tolerant, "calls": calls_text(&calls), "expected": base.text(), "observed": a.text()}));
                    }
                }
            }
        }
    }
    or
}

pub fn run(driver: &Driver, seed: u64, thorough: bool, replay: Option<&serde_json::Value>) -> Report {
    let mut rep = Report::new("C12");
    let mut or = Oracle::new("c12.uncached");
    if let Some(r) = replay {
        let seed = r["seed"].as_u64().unwrap_or(seed);
        let case = r["case"].as_u64().unwrap_or(0);
        match r["stream"].as_str().unwrap_or("") {
            "c12.orders" => rep.streams.push(stream_orders(driver, seed, case, case + 1, &mut or)),
            "c12.random" => rep.streams.push(stream_random(driver, "c12.random", seed, case, case + 1, false, &mut or)),
            "c12.cyclic" => rep.streams.push(stream_random(driver, "c12.cyclic", seed, case, case + 1, true, &mut or)),
            "c12.corpus" => rep.oracles.push(oracle_corpus(seed, true, Some((r["file"].as_str().unwrap_or(""), case)))),
            "c12.prefix" => rep.oracles.push(oracle_prefix(seed, case + 1)),
            "c12.paths" => rep.oracles.push(paths::oracle_paths(Some(r))),
            _ => rep.streams.push(stream_witness(driver, &mut or)),
        }
        rep.oracles.push(or);
        return rep;
    }
    let mut wor = Oracle::new("c12.witness");
    rep.streams.push(stream_witness(driver, &mut wor));
    rep.oracles.push(wor);
    rep.streams.push(stream_orders(driver, seed, 0, if thorough { 400 } else { 30 }, &mut or));
    rep.streams.push(stream_random(driver, "c12.random", seed, 0, if thorough { 60_000 } else { 2500 }, false, &mut or));
    let mut cor = Oracle::new("c12.uncached-cyclic");
    rep.streams.push(stream_random(driver, "c12.cyclic", seed, 0, if thorough { 10_000 } else { 500 }, true, &mut cor));
    rep.oracles.push(or);
    rep.oracles.push(cor);
    rep.streams.push(stream_domain(driver, seed, if thorough { 50_000 } else { 1500 }));
    rep.oracles.push(oracle_prefix(seed, if thorough { 30_000 } else { 1500 }));
    rep.oracles.push(oracle_corpus(seed, thorough, None));
    rep.oracles.push(paths::oracle_paths(None));
    rep
}
