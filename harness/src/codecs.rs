//! Independent reference encoders and decoders for the stream filters (C05 / C16 oracles).
//! Written from the PDF specification (ISO 32000-1 §7.4), the PNG specification (filter types) and
//! TIFF 6.0 (predictor 2, LZW); shares no code with pdf-rs. zlib / raw deflate come from `flate2`
//! (miniz_oxide), a different implementation than the `libflate` used by the library; a third encoder
//! (`zlib_stored`) writes stored blocks by hand.

use crate::rng::Rng;
use std::collections::HashMap;
use std::io::{Read, Write};

pub const PDF_WS: [u8; 6] = [0, 9, 10, 12, 13, 32];

pub fn is_ws(b: u8) -> bool {
    PDF_WS.contains(&b)
}

/// insert white-space characters at random places (`density` in percent per gap)
pub fn sprinkle(core: &[u8], rng: &mut Rng, density: u64, ws: &[u8]) -> Vec<u8> {
    let mut o = Vec::with_capacity(core.len() * 2);
    for &b in core {
        while rng.below(100) < density {
            o.push(*rng.pick(ws));
        }
        o.push(b);
    }
    while rng.below(100) < density {
        o.push(*rng.pick(ws));
    }
    o
}

// ------------------------------------------------------------------------------------------- ASCIIHex

#[derive(Clone, Copy, Debug)]
pub enum HexCase {
    Lower,
    Upper,
    Mixed,
}

/// two digits per byte, `>` as EOD; a final `0` digit may be left out (the decoder has to assume it)
pub fn hex_encode(data: &[u8], case: HexCase, drop_final_zero: bool, rng: &mut Rng) -> Vec<u8> {
    let mut o = Vec::with_capacity(data.len() * 2 + 1);
    let digit = |n: u8, rng: &mut Rng| -> u8 {
        let up = match case {
            HexCase::Lower => false,
            HexCase::Upper => true,
            HexCase::Mixed => rng.chance(1, 2),
        };
        if n < 10 { b'0' + n } else if up { b'A' + n - 10 } else { b'a' + n - 10 }
    };
    for &b in data {
        o.push(digit(b >> 4, rng));
        o.push(digit(b & 15, rng));
    }
    if drop_final_zero && !data.is_empty() && data[data.len() - 1] & 15 == 0 {
        o.pop();
    }
    o.push(b'>');
    o
}

/// reference ASCIIHexDecode: None = not a valid encoding
pub fn hex_decode_ref(text: &[u8]) -> Option<Vec<u8>> {
    let mut digits = vec![];
    let mut eod = false;
    for &c in text {
        if c == b'>' {
            eod = true;
            break;
        }
        if is_ws(c) {
            continue;
        }
        let v = match c {
            b'0'..=b'9' => c - b'0',
            b'a'..=b'f' => c - b'a' + 10,
            b'A'..=b'F' => c - b'A' + 10,
            _ => return None,
        };
        digits.push(v);
    }
    if !eod {
        return None;
    }
    if digits.len() % 2 == 1 {
        digits.push(0);
    }
    Some(digits.chunks(2).map(|p| p[0] * 16 + p[1]).collect())
}

// ------------------------------------------------------------------------------------------- ASCII85

pub fn a85_group(n: u32) -> [u8; 5] {
    let mut d = [0u8; 5];
    let mut x = n as u64;
    for i in (0..5).rev() {
        d[i] = (x % 85) as u8 + b'!';
        x /= 85;
    }
    d
}

/// groups of four bytes → five digits (`z` for an all-zero group), a final group of n bytes → n+1 digits, `~>`
pub fn a85_encode(data: &[u8], use_z: bool) -> Vec<u8> {
    let mut o = Vec::new();
    let mut it = data.chunks_exact(4);
    for c in it.by_ref() {
        let n = u32::from_be_bytes([c[0], c[1], c[2], c[3]]);
        if n == 0 && use_z {
            o.push(b'z');
        } else {
            o.extend_from_slice(&a85_group(n));
        }
    }
    let r = it.remainder();
    if !r.is_empty() {
        let mut c = [0u8; 4];
        c[..r.len()].copy_from_slice(r);
        let g = a85_group(u32::from_be_bytes(c));
        o.extend_from_slice(&g[..r.len() + 1]);
    }
    o.extend_from_slice(b"~>");
    o
}

/// reference ASCII85Decode: None = not a valid encoding
pub fn a85_decode_ref(text: &[u8]) -> Option<Vec<u8>> {
    let mut out = vec![];
    let mut group: Vec<u64> = vec![];
    let mut i = 0;
    let mut eod = false;
    while i < text.len() {
        let c = text[i];
        i += 1;
        if is_ws(c) {
            continue;
        }
        if c == b'~' {
            // EOD must follow
            while i < text.len() && is_ws(text[i]) {
                i += 1;
            }
            if i < text.len() && text[i] == b'>' {
                eod = true;
            }
            break;
        }
        if c == b'z' {
            if !group.is_empty() {
                return None;
            }
            out.extend_from_slice(&[0, 0, 0, 0]);
            continue;
        }
        if !(b'!'..=b'u').contains(&c) {
            return None;
        }
        group.push((c - b'!') as u64);
        if group.len() == 5 {
            let q = group.iter().fold(0u64, |a, d| a * 85 + d);
            if q > u32::MAX as u64 {
                return None;
            }
            out.extend_from_slice(&(q as u32).to_be_bytes());
            group.clear();
        }
    }
    if !eod {
        return None;
    }
    match group.len() {
        0 => {}
        1 => return None,
        n => {
            let mut g = group.clone();
            while g.len() < 5 {
                g.push(84);
            }
            let q = g.iter().fold(0u64, |a, d| a * 85 + d);
            if q > u32::MAX as u64 {
                return None;
            }
            out.extend_from_slice(&(q as u32).to_be_bytes()[..n - 1]);
        }
    }
    Some(out)
}

// ------------------------------------------------------------------------------------------- RunLength

/// a random conforming segmentation: literal runs of 1..=128 bytes (length byte n-1), repeat runs of
/// 2..=128 equal bytes (length byte 257-n), EOD 128. `greedy` prefers repeat runs where possible.
pub fn rl_encode(data: &[u8], rng: &mut Rng, greedy: bool) -> Vec<u8> {
    let mut o = vec![];
    let mut i = 0;
    while i < data.len() {
        // length of the run of equal bytes starting at i
        let mut same = 1;
        while i + same < data.len() && data[i + same] == data[i] && same < 128 {
            same += 1;
        }
        let use_repeat = same >= 2 && (greedy || rng.chance(2, 3));
        if use_repeat {
            let n = if greedy { same } else { 2 + rng.usize(same - 1) };
            o.push((257 - n) as u8);
            o.push(data[i]);
            i += n;
        } else {
            let max = (data.len() - i).min(128);
            let n = if greedy {
                // up to the next run of ≥ 3 equal bytes
                let mut n = 1;
                while n < max && !(i + n + 2 < data.len() && data[i + n] == data[i + n + 1] && data[i + n] == data[i + n + 2]) {
                    n += 1;
                }
                n
            } else {
                let cap = 1 + rng.usize(max);
                1 + rng.usize(max.min(cap))
            };
            o.push((n - 1) as u8);
            o.extend_from_slice(&data[i..i + n]);
            i += n;
        }
    }
    o.push(128);
    o
}

/// reference RunLengthDecode: None = truncated run (EOD may be missing at the very end of the data)
pub fn rl_decode_ref(text: &[u8]) -> Option<Vec<u8>> {
    let mut out = vec![];
    let mut i = 0;
    while i < text.len() {
        let l = text[i] as usize;
        i += 1;
        if l == 128 {
            break;
        } else if l < 128 {
            if i + l + 1 > text.len() {
                return None;
            }
            out.extend_from_slice(&text[i..i + l + 1]);
            i += l + 1;
        } else {
            if i >= text.len() {
                return None;
            }
            out.extend(std::iter::repeat(text[i]).take(257 - l));
            i += 1;
        }
    }
    Some(out)
}

// ------------------------------------------------------------------------------------------- LZW

struct BitWriter {
    out: Vec<u8>,
    acc: u32,
    nb: u32,
}

impl BitWriter {
    fn put(&mut self, code: u32, width: u32) {
        self.acc = (self.acc << width) | code;
        self.nb += width;
        while self.nb >= 8 {
            self.out.push((self.acc >> (self.nb - 8)) as u8);
            self.nb -= 8;
            self.acc &= (1u32 << self.nb) - 1;
        }
    }
    fn finish(mut self) -> Vec<u8> {
        if self.nb > 0 {
            let pad = 8 - self.nb;
            self.put(0, pad);
        }
        self.out
    }
}

/// PDF LZW encoder (ISO 32000-1 §7.4.4): codes 0-255 data, 256 clear-table, 257 EOD, 9 to 12 bits packed
/// high-order bit first, table reset before it overflows. `early` = EarlyChange 1 (code length grows one
/// code early). `clear_every`: emit an additional clear-table code after that many codes (legal anywhere).
pub fn lzw_encode(data: &[u8], early: bool, clear_every: Option<usize>) -> Vec<u8> {
    let mut bw = BitWriter { out: vec![], acc: 0, nb: 0 };
    let mut dict: HashMap<Vec<u8>, u32> = HashMap::new();
    let mut next = 258u32;
    let mut width = 9u32;
    let mut since_clear = 0usize;
    bw.put(256, width);
    let mut w: Vec<u8> = vec![];
    let e = if early { 1 } else { 0 };
    for &b in data {
        let mut wb = w.clone();
        wb.push(b);
        if wb.len() == 1 || dict.contains_key(&wb) {
            w = wb;
            continue;
        }
        let code = if w.len() == 1 { w[0] as u32 } else { dict[&w] };
        bw.put(code, width);
        since_clear += 1;
        dict.insert(wb, next);
        next += 1;
        if next + e > (1 << width) && width < 12 {
            width += 1;
        }
        if next >= 4093 || clear_every.map(|n| since_clear >= n).unwrap_or(false) {
            bw.put(256, width);
            dict.clear();
            next = 258;
            width = 9;
            since_clear = 0;
        }
        w = vec![b];
    }
    if !w.is_empty() {
        let code = if w.len() == 1 { w[0] as u32 } else { dict[&w] };
        bw.put(code, width);
        next += 1;
        if next + e > (1 << width) && width < 12 {
            width += 1;
        }
    }
    bw.put(257, width);
    bw.finish()
}

/// choices a conforming LZW encoder is free to make
#[derive(Clone, Debug)]
pub struct LzwOpts {
    /// write a clear-table code first (the specification asks for it; readers cope without)
    pub start_clear: bool,
    /// extra clear-table codes: after that many codes since the last one
    pub clear_every: Option<usize>,
    /// let the table fill up completely (entry 4095) before clearing, instead of clearing a little earlier
    pub fill_table: bool,
    /// with a full table, emit that many further codes (no new entries) before the clear-table code
    pub deferred: usize,
    /// per phrase: percentage chance to stop matching early (a shorter phrase than the longest match)
    pub cut_percent: u64,
}

impl LzwOpts {
    pub fn greedy() -> LzwOpts {
        LzwOpts { start_clear: true, clear_every: None, fill_table: false, deferred: 0, cut_percent: 0 }
    }
}

/// PDF LZW encoder with the encoder's freedoms spelled out (see `LzwOpts`); `lzw_encode` is the plain case
pub fn lzw_encode_opts(data: &[u8], early: bool, o: &LzwOpts, rng: &mut Rng) -> Vec<u8> {
    let mut bw = BitWriter { out: vec![], acc: 0, nb: 0 };
    let mut dict: HashMap<Vec<u8>, u32> = HashMap::new();
    let mut next = 258u32;
    let mut width = 9u32;
    let mut since_clear = 0usize;
    let mut full_codes = 0usize;
    let e = if early { 1 } else { 0 };
    if o.start_clear {
        bw.put(256, width);
    }
    let mut i = 0;
    while i < data.len() {
        // longest match starting at i, possibly cut short
        let mut len = 1;
        let mut code = data[i] as u32;
        let mut l = 2;
        while i + l <= data.len() {
            match dict.get(&data[i..i + l]) {
                Some(&c) => {
                    if o.cut_percent > 0 && rng.below(100) < o.cut_percent { break; }
                    len = l;
                    code = c;
                    l += 1;
                }
                None => break,
            }
        }
        bw.put(code, width);
        since_clear += 1;
        let rest = i + len < data.len();
        if next < 4096 {
            if rest {
                dict.insert(data[i..i + len + 1].to_vec(), next);
            }
            // the reader adds an entry for every code but the first one after a clear-table code; the width
            // follows the reader's table (which lags by one entry), see Spec/Lzw.lean
            next += 1;
            if next + e > (1 << width) && width < 12 {
                width += 1;
            }
        } else {
            full_codes += 1;
        }
        i += len;
        let limit = if o.fill_table { 4096 } else { 4093 };
        let table_done = next >= limit && (!o.fill_table || full_codes >= o.deferred);
        if rest && (table_done || o.clear_every.map(|n| since_clear >= n).unwrap_or(false)) {
            bw.put(256, width);
            dict.clear();
            next = 258;
            width = 9;
            since_clear = 0;
            full_codes = 0;
        }
    }
    bw.put(257, width);
    bw.finish()
}

/// A random *valid code sequence* built on the reader's side of the protocol (every such sequence is what
/// some conforming, not necessarily greedy, encoder emits): literals, table entries with a bias to the most
/// recent ones, the not-yet-defined code `next` (KwKwK) whenever it is allowed, clear-table codes, and
/// `after_full` further codes once entry 4095 exists. Returns (decoded bytes, packed stream).
pub fn lzw_random_codes(rng: &mut Rng, early: bool, n_codes: usize, after_full: usize, max_word: usize) -> (Vec<u8>, Vec<u8>) {
    let mut bw = BitWriter { out: vec![], acc: 0, nb: 0 };
    let mut table: Vec<Vec<u8>> = vec![];
    let mut width = 9u32;
    let mut prev: Option<Vec<u8>> = None;
    let mut out = vec![];
    let mut full_codes = 0usize;
    let e = if early { 1 } else { 0 };
    if !rng.chance(1, 8) {
        bw.put(256, width);
    }
    for _ in 0..n_codes {
        let next = 258 + table.len() as u32;
        let full = next >= 4096;
        if (full && full_codes >= after_full) || rng.chance(1, 3000) {
            bw.put(256, width);
            table.clear();
            width = 9;
            prev = None;
            full_codes = 0;
            continue;
        }
        // pick a code and its word
        let pick = rng.below(100);
        let (code, word): (u32, Vec<u8>) = {
            let kwkwk_ok = prev.is_some() && !full;
            let recent = |rng: &mut Rng, table: &Vec<Vec<u8>>| -> Option<(u32, Vec<u8>)> {
                if table.is_empty() { return None; }
                let back = rng.usize(table.len().min(4));
                let i = table.len() - 1 - back;
                Some((258 + i as u32, table[i].clone()))
            };
            let cand = if pick < 30 { None }
                else if pick < 50 && kwkwk_ok { let p = prev.clone().unwrap(); let mut w = p.clone(); w.push(p[0]); Some((next, w)) }
                else if pick < 85 { recent(rng, &table) }
                else if !table.is_empty() { let i = rng.usize(table.len()); Some((258 + i as u32, table[i].clone())) }
                else { None };
            match cand {
                Some((c, w)) if w.len() <= max_word => (c, w),
                _ => { let b = if rng.chance(1, 2) { rng.byte() } else { *rng.pick(b"ab") }; (b as u32, vec![b]) }
            }
        };
        bw.put(code, width);
        out.extend_from_slice(&word);
        if let Some(p) = &prev {
            if !full {
                let mut entry = p.clone();
                entry.push(word[0]);
                table.push(entry);
                if next >= (1u32 << width) - 1 - e && width < 12 {
                    width += 1;
                }
            }
        }
        if full { full_codes += 1; }
        prev = Some(word);
    }
    bw.put(257, width);
    (out, bw.finish())
}

/// reference PDF LZW decoder: None = invalid code stream
pub fn lzw_decode_ref(data: &[u8], early: bool) -> Option<Vec<u8>> {
    let mut out = vec![];
    let mut table: Vec<Vec<u8>> = vec![];
    let reset = |t: &mut Vec<Vec<u8>>| {
        t.clear();
        for i in 0..256u32 {
            t.push(vec![i as u8]);
        }
        t.push(vec![]);
        t.push(vec![]);
    };
    reset(&mut table);
    let mut width = 9u32;
    let mut acc: u32 = 0;
    let mut nb: u32 = 0;
    let mut prev: Option<Vec<u8>> = None;
    let e = if early { 1 } else { 0 };
    let mut pos = 0;
    loop {
        while nb < width {
            if pos >= data.len() {
                // data ended without EOD: accept what was decoded (lenient, like most readers)
                return Some(out);
            }
            acc = (acc << 8) | data[pos] as u32;
            pos += 1;
            nb += 8;
        }
        let code = (acc >> (nb - width)) & ((1 << width) - 1);
        nb -= width;
        acc &= (1u32 << nb) - 1;
        if code == 256 {
            reset(&mut table);
            width = 9;
            prev = None;
            continue;
        }
        if code == 257 {
            return Some(out);
        }
        let entry = if (code as usize) < table.len() {
            table[code as usize].clone()
        } else if code as usize == table.len() {
            let p = prev.clone()?;
            let mut e = p.clone();
            e.push(p[0]);
            e
        } else {
            return None;
        };
        out.extend_from_slice(&entry);
        if let Some(p) = prev {
            if table.len() < 4096 {
                let mut ne = p;
                ne.push(entry[0]);
                table.push(ne);
            }
        }
        prev = Some(entry);
        if table.len() as u32 + e >= (1 << width) && width < 12 {
            width += 1;
        }
    }
}

// ------------------------------------------------------------------------------------------- Flate

pub fn adler32(data: &[u8]) -> u32 {
    let (mut a, mut b) = (1u32, 0u32);
    for &x in data {
        a = (a + x as u32) % 65521;
        b = (b + a) % 65521;
    }
    (b << 16) | a
}

pub fn zlib_level(data: &[u8], level: u32) -> Vec<u8> {
    let mut e = flate2::write::ZlibEncoder::new(Vec::new(), flate2::Compression::new(level));
    e.write_all(data).unwrap();
    e.finish().unwrap()
}

pub fn deflate_raw(data: &[u8], level: u32) -> Vec<u8> {
    let mut e = flate2::write::DeflateEncoder::new(Vec::new(), flate2::Compression::new(level));
    e.write_all(data).unwrap();
    e.finish().unwrap()
}

/// zlib stream made of stored (uncompressed) deflate blocks of at most `block` bytes, written by hand
pub fn zlib_stored(data: &[u8], block: usize) -> Vec<u8> {
    let mut o = vec![0x78, 0x01];
    o.extend_from_slice(&deflate_stored(data, block));
    o.extend_from_slice(&adler32(data).to_be_bytes());
    o
}

pub fn deflate_stored(data: &[u8], block: usize) -> Vec<u8> {
    let block = block.clamp(1, 65535);
    let mut o = vec![];
    if data.is_empty() {
        o.extend_from_slice(&[1, 0, 0, 0xff, 0xff]);
        return o;
    }
    let n = (data.len() + block - 1) / block;
    for (i, c) in data.chunks(block).enumerate() {
        o.push(if i + 1 == n { 1 } else { 0 });
        o.extend_from_slice(&(c.len() as u16).to_le_bytes());
        o.extend_from_slice(&(!(c.len() as u16)).to_le_bytes());
        o.extend_from_slice(c);
    }
    o
}

pub fn inflate_zlib_ref(data: &[u8]) -> Option<Vec<u8>> {
    let mut d = flate2::read::ZlibDecoder::new(data);
    let mut o = vec![];
    d.read_to_end(&mut o).ok()?;
    Some(o)
}

pub fn inflate_raw_ref(data: &[u8]) -> Option<Vec<u8>> {
    let mut d = flate2::read::DeflateDecoder::new(data);
    let mut o = vec![];
    d.read_to_end(&mut o).ok()?;
    Some(o)
}

// ------------------------------------------------------------------------------------------- predictors

#[derive(Clone, Copy, Debug, PartialEq, Eq)]
pub struct Geometry {
    pub colors: usize,
    pub bpc: usize,
    pub columns: usize,
}

impl Geometry {
    /// bytes per row
    pub fn stride(&self) -> usize {
        (self.colors * self.bpc * self.columns + 7) / 8
    }
    /// bytes per complete pixel, at least 1 (PNG: "bpp")
    pub fn bpp(&self) -> usize {
        ((self.colors * self.bpc + 7) / 8).max(1)
    }
}

/// the Paeth predictor of the PNG specification, on integers
pub fn paeth_spec(a: u8, b: u8, c: u8) -> u8 {
    let (ia, ib, ic) = (a as i32, b as i32, c as i32);
    let p = ia + ib - ic;
    let (pa, pb, pc) = ((p - ia).abs(), (p - ib).abs(), (p - ic).abs());
    if pa <= pb && pa <= pc { a } else if pb <= pc { b } else { c }
}

/// PNG filter of one row (`t` in 0..=4) against the previous *unfiltered* row
pub fn png_filter_row(t: u8, bpp: usize, prev: &[u8], row: &[u8]) -> Vec<u8> {
    let mut o = Vec::with_capacity(row.len());
    for i in 0..row.len() {
        let a = if i >= bpp { row[i - bpp] } else { 0 };
        let b = prev[i];
        let c = if i >= bpp { prev[i - bpp] } else { 0 };
        let pred = match t {
            0 => 0,
            1 => a,
            2 => b,
            3 => ((a as u16 + b as u16) / 2) as u8,
            _ => paeth_spec(a, b, c),
        };
        o.push(row[i].wrapping_sub(pred));
    }
    o
}

/// PNG prediction of an image made of complete rows: every row gets a tag byte; `choose(row index)` names
/// the filter type of the row
pub fn png_predict(data: &[u8], g: Geometry, mut choose: impl FnMut(usize) -> u8) -> Vec<u8> {
    let stride = g.stride();
    assert!(stride > 0 && data.len() % stride == 0);
    let zero = vec![0u8; stride];
    let mut o = Vec::with_capacity(data.len() + data.len() / stride);
    for (r, row) in data.chunks(stride).enumerate() {
        let prev = if r == 0 { &zero[..] } else { &data[(r - 1) * stride..r * stride] };
        let t = choose(r);
        o.push(t);
        o.extend_from_slice(&png_filter_row(t, g.bpp(), prev, row));
    }
    o
}

fn get_sample(row: &[u8], bpc: usize, k: usize) -> u32 {
    match bpc {
        16 => (row[2 * k] as u32) << 8 | row[2 * k + 1] as u32,
        8 => row[k] as u32,
        _ => {
            let per = 8 / bpc;
            let byte = row[k / per] as u32;
            let idx = k % per; // sample 0 sits in the high bits
            (byte >> (8 - bpc * (idx + 1))) & ((1 << bpc) - 1)
        }
    }
}

fn put_sample(row: &mut [u8], bpc: usize, k: usize, v: u32) {
    match bpc {
        16 => {
            row[2 * k] = (v >> 8) as u8;
            row[2 * k + 1] = v as u8;
        }
        8 => row[k] = v as u8,
        _ => {
            let per = 8 / bpc;
            let idx = k % per;
            let shift = 8 - bpc * (idx + 1);
            let mask = (((1u32 << bpc) - 1) << shift) as u8;
            row[k / per] = (row[k / per] & !mask) | (((v << shift) as u8) & mask);
        }
    }
}

/// TIFF predictor 2 (horizontal differencing, TIFF 6.0 §14): per row, per colour component, every sample
/// is replaced by its difference to the sample one pixel to the left (modulo 2^bpc); the first pixel and
/// the padding bits at the end of a row stay as they are.
pub fn tiff_predict(data: &[u8], g: Geometry) -> Vec<u8> {
    let stride = g.stride();
    assert!(stride > 0 && data.len() % stride == 0);
    let mut o = data.to_vec();
    let n = g.colors * g.columns;
    let modulo = 1u32 << g.bpc;
    for (r, row) in data.chunks(stride).enumerate() {
        let orow = &mut o[r * stride..(r + 1) * stride];
        for k in g.colors..n {
            let d = (get_sample(row, g.bpc, k) + modulo - get_sample(row, g.bpc, k - g.colors)) % modulo;
            put_sample(orow, g.bpc, k, d);
        }
    }
    o
}

// ------------------------------------------------------------------------------------------- self test

/// fixed vectors from the specifications; a failure here is a broken oracle, not a finding
pub fn self_test() -> Result<(), String> {
    // ISO 32000-1 §7.4.4.2 example
    let lz = lzw_encode(&[45, 45, 45, 45, 45, 65, 45, 45, 45, 66], true, None);
    if lz != [0x80, 0x0B, 0x60, 0x50, 0x22, 0x0C, 0x0C, 0x85, 0x01] {
        return Err(format!("LZW spec example: {:02x?}", lz));
    }
    if a85_encode(b"hello world!", true) != b"BOu!rD]j7BEbo80~>" {
        return Err("ASCII85 vector".into());
    }
    if a85_encode(&[0, 0, 0, 0, 0], true) != b"z!!~>" {
        return Err("ASCII85 z vector".into());
    }
    if adler32(b"Wikipedia") != 0x11E60398 {
        return Err("adler32".into());
    }
    for (bytes, early) in [(vec![1u8; 5000], true), ((0..20000u32).map(|i| (i * i >> 3) as u8).collect(), false)] {
        for ce in [None, Some(7)] {
            if lzw_decode_ref(&lzw_encode(&bytes, early, ce), early).as_deref() != Some(&bytes[..]) {
                return Err(format!("own LZW round trip early={} clear={:?}", early, ce));
            }
        }
    }
    if inflate_zlib_ref(&zlib_stored(b"abcabcabc", 4)).as_deref() != Some(&b"abcabcabc"[..]) {
        return Err("stored zlib".into());
    }
    // Paeth: a = 10, b = 20, c = 15 -> p = 15 -> pa 5 pb 5 pc 0 -> c
    if paeth_spec(10, 20, 15) != 15 || paeth_spec(1, 2, 3) != 1 {
        return Err("paeth".into());
    }
    Ok(())
}
