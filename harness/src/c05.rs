//! C05 — stream filters decode what standard encoders produce; broken data never panics.
//!
//! Model = lean/PdfModel/Model/Enc.lean (driver handler Drv/C05.lean).
//!
//! Correspondence streams (model vs the real functions of pdf/src/enc.rs, object/stream.rs):
//!   c05.nibble.exhaustive     all 256 bytes → `decode_nibble`
//!   c05.hex.short             every input of ≤ 2 bytes followed by `>` → `decode_hex`         (exhaustive)
//!   c05.hex.conforming        conforming encodings (case, white-space, odd last digit) of random bytes
//!   c05.hex.broken            truncated / corrupted / random text                          (outside the domain)
//!   c05.a85.short             every input of ≤ 2 bytes followed by `~>` → `decode_85`        (exhaustive)
//!   c05.a85.conforming / .broken
//!   c05.rl.headers            every length byte × enough / one byte too little data → `run_length_decode`
//!   c05.rl.conforming / .broken
//!   c05.paeth                 rows (b, c) × all 256 a → `filter_paeth` observed through `unfilter`
//!   c05.unfilter.small        filter type × bpp 1..=8 × rows of ≤ 4 bytes over a small alphabet   (exhaustive)
//!   c05.unfilter.random       random rows, bpp, types; `c05.unfilter.misuse`: unequal lengths, bpp 0 (outside)
//!   c05.unpredict.conforming  PNG / TIFF predicted images of random geometry → `flate_decode` / `lzw_decode`
//!   c05.unpredict.params      arbitrary (also invalid) parameters and data                   (outside the domain)
//!   c05.chain.conforming      chains of 0–3 filters through `decode` folded as `Stream::data` does
//!   c05.chain.broken          the same chains on damaged data, ASCII filters only           (outside the domain)
//!   c05.pair                  `/Filter` × `/DecodeParms` shapes → `StreamInfo::from_primitive`
//! Oracles (the real library against the property's own oracle):
//!   c05.witness               deterministic regression witnesses of the repaired defects (D12, D13, D14, …)
//!   c05.decode                independent encoders × chains ≤ 3 × parameters → `enc::decode`, `Stream::data` on a
//!                             generated stream object, and `Stream::data` on complete generated PDF files
//!   c05.nopanic               truncated / corrupted / random data and hostile parameters: error or value
//!   c05.exhaustive            all hex digit pairs, all run-length headers, all 2^24 Paeth triples
//!                             (thorough: all 85^5 five-digit ASCII85 groups) against the specification

#[path = "codecs.rs"]
pub mod codecs;

use crate::driver::{hex, Driver};
use crate::pdfwrite::*;
use crate::report::*;
use crate::rng::Rng;
use codecs::*;
use pdf::enc::{self, LZWFlateParams, PredictorType, StreamFilter};
use pdf::file::{NoCache, NoLog, Storage};
use pdf::object::{NoResolve, Object, ParseOptions, PlainRef, Resolve, Stream as PdfStreamObj, StreamInfo};
use pdf::primitive::{Dictionary, Primitive};
use serde_json::{json, Value};
use std::panic::{catch_unwind, AssertUnwindSafe};

// ---------------------------------------------------------------------------------------------------
// helpers

pub fn show(r: std::thread::Result<pdf::error::Result<Vec<u8>>>) -> String {
    match r {
        Ok(Ok(v)) => format!("ok {}", hex(&v)),
        Ok(Err(_)) => "err".into(),
        Err(_) => "panic".into(),
    }
}

pub fn real<F: FnOnce() -> pdf::error::Result<Vec<u8>>>(f: F) -> String {
    show(catch_unwind(AssertUnwindSafe(f)))
}

fn class(s: &str) -> &str {
    match s.split(' ').next().unwrap_or("") {
        c @ ("ok" | "err" | "panic" | "oof" | "abort" | "timeout" | "bad-request" | "none" | "0" | "1") => c,
        _ => "value",
    }
}

#[derive(Clone, Debug, PartialEq)]
pub struct P {
    pub predictor: i32,
    pub colors: i32,
    pub bpc: i32,
    pub columns: i32,
    pub early: i32,
}

impl P {
    pub fn plain(early: i32) -> P {
        P { predictor: 1, colors: 1, bpc: 8, columns: 1, early }
    }
    pub fn real(&self) -> LZWFlateParams {
        LZWFlateParams { predictor: self.predictor, n_components: self.colors, bits_per_component: self.bpc, columns: self.columns, early_change: self.early }
    }
    fn proto(&self) -> String {
        format!("{}:{}:{}:{}:{}", self.predictor, self.colors, self.bpc, self.columns, self.early)
    }
    fn geometry(&self) -> Geometry {
        Geometry { colors: self.colors as usize, bpc: self.bpc as usize, columns: self.columns as usize }
    }
    /// `<< /Predictor … >>` with defaults left out at random
    fn dict_text(&self, rng: &mut Rng) -> String {
        let mut parts = vec![];
        let mut put = |key: &str, v: i32, dflt: i32, rng: &mut Rng| {
            if v != dflt || rng.chance(1, 3) {
                parts.push(format!("/{} {}", key, v));
            }
        };
        put("Predictor", self.predictor, 1, rng);
        put("Colors", self.colors, 1, rng);
        put("BitsPerComponent", self.bpc, 8, rng);
        put("Columns", self.columns, 1, rng);
        put("EarlyChange", self.early, 1, rng);
        rng.shuffle(&mut parts);
        format!("<< {} >>", parts.join(" "))
    }
    fn is_default(&self) -> bool {
        *self == P::plain(1)
    }
}

#[derive(Clone, Copy, Debug, PartialEq)]
pub enum Framing {
    Zlib,
    Raw,
}

#[derive(Clone, Debug)]
pub enum F {
    Hex,
    A85,
    Rl,
    Flate(P, Framing),
    Lzw(P),
}

impl F {
    pub fn real(&self) -> StreamFilter {
        match self {
            F::Hex => StreamFilter::ASCIIHexDecode,
            F::A85 => StreamFilter::ASCII85Decode,
            F::Rl => StreamFilter::RunLengthDecode,
            F::Flate(p, _) => StreamFilter::FlateDecode(p.real()),
            F::Lzw(p) => StreamFilter::LZWDecode(p.real()),
        }
    }
    fn proto(&self) -> String {
        match self {
            F::Hex => "hex".into(),
            F::A85 => "a85".into(),
            F::Rl => "rl".into(),
            F::Flate(p, _) => format!("fl:{}", p.proto()),
            F::Lzw(p) => format!("lzw:{}", p.proto()),
        }
    }
    fn pdf_name(&self) -> &'static str {
        match self {
            F::Hex => "ASCIIHexDecode",
            F::A85 => "ASCII85Decode",
            F::Rl => "RunLengthDecode",
            F::Flate(..) => "FlateDecode",
            F::Lzw(..) => "LZWDecode",
        }
    }
    fn kind(&self) -> String {
        match self {
            F::Hex => "hex".into(),
            F::A85 => "a85".into(),
            F::Rl => "rl".into(),
            F::Flate(p, fr) => format!("flate{}{}", if *fr == Framing::Raw { "-raw" } else { "" }, pred_kind(p)),
            F::Lzw(p) => format!("lzw{}{}", p.early, pred_kind(p)),
        }
    }
    fn params(&self) -> Option<&P> {
        match self {
            F::Flate(p, _) | F::Lzw(p) => Some(p),
            _ => None,
        }
    }
    fn ascii_only(&self) -> bool {
        matches!(self, F::Hex | F::A85 | F::Rl)
    }
}

fn pred_kind(p: &P) -> String {
    match p.predictor {
        1 => "".into(),
        2 => format!("+tiff{}", p.bpc),
        n => format!("+png{}/{}", n, p.bpc),
    }
}

/// random payload: mixtures that matter to the codecs (zero runs, 0xff, runs, text, noise)
pub fn payload(rng: &mut Rng, max: usize) -> Vec<u8> {
    let len = match rng.below(10) {
        0 => 0,
        1..=4 => rng.usize(12.min(max) + 1),
        5..=8 => rng.usize(max.min(300) + 1),
        _ => rng.usize(max + 1),
    };
    let mut v = Vec::with_capacity(len);
    let mode = rng.below(6);
    while v.len() < len {
        let k = 1 + rng.usize(9);
        match if mode == 5 { rng.below(5) } else { mode } {
            0 => v.extend(std::iter::repeat(0).take(k)),
            1 => v.extend(std::iter::repeat(*rng.pick(&[0xffu8, 0x80, 0x7f, 1, 0x20, b'>', b'~', b'z'])).take(k)),
            2 => v.extend((0..k).map(|_| *rng.pick(b"the quick brown fox <>~z!u\n\r\t ")).collect::<Vec<u8>>()),
            3 => {
                let b = rng.byte();
                v.extend(std::iter::repeat(b).take(k * 15));
            }
            _ => v.extend(rng.bytes(k)),
        }
    }
    v.truncate(len);
    v
}

/// choose a geometry whose row size divides `len` (`len` > 0) or any geometry for empty data
fn pick_geometry(rng: &mut Rng, len: usize) -> Geometry {
    let bpc = *rng.pick(&[1usize, 2, 4, 8, 8, 8, 16]);
    let colors = *rng.pick(&[1usize, 1, 2, 3, 4, 5]);
    if len == 0 {
        return Geometry { colors, bpc, columns: 1 + rng.usize(9) };
    }
    // a divisor of len as row size
    let divs: Vec<usize> = (1..=len.min(4096)).filter(|d| len % d == 0).collect();
    let stride = *rng.pick(&divs);
    let px = colors * bpc;
    // all column counts whose rows are `stride` bytes long
    let hi = 8 * stride / px;
    let lo = (8 * (stride - 1)) / px + 1;
    if hi >= lo && hi >= 1 {
        let columns = lo.max(1) + rng.usize(hi - lo.max(1) + 1);
        let g = Geometry { colors, bpc, columns };
        if g.stride() == stride {
            return g;
        }
    }
    Geometry { colors: 1, bpc: 8, columns: stride }
}

/// random parameters whose predictor can encode `len` bytes
fn pick_params(rng: &mut Rng, len: usize, early: i32) -> P {
    match rng.below(10) {
        0..=3 => {
            // no predictor; the other entries may hold anything sensible
            let mut p = P::plain(early);
            if rng.chance(1, 3) {
                p.columns = 1 + rng.below(30) as i32;
                p.colors = 1 + rng.below(4) as i32;
            }
            p
        }
        4 => {
            let g = pick_geometry(rng, len);
            P { predictor: 2, colors: g.colors as i32, bpc: g.bpc as i32, columns: g.columns as i32, early }
        }
        _ => {
            let g = pick_geometry(rng, len);
            P { predictor: 10 + rng.below(6) as i32, colors: g.colors as i32, bpc: g.bpc as i32, columns: g.columns as i32, early }
        }
    }
}

/// apply the predictor named by `p` the way a conforming encoder does
fn predict(data: &[u8], p: &P, rng: &mut Rng) -> Vec<u8> {
    match p.predictor {
        2 => tiff_predict(data, p.geometry()),
        n if n >= 10 => {
            // 10..=14 name the filter the encoder prefers, 15 "optimum"; every row is tagged, and the tag is
            // what the decoder has to obey. Encoders are free to tag each row as they like.
            let fixed = (n - 10) as u8;
            let per_row = n == 15 || rng.chance(1, 4);
            let mut r2 = rng.clone();
            png_predict(data, p.geometry(), |_| if per_row { r2.below(5) as u8 } else { fixed.min(4) })
        }
        _ => data.to_vec(),
    }
}

#[derive(Clone, Debug)]
pub struct Encoded {
    pub filters: Vec<F>,
    pub payload: Vec<u8>,
    pub data: Vec<u8>,
    /// third-party decoder behaviour the model needs: (fn, input, output)
    pub ext: Vec<(String, Vec<u8>, Option<Vec<u8>>)>,
    /// input of every decoding stage, outermost first, and the payload last
    pub stages: Vec<Vec<u8>>,
}

fn encode_one(f: &F, input: &[u8], rng: &mut Rng, ext: &mut Vec<(String, Vec<u8>, Option<Vec<u8>>)>) -> Vec<u8> {
    match f {
        F::Hex => {
            let case = *rng.pick(&[HexCase::Lower, HexCase::Upper, HexCase::Mixed]);
            let core = hex_encode(input, case, rng.chance(1, 4), rng);
            if rng.chance(1, 2) { let d = rng.below(30); sprinkle(&core, rng, d, &PDF_WS) } else { core }
        }
        F::A85 => {
            let core = a85_encode(input, true);
            // white-space anywhere between the digits (not inside the two-character EOD marker)
            if rng.chance(1, 2) {
                let d = rng.below(30);
                let mut t = sprinkle(&core[..core.len() - 2], rng, d, &PDF_WS);
                t.extend_from_slice(b"~>");
                if rng.chance(1, 3) { t.push(*rng.pick(&[b'\n', b'\r', b' '])); }
                t
            } else { core }
        }
        F::Rl => { let greedy = rng.chance(1, 2); rl_encode(input, rng, greedy) }
        F::Flate(p, framing) => {
            let pre = predict(input, p, rng);
            let out = match (framing, rng.below(4)) {
                (Framing::Zlib, 0) => zlib_stored(&pre, 1 + rng.usize(70000)),
                (Framing::Zlib, k) => zlib_level(&pre, [1, 6, 9][(k - 1) as usize]),
                (Framing::Raw, 0) => deflate_stored(&pre, 1 + rng.usize(70000)),
                (Framing::Raw, k) => deflate_raw(&pre, [1, 6, 9][(k - 1) as usize]),
            };
            match framing {
                Framing::Zlib => ext.push(("z".into(), out.clone(), Some(pre))),
                Framing::Raw => ext.push(("r".into(), out.clone(), Some(pre))),
            }
            out
        }
        F::Lzw(p) => {
            let pre = predict(input, p, rng);
            let ce = if rng.chance(1, 5) { Some(1 + rng.usize(600)) } else { None };
            let out = lzw_encode(&pre, p.early != 0, ce);
            ext.push((if p.early != 0 { "l1" } else { "l0" }.into(), out.clone(), Some(pre)));
            out
        }
    }
}

/// a raw-deflate stream must not look like a zlib stream to the decoder that is tried first; a conforming
/// producer of raw deflate cannot know that pdf-rs tries zlib first, so such streams are part of the domain —
/// but their first two bytes would have to pass the zlib header check *and* the body the Adler-32 check.
/// The generator only records the histogram of streams whose header would pass.
fn looks_like_zlib_header(d: &[u8]) -> bool {
    d.len() >= 2 && d[0] & 0x0f == 8 && (d[0] >> 4) <= 7 && ((d[0] as u32) << 8 | d[1] as u32) % 31 == 0
}

pub fn gen_chain(rng: &mut Rng, max_payload: usize, max_len: usize) -> Encoded {
    let n = match rng.below(10) { 0 => 0, 1..=4 => 1, 5..=7 => 2, _ => 3 }.min(max_len);
    let x = payload(rng, max_payload);
    // innermost filter first
    let mut cur = x.clone();
    let mut filters_rev = vec![];
    let mut ext = vec![];
    let mut stages = vec![x.clone()];
    for _ in 0..n {
        let early = if rng.chance(1, 3) { 0 } else { 1 };
        let f = match rng.below(9) {
            0 => F::Hex,
            1 => F::A85,
            2 => F::Rl,
            3..=5 => F::Flate(pick_params(rng, cur.len(), 1), if rng.chance(1, 4) { Framing::Raw } else { Framing::Zlib }),
            _ => F::Lzw(pick_params(rng, cur.len(), early)),
        };
        cur = encode_one(&f, &cur, rng, &mut ext);
        stages.push(cur.clone());
        filters_rev.push(f);
    }
    filters_rev.reverse();
    stages.reverse();
    Encoded { filters: filters_rev, payload: x, data: cur, ext, stages }
}

fn ext_proto(ext: &[(String, Vec<u8>, Option<Vec<u8>>)]) -> String {
    if ext.is_empty() {
        return "-".into();
    }
    ext.iter()
        .map(|(f, i, o)| format!("{}.{}.{}", f, hex(i), o.as_ref().map(|o| hex(o)).unwrap_or_else(|| "!".into())))
        .collect::<Vec<_>>()
        .join(";")
}

fn filters_proto(fs: &[F]) -> String {
    if fs.is_empty() { "-".into() } else { fs.iter().map(|f| f.proto()).collect::<Vec<_>>().join(",") }
}

/// the fold of `Stream::data` / `Storage::decode`
pub fn real_chain(data: &[u8], fs: &[F]) -> String {
    let filters: Vec<StreamFilter> = fs.iter().map(|f| f.real()).collect();
    real(|| {
        let mut d = data.to_vec();
        for f in &filters {
            d = enc::decode(&d, f)?;
        }
        Ok(d)
    })
}

/// `Stream::data` on a generated stream object that carries the filters
fn real_stream_generated(data: &[u8], fs: &[F]) -> String {
    let filters: Vec<StreamFilter> = fs.iter().map(|f| f.real()).collect();
    real(|| {
        let s = PdfStreamObj::<()>::from_compressed((), data.to_vec(), filters);
        s.data(&NoResolve).map(|d| d.to_vec())
    })
}

fn parse_p(v: &[&str]) -> Option<P> {
    if v.len() != 5 { return None; }
    Some(P { predictor: v[0].parse().ok()?, colors: v[1].parse().ok()?, bpc: v[2].parse().ok()?, columns: v[3].parse().ok()?, early: v[4].parse().ok()? })
}

fn parse_filters(s: &str) -> Option<Vec<F>> {
    if s == "-" { return Some(vec![]); }
    s.split(',').map(|t| {
        let v: Vec<&str> = t.split(':').collect();
        match v[0] {
            "hex" => Some(F::Hex),
            "a85" => Some(F::A85),
            "rl" => Some(F::Rl),
            "fl" => parse_p(&v[1..]).map(|p| F::Flate(p, Framing::Zlib)),
            "lzw" => parse_p(&v[1..]).map(F::Lzw),
            _ => None,
        }
    }).collect()
}

/// Child side of `eval_isolated`: evaluate the cases, one result line per case, flushed as it goes.
fn child_main(r: &Value) {
    use std::io::Write;
    let path = r["results"].as_str().expect("results path");
    let mut out = std::fs::File::create(path).expect("results file");
    for c in r["cases"].as_array().expect("cases") {
        let fs = parse_filters(c["f"].as_str().unwrap_or("")).expect("filters");
        let d = crate::driver::unhex(c["d"].as_str().unwrap_or("-")).expect("data");
        let res = real_chain(&d, &fs);
        writeln!(out, "{}", res).unwrap();
        out.flush().unwrap();
    }
}

/// Decode `(filters, data)` cases with the real library in a child process: hostile `/DecodeParms` may make
/// a broken tree abort (allocation failure) or hang, which must not take the harness down. A case that
/// kills the child is reported as `abort`, one that exceeds the time limit as `timeout`.
pub fn eval_isolated(cases: &[(Vec<F>, Vec<u8>)]) -> Vec<String> {
    use std::sync::atomic::{AtomicU64, Ordering};
    static COUNTER: AtomicU64 = AtomicU64::new(0);
    let mut results: Vec<String> = vec![];
    let exe = std::env::current_exe().expect("current_exe");
    while results.len() < cases.len() {
        let rest = &cases[results.len()..];
        let id = COUNTER.fetch_add(1, Ordering::SeqCst);
        let base = std::env::temp_dir().join(format!("pdfverif-c05-{}-{}", std::process::id(), id));
        let inp = base.with_extension("in.json");
        let res = base.with_extension("res.txt");
        let out = base.with_extension("out.json");
        let js = json!({"stream": "c05.child", "results": res.to_str().unwrap(),
            "cases": rest.iter().map(|(fs, d)| json!({"f": filters_proto(fs), "d": hex(d)})).collect::<Vec<_>>()});
        std::fs::write(&inp, serde_json::to_string(&js).unwrap()).expect("write child input");
        let mut child = std::process::Command::new(&exe)
            .args(["C05", "--tier", "quick", "--seed", "0", "--driver", "-", "--out", out.to_str().unwrap(), "--replay", inp.to_str().unwrap()])
            .stdout(std::process::Stdio::null()).stderr(std::process::Stdio::null())
            .spawn().expect("spawn child");
        let t0 = std::time::Instant::now();
        let limit = std::time::Duration::from_secs(60 + rest.len() as u64 / 50);
        let mut timed_out = false;
        loop {
            match child.try_wait() {
                Ok(Some(_)) => break,
                Ok(None) => {
                    if t0.elapsed() > limit { let _ = child.kill(); let _ = child.wait(); timed_out = true; break; }
                    std::thread::sleep(std::time::Duration::from_millis(5));
                }
                Err(_) => break,
            }
        }
        let text = std::fs::read_to_string(&res).unwrap_or_default();
        let lines: Vec<&str> = text.lines().collect();
        let got = lines.len().min(rest.len());
        results.extend(lines[..got].iter().map(|s| s.to_string()));
        if got < rest.len() {
            results.push(if timed_out { "timeout".into() } else { "abort".into() });
        }
        for f in [&inp, &res, &out] { let _ = std::fs::remove_file(f); }
    }
    results
}

fn damage(rng: &mut Rng, d: &[u8]) -> Vec<u8> {
    let mut v = d.to_vec();
    match rng.below(7) {
        0 => { let n = rng.usize(v.len() + 1); v.truncate(n); }
        1 => { if !v.is_empty() { let i = rng.usize(v.len()); v[i] = rng.byte(); } }
        2 => { if !v.is_empty() { let i = rng.usize(v.len()); v.remove(i); } }
        3 => { let i = rng.usize(v.len() + 1); v.insert(i, *rng.pick(&[b'>', b'~', b'z', 128, 0, 255, b'g', b'v', b'u', b' '])); }
        4 => { if !v.is_empty() { let i = rng.usize(v.len()); v[i] ^= 1 << rng.below(8); } }
        5 => { let n = rng.usize(20); v = rng.bytes(n); }
        _ => { let n = rng.usize(4); for _ in 0..n { if !v.is_empty() { let i = rng.usize(v.len()); v[i] = rng.byte(); } } let k = rng.usize(v.len() + 1); v.truncate(k); }
    }
    v
}

struct Batch {
    reqs: Vec<String>,
    imps: Vec<String>,
    nontrivial: Vec<bool>,
}

impl Batch {
    fn new() -> Batch {
        Batch { reqs: vec![], imps: vec![], nontrivial: vec![] }
    }
    fn push(&mut self, req: String, imp: String, nontrivial: bool) {
        self.reqs.push(req);
        self.imps.push(imp);
        self.nontrivial.push(nontrivial);
    }
    fn finish(self, driver: &Driver, st: &mut Stream) {
        let resp = driver.ask(&self.reqs);
        for (((rq, m), i), nt) in self.reqs.iter().zip(resp.iter()).zip(self.imps.iter()).zip(self.nontrivial.iter()) {
            st.count(&format!("model={}", class(m)));
            st.case(rq, m, i, *nt);
        }
    }
}

// ---------------------------------------------------------------------------------------------------
// correspondence streams

fn nibble_stream(driver: &Driver) -> Stream {
    let mut st = Stream::new("c05.nibble.exhaustive", true);
    st.exhaustive = true;
    let mut b = Batch::new();
    for c in 0..=255u8 {
        let imp = match enc::decode_nibble(c) { Some(v) => v.to_string(), None => "none".into() };
        b.push(format!("c05.nibble {}", c), imp, true);
    }
    b.finish(driver, &mut st);
    st
}

type DecFn = fn(&[u8]) -> pdf::error::Result<Vec<u8>>;

fn codec(name: &str) -> (DecFn, &'static str, &'static [u8]) {
    match name {
        "hex" => (enc::decode_hex as DecFn, "c05.hex", b">"),
        "a85" => (enc::decode_85 as DecFn, "c05.a85", b"~>"),
        _ => (enc::run_length_decode as DecFn, "c05.rl", &[128]),
    }
}

fn reference(name: &str, text: &[u8]) -> Option<Vec<u8>> {
    match name {
        "hex" => hex_decode_ref(text),
        "a85" => a85_decode_ref(text),
        _ => {
            // conforming run-length data ends with the EOD byte
            if !text.contains(&128) { return None; }
            rl_decode_ref(text)
        }
    }
}

/// every input of 0, 1, 2 bytes, with and without the EOD marker; split into the inputs that are a
/// conforming encoding of something (the property's domain) and the others (error clause: drift only)
fn short_stream(driver: &Driver, name: &str) -> (Stream, Stream) {
    let (dec, cmd, eod) = codec(name);
    let mut st = Stream::new(&format!("c05.{}.short", name), true);
    let mut so = Stream::new(&format!("c05.{}.short.invalid", name), false);
    st.exhaustive = true;
    so.exhaustive = true;
    let mut b = Batch::new();
    let mut bo = Batch::new();
    let mut inputs: Vec<Vec<u8>> = vec![vec![]];
    for a in 0..=255u8 {
        inputs.push(vec![a]);
    }
    for a in 0..=255u8 {
        for c in 0..=255u8 {
            inputs.push(vec![a, c]);
        }
    }
    for inp in inputs {
        let mut with = inp.clone();
        with.extend_from_slice(eod);
        let imp = real(|| dec(&with));
        let target = if reference(name, &with).is_some() { &mut b } else { &mut bo };
        target.push(format!("{} {}", cmd, hex(&with)), imp, inp.len() == 2);
        if inp.len() < 2 {
            let imp = real(|| dec(&inp));
            let target = if reference(name, &inp).is_some() { &mut b } else { &mut bo };
            target.push(format!("{} {}", cmd, hex(&inp)), imp, false);
        }
    }
    b.finish(driver, &mut st);
    bo.finish(driver, &mut so);
    (st, so)
}

fn conforming_text(name: &str, x: &[u8], rng: &mut Rng) -> Vec<u8> {
    let f = match name { "hex" => F::Hex, "a85" => F::A85, _ => F::Rl };
    encode_one(&f, x, rng, &mut vec![])
}

fn conforming_stream(driver: &Driver, seed: u64, name: &str, n: u64) -> Stream {
    let (dec, cmd, _) = codec(name);
    let sname = format!("c05.{}.conforming", name);
    let mut st = Stream::new(&sname, true);
    let mut b = Batch::new();
    for case in 0..n {
        let mut rng = Rng::derive(seed, &sname, case);
        let x = payload(&mut rng, 160);
        let text = conforming_text(name, &x, &mut rng);
        st.count(&format!("len={}", match x.len() { 0 => "0", 1..=4 => "1-4", 5..=32 => "5-32", _ => ">32" }));
        let imp = real(|| dec(&text));
        b.push(format!("{} {}", cmd, hex(&text)), imp, !x.is_empty());
        // statement side: the generated text lies in the encoder relation the theorem quantifies over
        b.push(format!("c05.conf {} {} {}", name, hex(&x), hex(&text)), "1".into(), false);
    }
    b.finish(driver, &mut st);
    st
}

fn broken_stream(driver: &Driver, seed: u64, name: &str, n: u64) -> Stream {
    let (dec, cmd, _) = codec(name);
    let sname = format!("c05.{}.broken", name);
    let mut st = Stream::new(&sname, false);
    let mut b = Batch::new();
    for case in 0..n {
        let mut rng = Rng::derive(seed, &sname, case);
        let x = payload(&mut rng, 60);
        let text = conforming_text(name, &x, &mut rng);
        let mut bad = damage(&mut rng, &text);
        if rng.chance(1, 4) { bad = damage(&mut rng, &bad); }
        let imp = real(|| dec(&bad));
        b.push(format!("{} {}", cmd, hex(&bad)), imp, true);
    }
    b.finish(driver, &mut st);
    st
}

fn rl_headers(driver: &Driver) -> (Stream, Stream) {
    let mut st = Stream::new("c05.rl.headers", true);
    let mut so = Stream::new("c05.rl.headers.truncated", false);
    st.exhaustive = true;
    so.exhaustive = true;
    let mut b = Batch::new();
    let mut bo = Batch::new();
    for h in 0..=255u8 {
        let need = if h < 128 { h as usize + 1 } else if h > 128 { 1 } else { 0 };
        for have in [need, need.saturating_sub(1), need + 1, 0] {
            for tail in [&[][..], &[128u8][..], &[0u8, 9][..]] {
                let mut d = vec![h];
                d.extend((0..have).map(|i| (i * 7 + 1) as u8));
                if have >= need { d.extend_from_slice(tail); }
                let imp = real(|| enc::run_length_decode(&d));
                let target = if reference("rl", &d).is_some() { &mut b } else { &mut bo };
                target.push(format!("c05.rl {}", hex(&d)), imp, true);
            }
        }
    }
    b.finish(driver, &mut st);
    bo.finish(driver, &mut so);
    (st, so)
}

/// `filter_paeth(a, b, c)` of the real code, observed through `unfilter` (the function is private):
/// a two-byte Paeth row with bpp = 1 whose second output byte is `0 + paeth(out[0], prev[1], prev[0])`.
pub fn real_paeth(a: u8, b: u8, c: u8) -> Option<u8> {
    let prev = [c, b];
    // out[0] = inp[0] + paeth(0, prev[0], 0) = inp[0] + prev[0]
    let inp = [a.wrapping_sub(c), 0];
    let mut out = [0u8; 2];
    let r = catch_unwind(AssertUnwindSafe(|| { enc::unfilter(PredictorType::Paeth, 1, &prev, &inp, &mut out); out }));
    match r {
        Ok(o) if o[0] == a => Some(o[1]),
        _ => None,
    }
}

fn paeth_stream(driver: &Driver, seed: u64, thorough: bool) -> Stream {
    let mut st = Stream::new("c05.paeth", true);
    st.exhaustive = thorough;
    let mut bt = Batch::new();
    let mut rows: Vec<(u8, u8)> = vec![];
    if thorough {
        for b in 0..=255u8 { for c in 0..=255u8 { rows.push((b, c)); } }
    } else {
        let mut rng = Rng::derive(seed, "c05.paeth", 0);
        for &b in &[0u8, 1, 127, 128, 255] { for &c in &[0u8, 1, 127, 128, 255] { rows.push((b, c)); } }
        for _ in 0..600 { rows.push((rng.byte(), rng.byte())); }
    }
    for (b, c) in rows {
        let imp: Vec<u8> = (0..=255u8).map(|a| real_paeth(a, b, c).unwrap_or(0)).collect();
        let ok = (0..=255u8).all(|a| real_paeth(a, b, c).is_some());
        bt.push(format!("c05.paethrow {} {}", b, c), if ok { hex(&imp) } else { "panic-or-unobservable".into() }, true);
    }
    bt.finish(driver, &mut st);
    st
}

fn ptype(t: u8) -> PredictorType {
    match t { 0 => PredictorType::NoFilter, 1 => PredictorType::Sub, 2 => PredictorType::Up, 3 => PredictorType::Avg, _ => PredictorType::Paeth }
}

fn real_unfilter(t: u8, bpp: usize, prev: &[u8], inp: &[u8], out0: &[u8]) -> String {
    let mut out = out0.to_vec();
    let r = catch_unwind(AssertUnwindSafe(|| { enc::unfilter(ptype(t), bpp, prev, inp, &mut out); }));
    match r { Ok(()) => format!("ok {}", hex(&out)), Err(_) => "panic".into() }
}

fn unfilter_small(driver: &Driver, thorough: bool) -> Stream {
    let mut st = Stream::new("c05.unfilter.small", true);
    st.exhaustive = true;
    let mut b = Batch::new();
    let alpha: &[u8] = if thorough { &[0, 1, 2, 127, 128, 255] } else { &[0, 1, 128, 255] };
    let maxlen = if thorough { 4 } else { 3 };
    // rows over the alphabet; prev rows over a smaller one to keep the product in check
    fn rows(alpha: &[u8], len: usize) -> Vec<Vec<u8>> {
        let mut v = vec![vec![]];
        for _ in 0..len {
            let mut n = vec![];
            for r in &v { for &a in alpha { let mut x: Vec<u8> = r.clone(); x.push(a); n.push(x); } }
            v = n;
        }
        v
    }
    for t in 0..5u8 {
        for len in 0..=maxlen {
            let inps = rows(alpha, len);
            let prevs = rows(&[0, 129, 255], len);
            for bpp in 1..=8usize {
                if bpp > len + 1 { continue; } // bpp > len: early return, once is enough
                for inp in &inps {
                    for prev in &prevs {
                        let out0 = vec![0u8; len];
                        let imp = real_unfilter(t, bpp, prev, inp, &out0);
                        b.push(format!("c05.unfilter {} {} {} {} {}", t, bpp, hex(prev), hex(inp), hex(&out0)), imp, len > 0);
                    }
                }
            }
        }
    }
    b.finish(driver, &mut st);
    st
}

fn unfilter_random(driver: &Driver, seed: u64, n: u64, misuse: bool) -> Stream {
    let sname = if misuse { "c05.unfilter.misuse" } else { "c05.unfilter.random" };
    let mut st = Stream::new(sname, !misuse);
    let mut b = Batch::new();
    for case in 0..n {
        let mut rng = Rng::derive(seed, sname, case);
        let len = rng.usize(40);
        let t = rng.below(5) as u8;
        let mut bpp = 1 + rng.usize(8);
        let inp = rng.bytes(len);
        let mut prev = if rng.chance(1, 5) { vec![0; len] } else { rng.bytes(len) };
        let mut out0 = if rng.chance(1, 2) { vec![0; len] } else { rng.bytes(len) };
        if misuse {
            match rng.below(4) {
                0 => { prev.push(1); }
                1 => { out0.pop(); }
                2 => { bpp = 0; }
                _ => { bpp = len + 1 + rng.usize(3); }
            }
        }
        st.count(&format!("type={} bpp{}len", t, if bpp > len { ">" } else { "<=" }));
        let imp = real_unfilter(t, bpp, &prev, &inp, &out0);
        b.push(format!("c05.unfilter {} {} {} {} {}", t, bpp, hex(&prev), hex(&inp), hex(&out0)), imp, len > 0);
    }
    b.finish(driver, &mut st);
    st
}

/// the real `unpredict` is private: it is reached through `flate_decode` on a zlib stream of the predicted
/// bytes (`via_lzw`: through `lzw_decode` on the harness's own LZW stream)
fn real_unpredict(p: &P, decoded: &[u8], via_lzw: bool) -> String {
    if via_lzw {
        let z = lzw_encode(decoded, p.early != 0, None);
        real(|| enc::lzw_decode(&z, &p.real()))
    } else {
        let z = zlib_level(decoded, 1);
        real(|| enc::flate_decode(&z, &p.real()))
    }
}

fn unpredict_conforming(driver: &Driver, seed: u64, n: u64) -> Stream {
    let mut st = Stream::new("c05.unpredict.conforming", true);
    let mut b = Batch::new();
    for case in 0..n {
        let mut rng = Rng::derive(seed, "c05.unpredict.conforming", case);
        let x = payload(&mut rng, 200);
        let mut p = pick_params(&mut rng, x.len(), 1);
        if p.predictor == 1 && rng.chance(3, 4) {
            let g = pick_geometry(&mut rng, x.len());
            p = P { predictor: *rng.pick(&[2, 10, 11, 12, 13, 14, 15]), colors: g.colors as i32, bpc: g.bpc as i32, columns: g.columns as i32, early: 1 };
        }
        let pre = predict(&x, &p, &mut rng);
        st.count(&format!("predictor={} bpc={}", p.predictor, p.bpc));
        let via_lzw = rng.chance(1, 3);
        let imp = real_unpredict(&p, &pre, via_lzw);
        b.push(format!("c05.unpredict {} {} {} {} {}", p.predictor, p.colors, p.bpc, p.columns, hex(&pre)), imp, !x.is_empty() && p.predictor != 1);
        // statement side: the harness's predictor is the specification's (Spec/Codecs.lean)
        let g = p.geometry();
        if p.predictor >= 10 && !x.is_empty() {
            let tags: Vec<u8> = pre.chunks(g.stride() + 1).map(|r| r[0]).collect();
            b.push(format!("c05.spec.png {} {} {} {}", g.bpp(), g.stride(), hex(&tags), hex(&x)), hex(&pre), false);
        } else if p.predictor == 2 && !x.is_empty() {
            b.push(format!("c05.spec.tiff {} {} {} {} {}", g.colors, g.bpc, g.columns, g.stride(), hex(&x)), hex(&pre), false);
        }
    }
    b.finish(driver, &mut st);
    st
}

fn hostile_params(rng: &mut Rng) -> P {
    let vals = [0i32, 1, 2, 3, 4, 5, 7, 8, 9, 10, 11, 15, 16, 17, 32, -1, -8, 255, 256, 65535, 65536, 1 << 20, i32::MAX, i32::MIN, i32::MAX - 1];
    let small = [1i32, 1, 2, 3, 4, 8];
    let mut pickv = |rng: &mut Rng, sensible: &[i32]| if rng.chance(1, 2) { *rng.pick(&vals) } else { *rng.pick(sensible) };
    P {
        predictor: pickv(rng, &[1, 2, 10, 11, 12, 13, 14, 15]),
        colors: pickv(rng, &small),
        bpc: pickv(rng, &[1, 2, 4, 8, 16]),
        columns: pickv(rng, &small),
        early: *rng.pick(&[0, 1, 1, 2, -1]),
    }
}

fn unpredict_params(driver: &Driver, seed: u64, n: u64) -> Stream {
    let mut st = Stream::new("c05.unpredict.params", false);
    let mut b = Batch::new();
    let mut reqs = vec![];
    let mut cases = vec![];
    for case in 0..n {
        let mut rng = Rng::derive(seed, "c05.unpredict.params", case);
        let p = hostile_params(&mut rng);
        let len = rng.usize(60);
        let mut data = rng.bytes(len);
        if rng.chance(1, 2) { for x in data.iter_mut() { if rng.chance(1, 3) { *x = rng.below(6) as u8; } } }
        // the real `unpredict` behind `flate_decode` / `lzw_decode`, in a child process (hostile parameters)
        if rng.chance(1, 3) {
            cases.push((vec![F::Lzw(p.clone())], lzw_encode(&data, p.early != 0, None)));
        } else {
            cases.push((vec![F::Flate(p.clone(), Framing::Zlib)], zlib_level(&data, 1)));
        }
        reqs.push(format!("c05.unpredict {} {} {} {} {}", p.predictor, p.colors, p.bpc, p.columns, hex(&data)));
    }
    let imps = eval_isolated(&cases);
    for (rq, imp) in reqs.into_iter().zip(imps.into_iter()) {
        b.push(rq, imp, true);
    }
    b.finish(driver, &mut st);
    st
}

/// run `f` over the items on all cores (the real LZW decoder costs ≈ 1 ms per call: weezl's stream buffer)
pub fn par_map<T: Sync, R: Send>(items: &[T], f: &(dyn Fn(&T) -> R + Sync)) -> Vec<R> {
    let threads = std::thread::available_parallelism().map(|n| n.get()).unwrap_or(4).min(16).max(1);
    let chunk = (items.len() + threads - 1) / threads.max(1);
    if chunk == 0 { return vec![]; }
    std::thread::scope(|sc| {
        let hs: Vec<_> = items.chunks(chunk).map(|c| sc.spawn(move || c.iter().map(|x| f(x)).collect::<Vec<R>>())).collect();
        hs.into_iter().flat_map(|h| h.join().expect("worker")).collect()
    })
}

/// payloads for the LZW streams: long enough to cross the code-width switches (entries 511 / 1023 / 2047)
/// and to fill the table (entry 4095), with little, medium and much repetition
pub fn lzw_payload(rng: &mut Rng, long: bool) -> Vec<u8> {
    if !long {
        return payload(rng, 300);
    }
    let len = 2000 + rng.usize(14000);
    match rng.below(5) {
        0 => rng.bytes(len),                                                              // ≈ 1.1 bytes per code
        1 => (0..len).map(|_| *rng.pick(b"abcdefgh")).collect(),                        // small alphabet
        2 => { let k = 1 + rng.usize(3); (0..len).map(|i| ((i / k) % 251) as u8).collect() } // KwKwK-rich ramps
        3 => { let b = rng.byte(); let mut v = vec![b; len]; for _ in 0..rng.usize(40) { let i = rng.usize(len); v[i] = rng.byte(); } v } // long runs: cScSc at every step
        _ => { let w: Vec<u8> = (0..(2 + rng.usize(40))).map(|_| rng.byte()).collect(); (0..len).map(|i| if rng.chance(1, 50) { rng.byte() } else { w[i % w.len()] }).collect() }
    }
}

pub fn lzw_opts(rng: &mut Rng) -> LzwOpts {
    LzwOpts {
        start_clear: !rng.chance(1, 8),
        clear_every: if rng.chance(1, 4) { Some(1 + rng.usize(3000)) } else { None },
        fill_table: rng.chance(1, 2),
        deferred: if rng.chance(1, 3) { rng.usize(600) } else { 0 },
        cut_percent: if rng.chance(1, 3) { 1 + rng.below(40) } else { 0 },
    }
}

fn plain_lzw(early: bool) -> LZWFlateParams {
    P::plain(if early { 1 } else { 0 }).real()
}

/// weezl (as `lzw_decode` drives it) against the Lean model of the LZW decoder, on conforming streams
/// written by the harness's own encoder with every freedom the format leaves (non-greedy phrases, clear
/// codes anywhere, full table with deferred clear, missing initial clear). Every stream is also
/// certified by the driver to lie in the encoder relation of Spec/Lzw.lean.
fn lzw_decode_stream(driver: &Driver, seed: u64, n_short: u64, n_long: u64) -> Stream {
    let mut st = Stream::new("c05.lzw.decode", true);
    let mut b = Batch::new();
    let mut cases: Vec<(bool, Vec<u8>, Vec<u8>)> = vec![];
    for case in 0..(n_short + n_long) {
        let mut rng = Rng::derive(seed, "c05.lzw.decode", case);
        let long = case >= n_short;
        let early = rng.chance(2, 3);
        if (long && case % 3 == 0) || (!long && case % 2 == 1) {
            // a random valid code sequence (reader-side construction): recent entries, KwKwK, full table
            let n = if long { 3900 + rng.usize(700) } else { 1 + rng.usize(60) };
            let after_full = if rng.chance(2, 3) { 1 + rng.usize(200) } else { 0 };
            let (x, text) = lzw_random_codes(&mut rng, early, n, after_full, 24);
            st.count(&format!("{} early={} random-codes", if long { "long" } else { "short" }, early as u8));
            cases.push((early, x, text));
            continue;
        }
        let x = lzw_payload(&mut rng, long);
        let o = lzw_opts(&mut rng);
        let text = lzw_encode_opts(&x, early, &o, &mut rng);
        st.count(&format!("{} early={} cut={} fill={} deferred={} extra-clear={}", if long { "long" } else { "short" }, early as u8, (o.cut_percent > 0) as u8, o.fill_table as u8, (o.deferred > 0) as u8, o.clear_every.is_some() as u8));
        cases.push((early, x, text));
    }
    let imps = par_map(&cases, &|c: &(bool, Vec<u8>, Vec<u8>)| { let p = plain_lzw(c.0); real(|| enc::lzw_decode(&c.2, &p)) });
    for ((early, x, text), imp) in cases.iter().zip(imps.into_iter()) {
        if imp != format!("ok {}", hex(x)) { st.count("REAL-DECODER-DID-NOT-RETURN-THE-PAYLOAD"); }
        b.push(format!("c05.lzw {} {}", *early as u8, hex(text)), imp, !x.is_empty());
        b.push(format!("c05.lzwconf {} {} {}", *early as u8, hex(x), hex(text)), "1".into(), false);
    }
    b.finish(driver, &mut st);
    st
}

/// the same on damaged streams and random bytes (error class and bytes; outside the property's domain)
fn lzw_broken_stream(driver: &Driver, seed: u64, n: u64) -> Stream {
    let mut st = Stream::new("c05.lzw.decode.broken", false);
    let mut b = Batch::new();
    let mut cases: Vec<(bool, Vec<u8>)> = vec![];
    for case in 0..n {
        let mut rng = Rng::derive(seed, "c05.lzw.decode.broken", case);
        let early = rng.chance(1, 2);
        let long = case % 40 == 0;
        let x = lzw_payload(&mut rng, long);
        let o = lzw_opts(&mut rng);
        let text = lzw_encode_opts(&x, early, &o, &mut rng);
        let mut bad = match rng.below(6) {
            0 => { let k = rng.usize(text.len() + 1); text[..k].to_vec() }                       // truncated: no EOD
            1 => { let mut t = text.clone(); if !t.is_empty() { let i = rng.usize(t.len()); t[i] ^= 1 << rng.below(8); } t }
            2 => { let n = rng.usize(40); rng.bytes(n) }
            3 => { let mut t = text.clone(); let i = rng.usize(t.len() + 1); t.insert(i, rng.byte()); t }   // all later codes shifted
            4 => { let mut t = text.clone(); t.extend(rng.bytes(5)); t }                          // bytes after EOD
            _ => damage(&mut rng, &text),
        };
        if rng.chance(1, 10) { bad = damage(&mut rng, &bad); }
        cases.push((early, bad));
    }
    let imps = par_map(&cases, &|c: &(bool, Vec<u8>)| { let p = plain_lzw(c.0); real(|| enc::lzw_decode(&c.1, &p)) });
    for ((early, bad), imp) in cases.iter().zip(imps.into_iter()) {
        b.push(format!("c05.lzw {} {}", *early as u8, hex(bad)), imp, true);
    }
    b.finish(driver, &mut st);
    st
}

fn pack_codes(codes: &[(u32, u32)]) -> Vec<u8> {
    let mut acc: u64 = 0; let mut nb = 0; let mut out = vec![];
    for &(c, w) in codes { acc = (acc << w) | c as u64; nb += w; while nb >= 8 { out.push((acc >> (nb - 8)) as u8); nb -= 8; acc &= (1 << nb) - 1; } }
    if nb > 0 { out.push((acc << (8 - nb)) as u8); }
    out
}

/// every first 9-bit code; every second code after clear-table / a literal / EOD / an invalid code; every
/// third code after (clear, literal); the thorough tier adds every stream of one or two bytes and every pair
/// of codes
fn lzw_short_stream(driver: &Driver, thorough: bool) -> Stream {
    let mut st = Stream::new("c05.lzw.decode.short", false);
    st.exhaustive = true;
    let mut b = Batch::new();
    let mut inputs: Vec<Vec<u8>> = vec![vec![]];
    for a in 0..=255u8 { inputs.push(vec![a]); }
    for c in 0..512u32 {
        inputs.push(pack_codes(&[(c, 9)]));
        inputs.push(pack_codes(&[(c, 9), (257, 9)]));
        for first in [256u32, 65, 257, 300] { inputs.push(pack_codes(&[(first, 9), (c, 9), (257, 9)])); }
        inputs.push(pack_codes(&[(256, 9), (65, 9), (c, 9), (257, 9)]));
        inputs.push(pack_codes(&[(65, 9), (258, 9), (c, 9), (257, 9)]));
    }
    if thorough {
        for a in 0..=255u8 { for c in 0..=255u8 { inputs.push(vec![a, c]); } }
        for c1 in 0..512u32 { for c2 in 0..512u32 { inputs.push(pack_codes(&[(c1, 9), (c2, 9), (257, 9)])); } }
    }
    let cases: Vec<(bool, Vec<u8>)> = inputs.into_iter().flat_map(|i| [(false, i.clone()), (true, i)]).collect();
    let imps = par_map(&cases, &|c: &(bool, Vec<u8>)| { let p = plain_lzw(c.0); real(|| enc::lzw_decode(&c.1, &p)) });
    for ((early, inp), imp) in cases.iter().zip(imps.into_iter()) {
        b.push(format!("c05.lzw {} {}", *early as u8, hex(inp)), imp, inp.len() >= 2);
    }
    b.finish(driver, &mut st);
    st
}

fn chain_conforming(driver: &Driver, seed: u64, n: u64) -> Stream {
    let mut st = Stream::new("c05.chain.conforming", true);
    let mut b = Batch::new();
    for case in 0..n {
        let mut rng = Rng::derive(seed, "c05.chain.conforming", case);
        let e = gen_chain(&mut rng, 120, 3);
        st.count(&format!("chain-length={}", e.filters.len()));
        for f in &e.filters { st.count(&format!("filter={}", f.kind().split('+').next().unwrap())); }
        let imp = if case % 2 == 0 { real_chain(&e.data, &e.filters) } else { real_stream_generated(&e.data, &e.filters) };
        b.push(format!("c05.chain {} {} {}", filters_proto(&e.filters), hex(&e.data), ext_proto(&e.ext)), imp, e.filters.len() >= 2);
    }
    b.finish(driver, &mut st);
    st
}

fn chain_broken(driver: &Driver, seed: u64, n: u64) -> Stream {
    let mut st = Stream::new("c05.chain.broken", false);
    let mut b = Batch::new();
    for case in 0..n {
        let mut rng = Rng::derive(seed, "c05.chain.broken", case);
        // ASCII filters only: every stage is modelled, nothing third-party decides the outcome
        let x = payload(&mut rng, 40);
        let n = 1 + rng.usize(3);
        let fs: Vec<F> = (0..n).map(|_| rng.pick(&[F::Hex, F::A85, F::Rl]).clone()).collect();
        let mut cur = x.clone();
        for f in fs.iter().rev() { cur = encode_one(f, &cur, &mut rng, &mut vec![]); }
        let bad = damage(&mut rng, &cur);
        let imp = real_chain(&bad, &fs);
        b.push(format!("c05.chain {} {} -", filters_proto(&fs), hex(&bad)), imp, true);
    }
    b.finish(driver, &mut st);
    st
}

fn pval_prim_names(shape: &str, toks: &[Option<&str>]) -> Primitive {
    let name = |t: &str| Primitive::Name(match t { "fl" => "FlateDecode", "lzw" => "LZWDecode", "hex" => "ASCIIHexDecode", "a85" => "ASCII85Decode", _ => "RunLengthDecode" }.into());
    match shape {
        "null" => Primitive::Null,
        "bad" => Primitive::Integer(7),
        "one" => name(toks[0].unwrap()),
        _ => Primitive::Array(toks.iter().map(|t| match t { Some(t) => name(t), None => Primitive::Null }).collect()),
    }
}

fn pval_prim_parms(shape: &str, toks: &[Option<&str>]) -> Primitive {
    let dict = |t: &str| { let mut d = Dictionary::new(); d.insert("Columns", Primitive::Integer(t.parse().unwrap())); Primitive::Dictionary(d) };
    match shape {
        "null" => Primitive::Null,
        "bad" => Primitive::Integer(7),
        "one" => dict(toks[0].unwrap()),
        _ => Primitive::Array(toks.iter().map(|t| match t { Some(t) => dict(t), None => Primitive::Null }).collect()),
    }
}

fn pval_proto(shape: &str, toks: &[Option<&str>]) -> String {
    match shape {
        "null" | "bad" => shape.to_string(),
        "one" => format!("one:{}", toks[0].unwrap()),
        _ => format!("arr:{}", toks.iter().map(|t| t.unwrap_or("null")).collect::<Vec<_>>().join(",")),
    }
}

fn pair_stream(driver: &Driver, seed: u64, n: u64) -> (Stream, Stream) {
    let mut st = Stream::new("c05.pair", true);
    let mut so = Stream::new("c05.pair.malformed", false);
    let mut wellformed = vec![];
    let mut shapes: Vec<String> = vec![];
    let mut b = Batch::new();
    for case in 0..n {
        let mut rng = Rng::derive(seed, "c05.pair", case);
        let nshape = *rng.pick(&["null", "one", "arr", "arr", "arr", "bad"]);
        let pshape = *rng.pick(&["null", "one", "arr", "arr", "arr", "bad"]);
        let nlen = if nshape == "one" { 1 } else { rng.usize(4) };
        let plen = if pshape == "one" { 1 } else { rng.usize(5) };
        let names: Vec<Option<&str>> = (0..nlen).map(|_| if nshape == "arr" && rng.chance(1, 12) { None } else { Some(*rng.pick(&["fl", "lzw", "fl", "lzw", "hex", "a85", "rl"])) }).collect();
        let ptoks: Vec<String> = (0..plen).map(|i| format!("{}", 2 + i * 3 + rng.usize(3))).collect();
        let parms: Vec<Option<&str>> = ptoks.iter().map(|t| if pshape == "arr" && rng.chance(1, 3) { None } else { Some(t.as_str()) }).collect();
        shapes.push(format!("filter={} parms={}", nshape, pshape));
        let mut d = Dictionary::new();
        d.insert("Length", Primitive::Integer(0));
        if nshape != "null" || rng.chance(1, 2) { d.insert("Filter", pval_prim_names(nshape, &names)); }
        if pshape != "null" || rng.chance(1, 2) { d.insert("DecodeParms", pval_prim_parms(pshape, &parms)); }
        let imp = match catch_unwind(AssertUnwindSafe(|| StreamInfo::<()>::from_primitive(Primitive::Dictionary(d), &NoResolve))) {
            Err(_) => "panic".to_string(),
            Ok(Err(_)) => "err".to_string(),
            Ok(Ok(info)) => {
                let v: Vec<String> = info.filters.iter().map(|f| match f {
                    StreamFilter::FlateDecode(p) => format!("fl={}", if p.columns == 1 { "default".to_string() } else { p.columns.to_string() }),
                    StreamFilter::LZWDecode(p) => format!("lzw={}", if p.columns == 1 { "default".to_string() } else { p.columns.to_string() }),
                    StreamFilter::ASCIIHexDecode => "hex=*".into(),
                    StreamFilter::ASCII85Decode => "a85=*".into(),
                    StreamFilter::RunLengthDecode => "rl=*".into(),
                    _ => "other".into(),
                }).collect();
                if v.is_empty() { "ok -".into() } else { format!("ok {}", v.join(",")) }
            }
        };
        wellformed.push(nshape != "bad" && pshape != "bad" && names.iter().all(|n| n.is_some()));
        b.push(format!("c05.pair {} {}", pval_proto(nshape, &names), pval_proto(pshape, &parms)), imp, nlen > 0);
    }
    // the model pairs every filter; the implementation drops the parameters of filters that take none
    let resp = driver.ask(&b.reqs);
    for (((((rq, m), i), nt), wf), shape) in b.reqs.iter().zip(resp.iter()).zip(b.imps.iter()).zip(b.nontrivial.iter()).zip(wellformed.iter()).zip(shapes.iter()) {
        let st = if *wf { &mut st } else { &mut so };
        st.count(shape);
        let canon = if let Some(rest) = m.strip_prefix("ok ") {
            if rest == "-" { m.clone() } else {
                format!("ok {}", rest.split(',').map(|pair| { let (n, p) = pair.split_once('=').unwrap(); if n == "fl" || n == "lzw" { pair.to_string() } else { let _ = p; format!("{}=*", n) } }).collect::<Vec<_>>().join(","))
            }
        } else { m.clone() };
        st.count(&format!("model={}", class(&canon)));
        st.case(rq, &canon, i, *nt);
    }
    (st, so)
}

// ---------------------------------------------------------------------------------------------------
// oracles

fn replay_json(stream: &str, seed: u64, case: u64, e: &Encoded) -> Value {
    json!({"stream": stream, "seed": seed, "case": case,
           "filters": e.filters.iter().map(|f| format!("{:?}", f)).collect::<Vec<_>>(),
           "payload_hex": hex(&e.payload), "encoded_hex": hex(&e.data)})
}

fn signature(e: &Encoded) -> String {
    format!("decode:{}", e.filters.iter().map(|f| f.kind()).collect::<Vec<_>>().join(","))
}

/// one stream object with the chain in its dictionary, in a complete file, read back with `Stream::data`
fn build_file(rng: &mut Rng, e: &Encoded) -> Vec<u8> {
    let mut w = PdfWriter::new(b"", "1.7");
    w.free(0, 0, 65535);
    let mut next_id = 2u64;
    let mut extra_objs: Vec<(u64, Vec<u8>)> = vec![];
    let mut dict = String::new();
    let n = e.filters.len();
    if n == 1 && rng.chance(1, 2) {
        dict.push_str(&format!("/Filter /{} ", e.filters[0].pdf_name()));
    } else if n > 0 || rng.chance(1, 4) {
        dict.push_str(&format!("/Filter [{}] ", e.filters.iter().map(|f| format!("/{}", f.pdf_name())).collect::<Vec<_>>().join(" ")));
    }
    // /DecodeParms: needed when some filter has non-default parameters
    let need = e.filters.iter().any(|f| f.params().map(|p| !p.is_default()).unwrap_or(false));
    if need || (n > 0 && rng.chance(1, 3)) {
        let mut items = vec![];
        for f in &e.filters {
            let item = match f.params() {
                Some(p) if !p.is_default() || rng.chance(1, 2) => {
                    let d = p.dict_text(rng);
                    if rng.chance(1, 5) {
                        let id = next_id; next_id += 1;
                        extra_objs.push((id, d.into_bytes()));
                        format!("{} 0 R", id)
                    } else { d }
                }
                Some(_) => "null".to_string(),
                None => if rng.chance(1, 6) { "<< >>".to_string() } else { "null".to_string() },
            };
            items.push(item);
        }
        // trailing nulls may be left out of the array
        while need && items.len() > 1 && items.last().map(|s| s == "null").unwrap_or(false) && rng.chance(1, 2) { items.pop(); }
        if n == 1 && rng.chance(1, 2) && items[0] != "null" {
            dict.push_str(&format!("/DecodeParms {} ", items[0]));
        } else {
            dict.push_str(&format!("/DecodeParms [{}] ", items.join(" ")));
        }
    }
    let body = if rng.chance(1, 4) {
        let id = next_id; next_id += 1;
        extra_objs.push((id, format!("{}", e.data.len()).into_bytes()));
        stream_body_len(&dict, &format!("{} 0 R", id), &e.data, if rng.chance(1, 2) { b"\n" } else { b"\r\n" })
    } else {
        stream_body(&dict, &e.data)
    };
    if rng.chance(1, 2) {
        for (id, b) in &extra_objs { w.object(*id, 0, b); }
        w.object(1, 0, &body);
    } else {
        w.object(1, 0, &body);
        for (id, b) in &extra_objs { w.object(*id, 0, b); }
    }
    w.finish(XrefFormat::Classic, next_id, "", &[], 0);
    w.out.clone()
}

fn read_file_stream(bytes: Vec<u8>) -> String {
    let r = catch_unwind(AssertUnwindSafe(|| -> Result<Vec<u8>, String> {
        let mut storage = Storage::with_cache(bytes, ParseOptions::strict(), NoCache, NoCache, NoLog).map_err(|e| format!("with_cache: {}", e))?;
        storage.load_storage_and_trailer().map_err(|e| format!("load: {}", e))?;
        let resolver = storage.resolver();
        let p = resolver.resolve(PlainRef { id: 1, gen: 0 }).map_err(|e| format!("resolve: {}", e))?;
        let s = PdfStreamObj::<()>::from_primitive(p, &resolver).map_err(|e| format!("stream: {}", e))?;
        let d = s.data(&resolver).map_err(|e| format!("data: {}", e))?;
        Ok(d.to_vec())
    }));
    match r {
        Ok(Ok(v)) => format!("ok {}", hex(&v)),
        Ok(Err(e)) => format!("err {}", e),
        Err(_) => "panic".into(),
    }
}

fn decode_oracle(seed: u64, from: u64, to: u64, max_payload: usize, only: Option<&str>) -> Oracle {
    let mut or = Oracle::new("c05.decode");
    for case in from..to {
        let mut rng = Rng::derive(seed, "c05.decode", case);
        let big = case % 16 == 15;
        let e = gen_chain(&mut rng, if big { max_payload } else { 400 }, 3);
        let expect = format!("ok {}", hex(&e.payload));
        or.count(&format!("chain-length={}", e.filters.len()));
        for f in &e.filters { or.count(&format!("filter={}", f.kind())); }
        if e.filters.iter().any(|f| matches!(f, F::Flate(_, Framing::Raw))) && e.stages.iter().any(|s| looks_like_zlib_header(s)) {
            or.count("raw-deflate-with-zlib-looking-header");
        }
        let key = format!("{}|{}", filters_proto(&e.filters), hex(&e.data[..e.data.len().min(64)]));
        or.case(&key, !e.filters.is_empty() && !e.payload.is_empty(), || json!({"filters": filters_proto(&e.filters), "payload_len": e.payload.len(), "encoded_len": e.data.len()}));
        let mut check = |how: &str, got: String| {
            if only.map(|o| o != how).unwrap_or(false) { return; }
            if got != expect {
                let mut rp = replay_json("c05.decode", seed, case, &e);
                rp["how"] = json!(how);
                let what = format!("{} of a conforming encoding of {} bytes through [{}] returned {} instead of the original bytes",
                    how, e.payload.len(), e.filters.iter().map(|f| f.kind()).collect::<Vec<_>>().join(", "), trunc(&got));
                or.fail(&signature(&e), &what, rp);
            }
        };
        check("enc::decode", real_chain(&e.data, &e.filters));
        check("Stream::data(generated)", real_stream_generated(&e.data, &e.filters));
        if !big {
            let file = build_file(&mut rng, &e);
            let got = read_file_stream(file);
            check("Stream::data(file)", got);
        }
    }
    or
}

fn nopanic_oracle(seed: u64, n: u64) -> Oracle {
    let mut or = Oracle::new("c05.nopanic");
    let mut all: Vec<(u64, Vec<F>, Vec<u8>, bool)> = vec![];
    for case in 0..n {
        let mut rng = Rng::derive(seed, "c05.nopanic", case);
        let e = gen_chain(&mut rng, 200, 3);
        let (data, filters, hostile): (Vec<u8>, Vec<F>, bool) = match rng.below(4) {
            0 => {
                // hostile parameters on well-formed data
                let fs = e.filters.iter().map(|f| match f {
                    F::Flate(_, fr) => F::Flate(hostile_params(&mut rng), *fr),
                    F::Lzw(_) => F::Lzw(hostile_params(&mut rng)),
                    f => f.clone(),
                }).collect();
                (e.data.clone(), fs, true)
            }
            1 => {
                // random bytes into a random single filter
                let n = rng.usize(80);
                let fs = vec![match rng.below(5) { 0 => F::Hex, 1 => F::A85, 2 => F::Rl, 3 => F::Flate(hostile_params(&mut rng), Framing::Zlib), _ => F::Lzw(hostile_params(&mut rng)) }];
                (rng.bytes(n), fs, true)
            }
            _ => {
                let mut d = damage(&mut rng, &e.data);
                if rng.chance(1, 3) { d = damage(&mut rng, &d); }
                (d, e.filters.clone(), false)
            }
        };
        all.push((case, filters, data, hostile));
    }
    // hostile parameters run in a child process (a broken tree may abort in the allocator or hang)
    let iso: Vec<(Vec<F>, Vec<u8>)> = all.iter().filter(|c| c.3).map(|c| (c.1.clone(), c.2.clone())).collect();
    let mut iso_res = eval_isolated(&iso).into_iter();
    for (case, filters, data, hostile) in all {
        let got = if hostile { iso_res.next().unwrap_or_else(|| "abort".into()) } else { real_chain(&data, &filters) };
        or.count(&format!("outcome={}", class(&got)));
        or.case(&format!("{}|{}", filters_proto(&filters), hex(&data[..data.len().min(48)])), true, || json!({"filters": filters_proto(&filters), "data_len": data.len()}));
        if got == "panic" || got == "abort" || got == "timeout" {
            let kinds: Vec<String> = filters.iter().map(|f| f.kind()).collect();
            or.fail(&format!("{}:{}", got, kinds.join(",")), &format!("{} while decoding {} damaged bytes through [{}] (parameters {})", got, data.len(), kinds.join(", "), filters_proto(&filters)),
                json!({"stream": "c05.nopanic", "seed": seed, "case": case, "filters": filters_proto(&filters), "data_hex": hex(&data)}));
        }
    }
    or
}

/// regression witnesses of the repaired defects: (name, filters, data, expected; None = error or value, no panic)
fn witnesses() -> Vec<(&'static str, Vec<F>, Vec<u8>, Option<Vec<u8>>)> {
    let z = |d: &[u8]| zlib_level(d, 6);
    let p = |predictor, colors, bpc, columns| P { predictor, colors, bpc, columns, early: 1 };
    vec![
        ("D12 odd final hex digit is padded with 0", vec![F::Hex], b"414>".to_vec(), Some(vec![0x41, 0x40])),
        ("D12 g and h are not hex digits", vec![F::Hex], b"gh>".to_vec(), None),
        ("ASCII85 ignores form feed and NUL", vec![F::A85], b"BOu!\x0crD]j7\x00BEbo80~>".to_vec(), Some(b"hello world!".to_vec())),
        ("D13 run-length literal run cut short", vec![F::Rl], vec![5, 1, 2], None),
        ("D13 run-length repeat run cut short", vec![F::Rl], vec![200], None),
        ("D14 PNG Up with BitsPerComponent 1, 16 columns (2-byte rows)", vec![F::Flate(p(12, 1, 1, 16), Framing::Zlib)], z(&[2, 0xff, 0x0f, 2, 0x01, 0x01]), Some(vec![0xff, 0x0f, 0x00, 0x10])),
        ("D14 PNG Sub with 16-bit RGB (6-byte pixels)", vec![F::Flate(p(11, 3, 16, 2), Framing::Zlib)], z(&[1, 1, 2, 3, 4, 5, 6, 1, 1, 1, 1, 1, 1]), Some(vec![1, 2, 3, 4, 5, 6, 2, 3, 4, 5, 6, 7])),
        ("Predictor 10 rows carry a tag byte", vec![F::Flate(p(10, 1, 8, 2), Framing::Zlib)], z(&[0, 1, 2, 0, 3, 4]), Some(vec![1, 2, 3, 4])),
        ("D14 TIFF predictor 2, 8 bit", vec![F::Flate(p(2, 1, 8, 4), Framing::Zlib)], z(&[1, 1, 1, 1, 250, 10, 10, 10]), Some(vec![1, 2, 3, 4, 250, 4, 14, 24])),
        ("D14 TIFF predictor 2, 4 bit, 2 colours", vec![F::Flate(p(2, 2, 4, 2), Framing::Zlib)], z(&[0x12, 0x3f]), Some(vec![0x12, 0x41])),
        ("D14 LZW applies the predictor", vec![F::Lzw(p(12, 1, 8, 2))], lzw_encode(&[2, 1, 2, 2, 1, 1], true, None), Some(vec![1, 2, 2, 3])),
        ("LZW code size: the example of ISO 32000-1 7.4.4.2", vec![F::Lzw(P::plain(1))], vec![0x80, 0x0B, 0x60, 0x50, 0x22, 0x0C, 0x0C, 0x85, 0x01], Some(vec![45, 45, 45, 45, 45, 65, 45, 45, 45, 66])),
        ("hostile predictor parameters: no complete row fits, nothing is allocated", vec![F::Flate(p(12, i32::MAX, 8, i32::MAX), Framing::Zlib)], z(&[2, 1, 2]), Some(vec![])),
        ("zero /Colors is an error", vec![F::Flate(p(12, 0, 8, 1), Framing::Zlib)], z(&[2, 1, 2]), None),
        ("BitsPerComponent 3 is an error", vec![F::Flate(p(2, 1, 3, 1), Framing::Zlib)], z(&[2, 1, 2]), None),
        ("negative /Columns is an error", vec![F::Flate(p(12, 1, 8, -1), Framing::Zlib)], z(&[2, 1, 2]), None),
    ]
}

fn witness_oracle() -> Oracle {
    let mut or = Oracle::new("c05.witness");
    let ws = witnesses();
    let results = eval_isolated(&ws.iter().map(|w| (w.1.clone(), w.2.clone())).collect::<Vec<_>>());
    for ((name, _fs, data, expect), got) in ws.into_iter().zip(results.into_iter()) {
        // conforming input: the original bytes; damaged input or invalid parameters: the property asks for
        // "an error or a value" (the repaired code returns an error for all of them, a value would do)
        let ok = match &expect {
            Some(v) => got == format!("ok {}", hex(v)),
            None => got == "err" || got.starts_with("ok"),
        };
        or.case(name, true, || json!({"witness": name, "got": trunc(&got)}));
        or.count(if ok { "holds" } else { "fails" });
        if !ok {
            or.fail(&format!("witness:{}", name.split(' ').next().unwrap()), &format!("regression witness '{}': expected {} got {}", name, expect.as_ref().map(|v| format!("ok {}", hex(v))).unwrap_or_else(|| "an error or a value".into()), trunc(&got)),
                json!({"stream": "c05.witness", "witness": name, "data_hex": hex(&data)}));
        }
    }
    or
}

fn exhaustive_oracle(thorough: bool) -> Oracle {
    let mut or = Oracle::new("c05.exhaustive");
    // all 65536 pairs of bytes as the two digits of an ASCIIHex pair
    let mut bad = 0u64;
    for a in 0..=255u8 {
        for b in 0..=255u8 {
            let text = [a, b, b'>'];
            // a pair that no conforming encoder writes may give an error or a value, not a panic
            let want = hex_decode_ref(&text).map(|v| format!("ok {}", hex(&v)));
            let got = real(|| enc::decode_hex(&text));
            or.cases += 1;
            let want = want.unwrap_or_else(|| if got == "panic" { "err".into() } else { got.clone() });
            if got != want {
                bad += 1;
                if bad <= 3 {
                    or.fail("hex-pair", &format!("decode_hex({:?}) = {} but the specification says {}", String::from_utf8_lossy(&text), got, want), json!({"stream": "c05.exhaustive", "part": "hex-pair", "data_hex": hex(&text)}));
                }
            }
        }
    }
    or.count("hex-pairs=65536");
    // every run-length header with exactly the data it needs, followed by EOD
    for h in 0..=255u8 {
        let mut d = vec![h];
        let want: Vec<u8> = if h < 128 { let v: Vec<u8> = (0..=h).map(|i| i ^ 0x5a).collect(); d.extend_from_slice(&v); v } else if h > 128 { d.push(0x77); vec![0x77; 257 - h as usize] } else { vec![] };
        d.push(128);
        let got = real(|| enc::run_length_decode(&d));
        or.cases += 1;
        if got != format!("ok {}", hex(&want)) {
            or.fail("rl-header", &format!("run-length header {} decodes to {}", h, trunc(&got)), json!({"stream": "c05.exhaustive", "part": "rl-header", "data_hex": hex(&d)}));
        }
    }
    or.count("rl-headers=256");
    // all 2^24 (left, up, upper-left) triples
    let mut badp = 0u64;
    for a in 0..=255u8 {
        for b in 0..=255u8 {
            for c in 0..=255u8 {
                if real_paeth(a, b, c) != Some(paeth_spec(a, b, c)) {
                    badp += 1;
                    if badp <= 3 {
                        or.fail("paeth", &format!("Paeth predictor of (left {}, up {}, upper-left {}) is {:?}, the PNG specification says {}", a, b, c, real_paeth(a, b, c), paeth_spec(a, b, c)), json!({"stream": "c05.exhaustive", "part": "paeth", "a": a, "b": b, "c": c}));
                    }
                }
            }
        }
    }
    or.cases += 1 << 24;
    or.count("paeth-triples=16777216");
    // ASCII85 groups: quick = 2^20 strided groups + boundaries; thorough = all 85^5 digit strings
    let check_group = |digits: [u8; 5], or: &mut Oracle, nbad: &mut u64| {
        let mut text = [0u8; 7];
        text[..5].copy_from_slice(&digits);
        text[5] = b'~';
        text[6] = b'>';
        let q = digits.iter().fold(0u64, |acc, d| acc * 85 + (*d - b'!') as u64);
        let got = match catch_unwind(AssertUnwindSafe(|| enc::decode_85(&text))) { Ok(g) => g, Err(_) => { *nbad += 1; or.fail("a85-group", &format!("ASCII85 group {:?} panics", String::from_utf8_lossy(&digits)), json!({"stream": "c05.exhaustive", "part": "a85-group", "data_hex": hex(&text)})); return; } };
        let ok = match (&got, q <= u32::MAX as u64) {
            (Ok(v), true) => v[..] == (q as u32).to_be_bytes(),
            // values ≥ 2^32 are written by no conforming encoder: error or value (it cannot panic: no unwind is caught here)
            (_, false) => true,
            _ => false,
        };
        if !ok {
            *nbad += 1;
            if *nbad <= 3 {
                or.fail("a85-group", &format!("ASCII85 group {:?} (value {}) decodes to {:?}", String::from_utf8_lossy(&digits), q, got.as_ref().map(|v| hex(v)).map_err(|_| "err")), json!({"stream": "c05.exhaustive", "part": "a85-group", "data_hex": hex(&text)}));
            }
        }
    };
    let mut nbad = 0u64;
    if thorough {
        // all 85^5 five-digit strings in parallel slices of the first digit
        let threads: Vec<_> = (0..85u8).map(|d0| std::thread::spawn(move || {
            let mut local = Oracle::new("c05.exhaustive");
            let mut nb = 0u64;
            let mut text = [b'!' + d0, 0, 0, 0, 0, b'~', b'>'];
            for d1 in 0..85u8 { for d2 in 0..85u8 { for d3 in 0..85u8 { for d4 in 0..85u8 {
                text[1] = b'!' + d1; text[2] = b'!' + d2; text[3] = b'!' + d3; text[4] = b'!' + d4;
                let q = ((((d0 as u64 * 85 + d1 as u64) * 85 + d2 as u64) * 85 + d3 as u64) * 85) + d4 as u64;
                let got = match catch_unwind(AssertUnwindSafe(|| enc::decode_85(&text))) { Ok(g) => g, Err(_) => { nb += 1; if nb <= 1 { local.fail("a85-group", &format!("ASCII85 group {:?} panics", String::from_utf8_lossy(&text[..5])), json!({"stream": "c05.exhaustive", "part": "a85-group", "data_hex": hex(&text)})); } continue; } };
                let ok = match (&got, q <= u32::MAX as u64) {
                    (Ok(v), true) => v[..] == (q as u32).to_be_bytes(),
                    (_, false) => true,
                    _ => false,
                };
                if !ok { nb += 1; if nb <= 1 { local.fail("a85-group", &format!("ASCII85 group {:?} (value {}) decodes to {:?}", String::from_utf8_lossy(&text[..5]), q, got.as_ref().map(|v| hex(v)).map_err(|_| "err")), json!({"stream": "c05.exhaustive", "part": "a85-group", "data_hex": hex(&text)})); } }
            }}}}
            (local, nb)
        })).collect();
        for t in threads {
            let (local, nb) = t.join().expect("a85 worker");
            nbad += nb;
            for f in local.failures { if or.failures.len() < 10 { or.failures.push(f); } }
        }
        or.cases += 85u64.pow(5);
        or.count("a85-groups=4437053125 (all five-digit strings; 2^32 valid)");
    } else {
        let mut n = 0u64;
        let mut v: u64 = 0;
        while v < 85u64.pow(5) {
            let mut d = [0u8; 5];
            let mut x = v;
            for i in (0..5).rev() { d[i] = (x % 85) as u8 + b'!'; x /= 85; }
            check_group(d, &mut or, &mut nbad);
            n += 1;
            v += 4231; // prime stride: ~1.05M groups, every digit position varies
        }
        for q in [0u64, 1, 84, 85, 255, 256, 65535, 65536, 16777215, 16777216, u32::MAX as u64 - 1, u32::MAX as u64, u32::MAX as u64 + 1, 85u64.pow(5) - 1] {
            let mut d = [0u8; 5];
            let mut x = q;
            for i in (0..5).rev() { d[i] = (x % 85) as u8 + b'!'; x /= 85; }
            check_group(d, &mut or, &mut nbad);
            n += 1;
        }
        or.cases += n;
        or.count(&format!("a85-groups={} (strided sample; all of them in the thorough tier)", n));
    }
    or.distinct_nontrivial = or.cases;
    or
}

// ---------------------------------------------------------------------------------------------------

pub fn run(driver: &Driver, seed: u64, thorough: bool, replay: Option<&Value>) -> Report {
    let mut rep = Report::new("C05");
    if let Err(e) = self_test() {
        panic!("reference codec self-test failed (broken oracle, not a finding): {}", e);
    }
    if let Some(r) = replay {
        if r["stream"].as_str() == Some("c05.child") {
            child_main(r);
            return rep;
        }
        let seed = r["seed"].as_u64().unwrap_or(seed);
        let case = r["case"].as_u64().unwrap_or(0);
        match r["stream"].as_str().unwrap_or("") {
            "c05.decode" => rep.oracles.push(decode_oracle(seed, case, case + 1, 65536, r["how"].as_str())),
            "c05.nopanic" => {
                // re-run exactly that case
                let mut or = nopanic_oracle(seed, case + 1);
                or.failures.retain(|f| f["replay"]["case"].as_u64() == Some(case));
                rep.oracles.push(or);
            }
            "c05.witness" => rep.oracles.push(witness_oracle()),
            "c05.exhaustive" => rep.oracles.push(exhaustive_oracle(thorough)),
            _ => {
                // a correspondence replay: run everything of the quick tier
                return run(driver, seed, false, None);
            }
        }
        return rep;
    }
    let k = if thorough { 20 } else { 1 };
    rep.oracles.push(witness_oracle());
    rep.streams.push(nibble_stream(driver));
    for name in ["hex", "a85", "rl"] {
        let (a, b) = short_stream(driver, name);
        rep.streams.push(a);
        rep.streams.push(b);
        rep.streams.push(conforming_stream(driver, seed, name, 1500 * k));
        rep.streams.push(broken_stream(driver, seed, name, 1500 * k));
    }
    let (a, b) = rl_headers(driver);
    rep.streams.push(a);
    rep.streams.push(b);
    rep.streams.push(paeth_stream(driver, seed, thorough));
    rep.streams.push(unfilter_small(driver, thorough));
    rep.streams.push(unfilter_random(driver, seed, 2000 * k, false));
    rep.streams.push(unfilter_random(driver, seed, 500 * k, true));
    rep.streams.push(unpredict_conforming(driver, seed, 2000 * k));
    rep.streams.push(unpredict_params(driver, seed, 1500 * k));
    rep.streams.push(lzw_decode_stream(driver, seed, 600 * k, 30 * k));
    rep.streams.push(lzw_broken_stream(driver, seed, 1000 * k));
    rep.streams.push(lzw_short_stream(driver, thorough));
    rep.streams.push(chain_conforming(driver, seed, 1500 * k));
    rep.streams.push(chain_broken(driver, seed, 1000 * k));
    let (a, b) = pair_stream(driver, seed, 1500 * k);
    rep.streams.push(a);
    rep.streams.push(b);
    rep.oracles.push(decode_oracle(seed, 0, if thorough { 200_000 } else { 6000 }, 65536, None));
    rep.oracles.push(nopanic_oracle(seed, if thorough { 400_000 } else { 12_000 }));
    rep.oracles.push(exhaustive_oracle(thorough));
    rep
}
