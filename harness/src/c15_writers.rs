//! `c15.cs` — `ColorSpace::to_primitive` against its Lean model (`Model/ColorSpaceWrite.lean`, reader model of the C01
//! package): values built in Rust — the three families the writer implements (nested up to and beyond the reader's
//! budget, tables around the 100-byte switch from string to stream) and the families it answers with
//! `unimplemented!()` — written by the real writer, read back by the real reader.
//! `c15.pn` — `PagesNode::to_primitive` against `writePagesNode` of the interpreter.

use super::support::*;
use crate::driver::Driver;
use crate::report::Stream as CStream;
use crate::rng::Rng;
use pdf::object::*;
use pdf::primitive::{Dictionary, Primitive};
use std::collections::HashMap;
use std::sync::Arc;

fn quiet<T>(f: impl FnOnce() -> T) -> Option<T> {
    let prev = std::panic::take_hook();
    std::panic::set_hook(Box::new(|_| {}));
    let r = std::panic::catch_unwind(std::panic::AssertUnwindSafe(f)).ok();
    std::panic::set_hook(prev);
    r
}

/// (value, its text for the model)
fn rand_cs(rng: &mut Rng, depth: u32) -> (ColorSpace, String) {
    let roll = rng.below(if depth == 0 { 12 } else { 24 });
    match roll {
        0..=3 => (ColorSpace::DeviceRGB, "R".into()),
        4..=7 => (ColorSpace::DeviceCMYK, "C".into()),
        8 => (ColorSpace::DeviceGray, "G".into()),
        9 => (ColorSpace::Pattern, "P".into()),
        10 => {
            let n = *rng.pick(NAMES);
            (ColorSpace::Named(n.into()), format!("N{}", hex(n.as_bytes())))
        }
        11 => {
            let mut d = Dictionary::new();
            d.insert("WhitePoint", Primitive::Array(vec![Primitive::Integer(1); 3]));
            let t = format!("K({})", show_plain(&Primitive::Dictionary(d.clone())));
            (ColorSpace::CalGray(d), t)
        }
        _ => {
            let (base, bt) = rand_cs(rng, depth - 1);
            let hival = match rng.below(4) {
                0 => 0,
                1 => 255,
                _ => rng.below(256) as u8,
            };
            let len = match rng.below(6) {
                0 => 0,
                1 => 99,
                2 => 100,
                3 => 101,
                4 => 100 + rng.usize(300),
                _ => rng.usize(99),
            };
            let bytes: Vec<u8> = (0..len).map(|_| rng.below(256) as u8).collect();
            let t = format!("I({};{};{})", bt, hival, if bytes.is_empty() { "-".to_string() } else { hex(&bytes) });
            (ColorSpace::Indexed(Box::new(base), hival, Arc::from(bytes)), t)
        }
    }
}

fn show_written(p: &Primitive, r: &impl Resolve) -> String {
    match p {
        Primitive::Array(a) => format!("[{}]", a.iter().map(|x| show_written(x, r)).collect::<Vec<_>>().join(",")),
        Primitive::Stream(s) => match s.raw_data(r) {
            Ok(d) => format!("X{}~{}", show_plain(&Primitive::Dictionary(s.info.clone())), hex(&d)),
            Err(_) => "X?".into(),
        },
        q => show_plain(q),
    }
}

pub fn cs_stream(driver: &Driver, seed: u64, n: u64) -> CStream {
    let mut st = CStream::new("c15.cs", true);
    let mut reqs = vec![];
    let mut imps = vec![];
    for case in 0..n {
        let mut rng = Rng::derive(seed, "c15.cs", case);
        let depth = rng.below(8) as u32;
        let (cs, txt) = rand_cs(&mut rng, depth);
        let mem = MemResolver::new(HashMap::new(), HashMap::new(), false);
        let before = format!("{:?}", cs);
        let imp = quiet(|| {
            let mut up = RecUpdater::new(CREATED_BASE);
            cs.to_primitive(&mut up).map(|p| (p, up.objs.len()))
        });
        let imp = match imp {
            None => "unwritable".to_string(),
            // the crate's own `unimplemented!()` is an `Err("Unimplemented @ file:line")`, not a panic
            Some(Err(e)) if format!("{}", e).starts_with("Unimplemented") => "unwritable".to_string(),
            Some(Err(_)) => "werr".to_string(),
            Some(Ok((_, created))) if created > 0 => "created-objects".to_string(),
            Some(Ok((p1, _))) => {
                let back = match quiet(|| ColorSpace::from_primitive(p1.clone(), &mem)) {
                    Some(Ok(x2)) => {
                        if format!("{:?}", x2) == before {
                            "same"
                        } else {
                            "differs"
                        }
                    }
                    Some(Err(_)) => "rerr",
                    None => "panic",
                };
                format!("ok {} {}", show_written(&p1, &mem), back)
            }
        };
        let nest = txt.matches("I(").count();
        st.count(&format!("indexed-levels={}", nest.min(7)));
        st.count(&format!("outcome={}", imp.split(' ').next().unwrap_or("")));
        if imp.starts_with("ok") {
            st.count(&format!("read-back={}", imp.rsplit(' ').next().unwrap_or("")));
            st.count(if imp.contains("X{") { "table=stream" } else { "table=string-or-none" });
        }
        reqs.push(format!("c15.cs {}", txt));
        imps.push(imp);
    }
    let resp = driver.ask(&reqs);
    for ((rq, m), imp) in reqs.iter().zip(resp.iter()).zip(imps.iter()) {
        st.case(rq, m, imp, imp.starts_with("ok"));
    }
    st
}

/// `PagesNode`: the hand-written reader (takes `/Type` out, then `Page::from_dict` / `PageTree::from_dict`) and writer
/// (the variant's own derived writer) against `readPagesNode` / `writePagesNode` of the interpreter: read, write,
/// read, write on generated page and page-tree dictionaries
pub fn pn_stream(driver: &Driver, schemas: &[SchemaJ], seed: u64, n: u64) -> CStream {
    let mut st = CStream::new("c15.pn", true);
    let peel = super::tree_peels();
    let mut reqs = vec![];
    let mut imps = vec![];
    for case in 0..n {
        let mut rng = Rng::derive(seed, "c15.pn", case);
        let which = if rng.chance(1, 2) { "Page" } else { "PageTree" };
        let Some(sc) = schemas.iter().find(|s| s.name == which) else { continue };
        let mut g = Gen::new(schemas, true);
        g.always_tags = true;
        let Some(mut p) = g.model_value(&mut rng, sc, None, if case % 3 == 0 { 0 } else { 2 }) else { continue };
        // now and then: no /Type (refused by the hand-written reader though the derived ones would accept), a wrong one
        let mut form = "typed";
        if let Primitive::Dictionary(d) = &mut p {
            match rng.below(12) {
                0 => {
                    d.remove("Type");
                    form = "type-removed";
                }
                1 => {
                    d.insert("Type", name_prim(if which == "Page" { "Pages" } else { "Page" }));
                    form = "type-of-the-other-variant";
                }
                2 => {
                    d.insert("Type", name_prim("Catalog"));
                    form = "type-foreign";
                }
                _ => {}
            }
        }
        let tolerant = rng.chance(1, 4);
        let (p, objs) = if rng.chance(1, 5) {
            let mut o = g.objs.clone();
            o.insert(90, p);
            (Primitive::Reference(PlainRef { id: 90, gen: 0 }), o)
        } else {
            (p, g.objs.clone())
        };
        let missing = HashMap::new();
        let res = real_rt::<PagesNode>(&p, &objs, &missing, tolerant);
        st.count(&format!("variant={} {}", which, form));
        st.count(&format!("outcome={}", res.answer.split(' ').next().unwrap_or("")));
        reqs.push(super::request(peel, tolerant, "l.PagesNode", &objs, &missing, &p));
        imps.push(res.answer);
    }
    let resp = driver.ask(&reqs);
    for ((rq, m), imp) in reqs.iter().zip(resp.iter()).zip(imps.iter()) {
        st.case(rq, m, imp, imp.starts_with("ok"));
    }
    st
}

/// `c15.font` — `Font::to_primitive` against `FontLoad.writeFont` (Model/FontWrite.lean; reader model of the C01
/// package): generated font dictionaries of every subtype the writer supports (Type1 / TrueType with and without
/// widths, both CID subtypes, Type0 with its descendant behind a reference), an /Encoding name or dictionary with
/// /Differences now and then; real `from_primitive`, `to_primitive`, `from_primitive`: the written dictionary, the
/// VARIANT of the value read back and its name
pub fn font_stream(driver: &Driver, seed: u64, rounds: u64) -> CStream {
    use super::{sweep_inputs, SweepInput};
    let mut st = CStream::new("c15.font", true);
    let peel = super::tree_peels();
    let mut reqs = vec![];
    let mut imps = vec![];
    for tag in ["Type1", "TrueType", "CIDFontType0", "CIDFontType2", "Type0"] {
        for round in 0..rounds {
            let mut rng = Rng::derive(seed, &format!("c15.font/{}", tag), round);
            let Some(cases) = sweep_inputs("FontData", tag, &mut rng) else { continue };
            for c in cases {
                // a descendant placed directly is written by `Font::to_primitive` itself, one level down: not in the
                // model of this stream (the tower's writers are the derived ones)
                if c.desc.contains("a direct") {
                    continue;
                }
                let SweepInput::Prim(mut p, mut objs) = c.input else { continue };
                for q in objs.values_mut() {
                    if let Primitive::Dictionary(d) = q {
                        d.remove("CIDToGIDMap");
                    }
                }
                let mut enc = "encoding=as-generated";
                if let Primitive::Dictionary(d) = &mut p {
                    // /CIDToGIDMap is read by a hand-written reader of stream objects that is not part of the tower
                    // (`CidToGidMap` has its own model and stream, c15.hw)
                    d.remove("CIDToGIDMap");
                    match rng.below(5) {
                        0 => {
                            d.insert("Encoding", name_prim(*rng.pick(&["WinAnsiEncoding", "MacRomanEncoding", "Identity-H", "StandardEncoding", "Custom"])));
                            enc = "encoding=name";
                        }
                        1 => {
                            let mut e = Dictionary::new();
                            if rng.chance(2, 3) {
                                e.insert("BaseEncoding", name_prim("WinAnsiEncoding"));
                            }
                            let mut xs = vec![];
                            for _ in 0..1 + rng.below(3) {
                                xs.push(Primitive::Integer(rng.below(250) as i32));
                                for _ in 0..1 + rng.below(3) {
                                    xs.push(name_prim(*rng.pick(NAMES)));
                                }
                            }
                            e.insert("Differences", Primitive::Array(xs));
                            d.insert("Encoding", Primitive::Dictionary(e));
                            enc = "encoding=differences";
                        }
                        _ => {}
                    }
                }
                let tolerant = rng.chance(1, 4);
                let mem = MemResolver::new(objs.clone(), HashMap::new(), tolerant);
                let imp = quiet(|| {
                    let x = match pdf::font::Font::from_primitive(p.clone(), &mem) {
                        Ok(x) => x,
                        Err(_) => return "rerr".to_string(),
                    };
                    let mut up = RecUpdater::new(CREATED_BASE);
                    let p1 = match x.to_primitive(&mut up) {
                        Ok(q) => q,
                        Err(_) => return "werr".to_string(),
                    };
                    if !up.objs.is_empty() {
                        return "created-objects".to_string();
                    }
                    match pdf::font::Font::from_primitive(p1.clone(), &mem) {
                        Ok(x2) => {
                            let v: String = format!("{:?}", x2.data).chars().take_while(|c| c.is_alphanumeric()).collect();
                            format!("ok {} {} {}", show_plain(&p1), v, x2.name.as_ref().map(|n| hex(n.as_bytes())).unwrap_or_else(|| "-".into()))
                        }
                        Err(_) => format!("rerr2 {}", show_plain(&p1)),
                    }
                })
                .unwrap_or_else(|| "panic".into());
                st.count(&format!("subtype={}", tag));
                st.count(enc);
                st.count(&format!("outcome={}", imp.split(' ').next().unwrap_or("")));
                reqs.push(format!("c15.font {} {} {} {}", peel as u8, tolerant as u8, objs_text(&objs), show_plain(&p)));
                imps.push(imp);
            }
        }
    }
    let resp = driver.ask(&reqs);
    for ((rq, m), imp) in reqs.iter().zip(resp.iter()).zip(imps.iter()) {
        st.case(rq, m, imp, imp.starts_with("ok"));
    }
    st
}
