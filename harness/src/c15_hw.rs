//! `c15.hw` — the hand-written reader/writer pairs that have a Lean model of their own
//! (lean/PdfModel/Model/Handwritten2.lean): MaybeNamedDest, NumberTree<i32>, NameTree<Primitive> (read side),
//! CidToGidMap, AppearanceStreamEntry, Pattern, XObject (dispatch), Encoding.
//!
//! Each case: a random input of the type's accepted form (plus a share of refused ones), the REAL
//! `from_primitive` and `to_primitive`, and the answer in the driver's notation (`ok <written form>` / `rerr` /
//! `werr`). Stream values are built in memory (`Stream::new(..).to_pdf_stream` gives a `PdfStream` whose
//! dictionary is public); the document path for the same types is exercised by `c15.variant-sweep`.

use super::support::*;
use super::{arr, dict_of, int, pd, rf};
use crate::driver::Driver;
use crate::report::Stream;
use crate::rng::Rng;
use pdf::object::*;
use pdf::primitive::{Dictionary, PdfStream, Primitive};
use std::collections::HashMap;

/// a stream primitive `<< info /Length n >> stream data endstream`, in memory
pub fn mem_stream(info: &Dictionary, data: &[u8]) -> Primitive {
    let mut up = RecUpdater::new(CREATED_BASE);
    let mut ps: PdfStream = pdf::object::Stream::new((), data.to_vec()).to_pdf_stream(&mut up).expect("unit stream");
    let len = ps.info.get("Length").cloned().expect("Length");
    let mut d = info.clone();
    if !d.contains_key("Length") {
        d.insert("Length", len);
    }
    ps.info = d;
    Primitive::Stream(ps)
}

fn tprim_text(p: &Primitive, data: &[u8]) -> String {
    match p {
        Primitive::Stream(s) => format!("S{}~{}", show_plain(&Primitive::Dictionary(s.info.clone())), hex(data)),
        q => format!("P{}", show_plain(q)),
    }
}

/// the written form of a value that may be a stream, in the driver's `tprim` notation
fn written_tprim(p: &Primitive, r: &impl Resolve) -> String {
    match p {
        Primitive::Stream(s) => match s.raw_data(r) {
            Ok(d) => format!("S{}~{}", show_plain(&Primitive::Dictionary(s.info.clone())), hex(&d)),
            Err(_) => "S?".into(),
        },
        q => format!("P{}", show_plain(q)),
    }
}

fn guarded(f: impl FnOnce() -> String) -> String {
    std::panic::catch_unwind(std::panic::AssertUnwindSafe(f)).unwrap_or_else(|_| "panic".into())
}

/// read, write, show (types whose written form is a plain primitive)
fn rw_plain<T: Object + ObjectWrite>(p: &Primitive, objs: &HashMap<u64, Primitive>, tolerant: bool) -> String {
    guarded(|| {
        let r = MemResolver::new(objs.clone(), HashMap::new(), tolerant);
        let x = match T::from_primitive(p.clone(), &r) {
            Ok(x) => x,
            Err(_) => return "rerr".into(),
        };
        let mut up = RecUpdater::new(CREATED_BASE);
        match x.to_primitive(&mut up) {
            Ok(p1) => {
                let created = up.objs.clone();
                format!("ok {}", show_prim(&p1, &move |id| created.iter().rev().find(|(i, _)| *i == id).map(|(_, q)| q.clone())))
            }
            Err(_) => "werr".into(),
        }
    })
}

fn form_stream(rng: &mut Rng) -> Primitive {
    let d = dict_of(&[("Type", name_prim("XObject")), ("Subtype", name_prim("Form")), ("BBox", arr((0..4).map(|_| rand_number(rng)).collect()))]);
    mem_stream(&d, b"q Q")
}

/// a random appearance entry: the primitive (with some parts behind references) and its resolved shape
fn rand_appearance(rng: &mut Rng, depth: u32, objs: &mut HashMap<u64, Primitive>, next: &mut u64) -> (Primitive, String) {
    let roll = rng.below(20);
    let (p, txt) = if depth == 0 || roll < 8 {
        if roll == 0 {
            (int(rng.below(9) as i32), "O".to_string())
        } else {
            (form_stream(rng), "S".to_string())
        }
    } else {
        let n = rng.below(4);
        let mut d = Dictionary::new();
        let mut es: Vec<(String, String)> = vec![];
        let keys = ["On", "Off", "Yes", "A", "B", "N1"];
        for i in 0..n {
            let k = keys[((rng.below(6) + i) % 6) as usize];
            if d.contains_key(k) {
                continue;
            }
            let (q, t) = rand_appearance(rng, depth - 1, objs, next);
            d.insert(k, q);
            es.push((k.to_string(), t));
        }
        es.sort();
        (Primitive::Dictionary(d), format!("D{{{}}}", es.iter().map(|(k, t)| format!("{}:{}", hex(k.as_bytes()), t)).collect::<Vec<_>>().join(",")))
    };
    if rng.chance(1, 3) {
        let id = *next;
        *next += 1;
        objs.insert(id, p);
        (rf(id), txt)
    } else {
        (p, txt)
    }
}

fn show_aprim(p: &Primitive) -> String {
    match p {
        Primitive::Stream(_) => "S".into(),
        Primitive::Dictionary(d) => {
            let mut es: Vec<(String, String)> = d.iter().map(|(k, v)| (k.as_str().to_string(), show_aprim(v))).collect();
            es.sort();
            format!("D{{{}}}", es.iter().map(|(k, t)| format!("{}:{}", hex(k.as_bytes()), t)).collect::<Vec<_>>().join(","))
        }
        _ => "O".into(),
    }
}

fn show_name_tree(t: &NameTree<Primitive>) -> String {
    let mut d = Dictionary::new();
    if let Some((a, b)) = &t.limits {
        d.insert("Limits", arr(vec![Primitive::String(a.clone()), Primitive::String(b.clone())]));
    }
    match &t.node {
        NameTreeNode::Leaf(items) => {
            let mut xs = vec![];
            for (k, v) in items {
                xs.push(Primitive::String(k.clone()));
                xs.push(v.clone());
            }
            d.insert("Names", arr(xs));
        }
        NameTreeNode::Intermediate(kids) => {
            d.insert("Kids", arr(kids.iter().map(|k| Primitive::Reference(k.get_inner())).collect()));
        }
    }
    show_plain(&Primitive::Dictionary(d))
}

struct HwCase {
    req: String,
    imp: String,
    ty: &'static str,
    form: String,
}

fn dest_array(rng: &mut Rng) -> Primitive {
    let page = if rng.chance(1, 5) { Primitive::Null } else { rf(1 + rng.below(30)) };
    let n = |rng: &mut Rng| if rng.chance(1, 4) { Primitive::Null } else { rand_number(rng) };
    let mut xs = vec![page];
    match rng.below(8) {
        0 => {
            xs.push(name_prim("XYZ"));
            xs.extend([n(rng), n(rng), n(rng)]);
        }
        1 => xs.push(name_prim("Fit")),
        2 => xs.push(name_prim("FitB")),
        3 => xs.extend([name_prim("FitH"), rand_number(rng)]),
        4 => xs.extend([name_prim("FitV"), rand_number(rng)]),
        5 => xs.extend([name_prim("FitBH"), rand_number(rng)]),
        6 => xs.extend([name_prim("FitR"), rand_number(rng), rand_number(rng), rand_number(rng), rand_number(rng)]),
        _ => xs.extend([name_prim("FitQ"), rand_number(rng)]),
    }
    arr(xs)
}

fn one_case(ty: &'static str, rng: &mut Rng, schemas: &[SchemaJ]) -> HwCase {
    let none: HashMap<u64, Primitive> = HashMap::new();
    match ty {
        "NamedDest" => {
            let tolerant = rng.chance(1, 4);
            let (p, form) = match rng.below(6) {
                0 => (str_prim(&(0..rng.below(6)).map(|_| rng.below(256) as u8).collect::<Vec<u8>>()), "string"),
                1 => (int(3), "refused"),
                _ => (dest_array(rng), "array"),
            };
            HwCase { req: format!("c15.hw NamedDest {} - {}", tolerant as u8, show_plain(&p)), imp: rw_plain::<MaybeNamedDest>(&p, &none, tolerant), ty, form: form.into() }
        }
        "NumberTree" => {
            let mut objs = HashMap::new();
            let mut d = Dictionary::new();
            let mut form = String::new();
            if rng.chance(2, 3) {
                let lim = arr(vec![int(rand_i32(rng)), int(rand_i32(rng))]);
                if rng.chance(1, 4) {
                    objs.insert(40, lim);
                    d.insert("Limits", rf(40));
                } else {
                    d.insert("Limits", lim);
                }
                form.push_str("limits+");
            }
            match rng.below(8) {
                0 => form.push_str("neither"),
                1 | 2 => {
                    let kids = arr((0..rng.below(4)).map(|_| rf(50 + rng.below(9))).collect());
                    if rng.chance(1, 4) {
                        objs.insert(41, kids);
                        d.insert("Kids", rf(41));
                    } else {
                        d.insert("Kids", kids);
                    }
                    if rng.chance(1, 3) {
                        d.insert("Nums", arr(vec![int(1), int(2)]));
                    }
                    form.push_str("kids");
                }
                3 => {
                    // an odd tail is dropped by `tuples()`; a key that is no integer is refused
                    let mut xs = vec![int(0), int(rand_i32(rng)), int(4)];
                    if rng.chance(1, 2) {
                        xs = vec![name_prim("A"), int(1)];
                        form.push_str("nums-refused");
                    } else {
                        form.push_str("nums-odd");
                    }
                    d.insert("Nums", arr(xs));
                }
                _ => {
                    let mut xs = vec![];
                    let mut k = rng.range(-5, 5) as i32;
                    for _ in 0..rng.below(5) {
                        xs.push(int(k));
                        xs.push(int(rand_i32(rng)));
                        k += 1 + rng.below(4) as i32;
                    }
                    d.insert("Nums", arr(xs));
                    form.push_str("nums");
                }
            }
            let p = Primitive::Dictionary(d);
            let (p, form) = if rng.chance(1, 5) {
                objs.insert(42, p);
                (rf(42), format!("ref→{}", form))
            } else {
                (p, form)
            };
            HwCase { req: format!("c15.hw NumberTree {} {}", objs_text(&objs), show_plain(&p)), imp: rw_plain::<NumberTree<i32>>(&p, &objs, false), ty, form }
        }
        "NameTree" => {
            let mut objs = HashMap::new();
            let mut d = Dictionary::new();
            let mut form = String::new();
            let word = |rng: &mut Rng| str_prim(&(0..1 + rng.below(4)).map(|_| b'a' + rng.below(26) as u8).collect::<Vec<u8>>());
            if rng.chance(2, 3) {
                d.insert("Limits", arr(vec![word(rng), word(rng)]));
                form.push_str("limits+");
            }
            match rng.below(7) {
                0 => form.push_str("neither"),
                1 | 2 => {
                    d.insert("Kids", arr((0..rng.below(4)).map(|_| rf(50 + rng.below(9))).collect()));
                    form.push_str("kids");
                }
                _ => {
                    let mut xs = vec![];
                    for _ in 0..rng.below(5) {
                        if rng.chance(1, 5) {
                            objs.insert(43, word(rng));
                            xs.push(rf(43));
                        } else {
                            xs.push(word(rng));
                        }
                        xs.push(rand_prim(rng, 1));
                    }
                    if rng.chance(1, 5) {
                        xs.push(word(rng));
                    }
                    let names = arr(xs);
                    if rng.chance(1, 4) {
                        objs.insert(44, names);
                        d.insert("Names", rf(44));
                    } else {
                        d.insert("Names", names);
                    }
                    form.push_str("names");
                }
            }
            let p = Primitive::Dictionary(d);
            let imp = guarded(|| {
                let r = MemResolver::new(objs.clone(), HashMap::new(), false);
                match NameTree::<Primitive>::from_primitive(p.clone(), &r) {
                    Ok(t) => format!("ok {}", show_name_tree(&t)),
                    Err(_) => "rerr".into(),
                }
            });
            HwCase { req: format!("c15.hw NameTree {} {}", objs_text(&objs), show_plain(&p)), imp, ty, form }
        }
        "CidToGidMap" => {
            let (p, data, form): (Primitive, Vec<u8>, &str) = match rng.below(8) {
                0 => (name_prim("Identity"), vec![], "identity"),
                1 => (name_prim(*rng.pick(NAMES)), vec![], "name"),
                2 => (int(1), vec![], "refused"),
                k => {
                    let n = 2 * rng.below(6) + if k == 3 { 1 } else { 0 };
                    let data: Vec<u8> = (0..n).map(|_| rng.below(256) as u8).collect();
                    let mut d = Dictionary::new();
                    if rng.chance(1, 4) {
                        d.insert("Filter", if rng.chance(1, 2) { Primitive::Null } else { arr(vec![]) });
                    }
                    if rng.chance(1, 4) {
                        d.insert("Extra", int(5));
                    }
                    (mem_stream(&d, &data), data, if k == 3 { "table-odd" } else { "table" })
                }
            };
            let imp = guarded(|| {
                let r = MemResolver::new(HashMap::new(), HashMap::new(), false);
                let x = match pdf::font::CidToGidMap::from_primitive(p.clone(), &r) {
                    Ok(x) => x,
                    Err(_) => return "rerr".into(),
                };
                let mut up = RecUpdater::new(CREATED_BASE);
                match x.to_primitive(&mut up) {
                    Ok(p1) => format!("ok {}", written_tprim(&p1, &r)),
                    Err(_) => "werr".into(),
                }
            });
            HwCase { req: format!("c15.hw CidToGidMap {}", tprim_text(&p, &data)), imp, ty, form: form.into() }
        }
        "ASE" => {
            let mut objs = HashMap::new();
            let mut next = 60u64;
            let depth = 1 + rng.below(3) as u32;
            let (p, txt) = rand_appearance(rng, depth, &mut objs, &mut next);
            let imp = guarded(|| {
                let r = MemResolver::new(objs.clone(), HashMap::new(), false);
                let x = match AppearanceStreamEntry::from_primitive(p.clone(), &r) {
                    Ok(x) => x,
                    Err(_) => return "rerr".into(),
                };
                let mut up = RecUpdater::new(CREATED_BASE);
                match x.to_primitive(&mut up) {
                    Ok(p1) => format!("ok {}", show_aprim(&p1)),
                    Err(_) => "werr".into(),
                }
            });
            let depth = txt.matches("D{").count().min(3);
            HwCase { req: format!("c15.hw ASE {}", txt), imp, ty, form: format!("dicts={}{}", depth, if txt.contains('O') { "+other" } else { "" }) }
        }
        "Pattern" => {
            let sc = schemas.iter().find(|s| s.name == "PatternDict").expect("PatternDict schema");
            let mut g = Gen::new(schemas, true);
            let base = g.struct_dict(rng, sc, None, 1).expect("PatternDict value");
            let (p, data, form): (Primitive, Vec<u8>, &str) = match rng.below(6) {
                0 => (int(2), vec![], "refused"),
                1 | 2 => (Primitive::Dictionary(base), vec![], "dict"),
                _ => {
                    let data = rng.pick(&[&b"q Q"[..], &b""[..], &b"1 0 0 1 2 3 cm q Q"[..], &b"0.5 g 0 0 1 1 re f"[..]]).to_vec();
                    (mem_stream(&base, &data), data, "stream")
                }
            };
            let objs = g.objs.clone();
            let imp = guarded(|| {
                let r = MemResolver::new(objs.clone(), HashMap::new(), false);
                let x = match Pattern::from_primitive(p.clone(), &r) {
                    Ok(x) => x,
                    Err(_) => return "rerr".into(),
                };
                let mut up = RecUpdater::new(CREATED_BASE);
                match x.to_primitive(&mut up) {
                    Ok(p1) => {
                        let created = up.objs.clone();
                        let look = move |id: u64| created.iter().rev().find(|(i, _)| *i == id).map(|(_, q)| q.clone());
                        match &p1 {
                            Primitive::Stream(s) => {
                                let mut d = Dictionary::new();
                                for (k, v) in s.info.iter() {
                                    if k.as_str() != "Length" {
                                        d.insert(k.clone(), v.clone());
                                    }
                                }
                                format!("ok stream {}", show_prim(&Primitive::Dictionary(d), &look))
                            }
                            q => format!("ok dict {}", show_prim(q, &look)),
                        }
                    }
                    Err(_) => "werr".into(),
                }
            });
            HwCase { req: format!("c15.hw Pattern {} {}", objs_text(&objs), tprim_text(&p, &data)), imp, ty, form: form.into() }
        }
        "XObject" => {
            let (d, form): (Option<Dictionary>, &str) = match rng.below(7) {
                0 => (Some(dict_of(&[("Type", name_prim("XObject")), ("Subtype", name_prim("PS"))])), "PS"),
                1 | 2 => (Some(dict_of(&[("Type", name_prim("XObject")), ("Subtype", name_prim("Image")), ("Width", int(2)), ("Height", int(1)), ("BitsPerComponent", int(8)), ("ColorSpace", name_prim("DeviceRGB"))])), "Image"),
                3 | 4 => (Some(dict_of(&[("Type", name_prim("XObject")), ("Subtype", name_prim("Form")), ("BBox", arr((0..4).map(|_| rand_number(rng)).collect()))])), "Form"),
                5 => (Some(dict_of(&[("Type", name_prim("XObject")), ("Subtype", name_prim(*rng.pick(NAMES)))])), "unknown-subtype"),
                _ => (None, "refused"),
            };
            let data = b"q Q 12".to_vec();
            let p = match &d {
                Some(d) => mem_stream(d, &data),
                None => pd(&[("Subtype", name_prim("Form"))]),
            };
            let imp = guarded(|| {
                let r = MemResolver::new(HashMap::new(), HashMap::new(), false);
                let x = match XObject::from_primitive(p.clone(), &r) {
                    Ok(x) => x,
                    Err(_) => return "rerr".into(),
                };
                let ident = match &x {
                    XObject::Postscript(_) => "Postscript",
                    XObject::Image(_) => "Image",
                    XObject::Form(_) => "Form",
                };
                let mut up = RecUpdater::new(CREATED_BASE);
                match x.to_primitive(&mut up) {
                    Ok(Primitive::Stream(s)) => format!("ok {} {}", ident, s.info.get("Subtype").and_then(|t| t.as_name().ok()).unwrap_or("?")),
                    Ok(_) => "ok-not-a-stream".into(),
                    Err(_) => "werr".into(),
                }
            });
            HwCase { req: format!("c15.hw XObject {}", tprim_text(&p, &data)), imp, ty, form: form.into() }
        }
        _ => {
            // Encoding
            let mut objs = HashMap::new();
            let bases = ["StandardEncoding", "SymbolEncoding", "MacRomanEncoding", "WinAnsiEncoding", "MacExpertEncoding", "Identity-H", "None", "CustomEnc"];
            let (p, form): (Primitive, &str) = match rng.below(8) {
                0 => (name_prim(*rng.pick(&bases)), "name"),
                1 => (int(1), "refused"),
                k => {
                    let mut d = Dictionary::new();
                    if rng.chance(3, 4) {
                        d.insert("BaseEncoding", name_prim(*rng.pick(&bases)));
                    }
                    let mut xs = vec![];
                    for _ in 0..rng.below(4) {
                        xs.push(int(rng.below(260) as i32));
                        for _ in 0..rng.below(4) {
                            xs.push(name_prim(*rng.pick(NAMES)));
                        }
                    }
                    if k == 2 {
                        xs.push(str_prim(b"x"));
                    }
                    if rng.chance(1, 5) {
                        // names before any code start at 0
                        xs.insert(0, name_prim("first"));
                    }
                    if rng.chance(5, 6) {
                        if rng.chance(1, 4) {
                            objs.insert(45, arr(xs));
                            d.insert("Differences", rf(45));
                        } else {
                            d.insert("Differences", arr(xs));
                        }
                    }
                    if rng.chance(1, 4) {
                        d.insert("Type", name_prim("Encoding"));
                    }
                    (Primitive::Dictionary(d), if k == 2 { "dict-refused" } else { "dict" })
                }
            };
            let (p, form) = if rng.chance(1, 6) {
                objs.insert(46, p);
                (rf(46), format!("ref→{}", form))
            } else {
                (p, form.to_string())
            };
            HwCase { req: format!("c15.hw Encoding {} {}", objs_text(&objs), show_plain(&p)), imp: rw_plain::<pdf::encoding::Encoding>(&p, &objs, false), ty: "Encoding", form }
        }
    }
}

pub const HW_TYPES: &[&str] = &["NamedDest", "NumberTree", "NameTree", "CidToGidMap", "ASE", "Pattern", "XObject", "Encoding"];

pub fn hw_stream(driver: &Driver, schemas: &[SchemaJ], seed: u64, per_type: u64) -> Stream {
    let mut st = Stream::new("c15.hw", true);
    let mut cases: Vec<HwCase> = vec![];
    for ty in HW_TYPES {
        for case in 0..per_type {
            let mut rng = Rng::derive(seed, &format!("c15.hw/{}", ty), case);
            cases.push(one_case(ty, &mut rng, schemas));
        }
    }
    let reqs: Vec<String> = cases.iter().map(|c| c.req.clone()).collect();
    let resp = driver.ask(&reqs);
    for (c, m) in cases.iter().zip(resp.iter()) {
        st.count(&format!("{}:{}={}", c.ty, c.form, c.imp.split(' ').next().unwrap_or("")));
        st.case(&c.req, m, &c.imp, c.imp.starts_with("ok"));
    }
    st
}
