//! Input material for the searches that quantify over "all byte strings": the repository's fixture
//! files, *normalised* copies of them (every stream decoded, every object written plainly with a classic
//! table, so that mutations reach the logic that otherwise hides behind Flate), and byte- and
//! token-level mutators. Nothing here is an oracle; it only produces inputs.

use crate::pdfwrite::*;
use crate::rng::Rng;
use crate::util::repo_root;
use pdf::file::{NoCache, NoLog, Storage};
use pdf::object::{ParseOptions, PlainRef, Resolve, Stream};
use pdf::primitive::{Dictionary, Primitive};
use std::panic::{catch_unwind, AssertUnwindSafe};

pub fn fixture_files() -> Vec<(String, Vec<u8>)> {
    let mut out = vec![];
    let root = format!("{}/files", repo_root());
    let mut stack = vec![std::path::PathBuf::from(root)];
    while let Some(d) = stack.pop() {
        let mut entries: Vec<_> = match std::fs::read_dir(&d) { Ok(r) => r.filter_map(|e| e.ok()).collect(), Err(_) => continue };
        entries.sort_by_key(|e| e.path());
        for e in entries {
            let p = e.path();
            if p.is_dir() {
                stack.push(p);
            } else if p.extension().map(|x| x == "pdf").unwrap_or(false) {
                if let Ok(b) = std::fs::read(&p) {
                    out.push((p.to_string_lossy().to_string(), b));
                }
            }
        }
    }
    out.sort_by(|a, b| a.0.cmp(&b.0));
    out
}

/// plain rendering of a primitive (own code, not the library's serializer)
pub fn render(p: &Primitive, out: &mut Vec<u8>) {
    match p {
        Primitive::Null => out.extend_from_slice(b"null"),
        Primitive::Integer(i) => out.extend_from_slice(i.to_string().as_bytes()),
        Primitive::Number(n) => {
            let s = format!("{}", n);
            out.extend_from_slice(s.as_bytes());
            if !s.contains('.') && n.is_finite() {
                out.extend_from_slice(b".0");
            }
        }
        Primitive::Boolean(b) => out.extend_from_slice(if *b { b"true" } else { b"false" }),
        Primitive::String(s) => {
            out.push(b'<');
            for b in s.as_bytes() {
                out.extend_from_slice(format!("{:02x}", b).as_bytes());
            }
            out.push(b'>');
        }
        Primitive::Name(n) => render_name(n.as_str(), out),
        Primitive::Array(a) => {
            out.push(b'[');
            for (i, x) in a.iter().enumerate() {
                if i > 0 { out.push(b' '); }
                render(x, out);
            }
            out.push(b']');
        }
        Primitive::Dictionary(d) => render_dict(d, out),
        Primitive::Reference(r) => out.extend_from_slice(format!("{} {} R", r.id, r.gen).as_bytes()),
        Primitive::Stream(s) => render_dict(&s.info, out), // data handled by the caller
    }
}

pub fn render_name(n: &str, out: &mut Vec<u8>) {
    out.push(b'/');
    for &b in n.as_bytes() {
        if (b'!'..=b'~').contains(&b) && !b"()<>[]{}/%#".contains(&b) {
            out.push(b);
        } else {
            out.extend_from_slice(format!("#{:02X}", b).as_bytes());
        }
    }
}

pub fn render_dict(d: &Dictionary, out: &mut Vec<u8>) {
    out.extend_from_slice(b"<<");
    for (k, v) in d.iter() {
        out.push(b' ');
        render_name(k.as_str(), out);
        out.push(b' ');
        render(v, out);
    }
    out.extend_from_slice(b" >>");
}

/// Re-write a loadable file with every decodable stream decoded and a single classic table.
/// Returns None when the file cannot be loaded (or loading panics).
pub fn normalise(bytes: &[u8]) -> Option<Vec<u8>> {
    let bytes = bytes.to_vec();
    catch_unwind(AssertUnwindSafe(move || {
        let mut storage = Storage::with_cache(bytes, ParseOptions::tolerant(), NoCache, NoCache, NoLog).ok()?;
        let trailer = storage.load_storage_and_trailer_password(b"").ok()?;
        let size = trailer.get("Size")?.as_integer().ok()? as u64;
        if size > 20000 { return None; }
        let resolver = storage.resolver();
        let mut w = PdfWriter::new(b"", "1.7");
        w.free(0, 0, 65535);
        let mut max_id = 0u64;
        for id in 1..size {
            let p = match resolver.resolve(PlainRef { id, gen: 0 }) { Ok(p) => p, Err(_) => continue };
            let mut body = vec![];
            match p {
                Primitive::Stream(s) => {
                    let mut info = s.info.clone();
                    let simple = |n: &str| matches!(n, "FlateDecode" | "LZWDecode" | "ASCIIHexDecode" | "ASCII85Decode" | "RunLengthDecode");
                    let decodable = match info.get("Filter") {
                        None => true,
                        Some(Primitive::Name(n)) => simple(n.as_str()),
                        Some(Primitive::Array(a)) => a.iter().all(|x| matches!(x, Primitive::Name(n) if simple(n.as_str()))),
                        _ => false,
                    };
                    let data: Vec<u8> = if decodable {
                        match Stream::<()>::from_stream(s.clone(), &resolver).and_then(|st| st.data(&resolver)) {
                            Ok(d) => { info.remove("Filter"); info.remove("DecodeParms"); d.to_vec() }
                            Err(_) => match s.raw_data(&resolver) { Ok(d) => d.to_vec(), Err(_) => continue },
                        }
                    } else {
                        match s.raw_data(&resolver) { Ok(d) => d.to_vec(), Err(_) => continue }
                    };
                    if info.get("Type").map(|t| matches!(t, Primitive::Name(n) if n.as_str() == "XRef" || n.as_str() == "ObjStm")).unwrap_or(false) {
                        continue; // the rewritten file has a classic table and no object streams
                    }
                    info.remove("Length");
                    let mut d = vec![];
                    render_dict(&info, &mut d);
                    // splice /Length into the dictionary text
                    let dict_txt = String::from_utf8_lossy(&d[2..d.len() - 2]).to_string();
                    body = stream_body(&dict_txt, &data);
                }
                other => render(&other, &mut body),
            }
            w.object(id, 0, &body);
            max_id = max_id.max(id);
        }
        let mut extra = vec![];
        for key in ["Root", "Info", "ID"] {
            if let Some(v) = trailer.get(key) {
                render_name(key, &mut extra);
                extra.push(b' ');
                render(v, &mut extra);
                extra.push(b' ');
            }
        }
        w.finish(XrefFormat::Classic, max_id + 1, &String::from_utf8_lossy(&extra), &[], 0);
        Some(w.out)
    }))
    .ok()
    .flatten()
}

const KEYS: &[&str] = &[
    "Type", "Pages", "Kids", "Count", "Parent", "MediaBox", "CropBox", "Resources", "Contents", "Font", "XObject", "ExtGState",
    "ColorSpace", "Length", "Filter", "DecodeParms", "Predictor", "Columns", "Colors", "BitsPerComponent", "W", "DW", "Widths",
    "FirstChar", "LastChar", "ToUnicode", "DescendantFonts", "Encoding", "Differences", "Names", "Nums", "Limits", "Dests",
    "Outlines", "First", "Last", "Next", "Prev", "N", "Index", "Size", "Root", "Info", "Subtype", "BaseFont", "FontDescriptor",
    "FunctionType", "Domain", "Range", "Functions", "Bounds", "Encode", "C0", "C1", "Width", "Height", "SMask", "Rotate", "Annots",
    "Page", "Catalog", "Image", "Form", "Type0", "CIDFontType2", "TrueType", "Type1", "FlateDecode", "ASCIIHexDecode", "ASCII85Decode",
    "LZWDecode", "RunLengthDecode", "DCTDecode", "CCITTFaxDecode", "DeviceRGB", "DeviceGray", "ICCBased", "Indexed", "Separation",
    "Identity-H", "Identity", "Encrypt", "V", "R", "O", "U", "P", "CF", "StmF", "StrF", "CFM", "AESV2", "AESV3", "V2",
];
const NUMS: &[&str] = &[
    "-1", "0", "1", "2", "7", "16", "17", "255", "256", "65535", "65536", "2147483647", "-2147483648", "2147483648", "4294967295",
    "4294967296", "18446744073709551615", "99999999999999999999", "0.0", "-0.5", "1e5", ".", "-", "+1", "00000000001",
];

pub fn mutate_bytes(rng: &mut Rng, src: &[u8]) -> Vec<u8> {
    let mut b = src.to_vec();
    if b.is_empty() { return b; }
    let n = 1 + rng.usize(4);
    for _ in 0..n {
        if b.is_empty() { break; }
        match rng.below(7) {
            0 => { let i = rng.usize(b.len()); b[i] ^= 1 << rng.below(8); }
            1 => { let i = rng.usize(b.len()); b[i] = rng.byte(); }
            2 => { let i = rng.usize(b.len()); let l = 1 + rng.usize(8.min(b.len() - i)); b.drain(i..i + l); }
            3 => { let i = rng.usize(b.len()); let l = 1 + rng.usize(16.min(b.len() - i)); let chunk: Vec<u8> = b[i..i + l].to_vec(); let j = rng.usize(b.len()); for (k, c) in chunk.into_iter().enumerate() { b.insert(j + k, c); } }
            4 => { let i = rng.usize(b.len()); b.truncate(i); }
            5 => { let i = rng.usize(b.len()); let d = *rng.pick(&[b'0', b'9', b'-', b'(', b')', b'<', b'>', b'[', b']', b'/', b'%', b' ', b'\n', b'\r', 0u8]); b[i] = d; }
            _ => { let i = rng.usize(b.len()); let l = rng.usize(64.min(b.len() - i) + 1); for k in 0..l { b[i + k] = rng.byte(); } }
        }
    }
    b
}

/// positions of "tokens" (maximal runs of regular characters) in the file
fn tokens(b: &[u8]) -> Vec<(usize, usize)> {
    let reg = |c: u8| !matches!(c, 0 | 9 | 10 | 12 | 13 | 32 | b'(' | b')' | b'<' | b'>' | b'[' | b']' | b'{' | b'}' | b'/' | b'%');
    let mut out = vec![];
    let mut i = 0;
    while i < b.len() {
        if reg(b[i]) {
            let s = i;
            while i < b.len() && reg(b[i]) { i += 1; }
            out.push((s, i));
        } else {
            i += 1;
        }
    }
    out
}

pub fn mutate_tokens(rng: &mut Rng, src: &[u8]) -> Vec<u8> {
    let mut b = src.to_vec();
    let n = 1 + rng.usize(3);
    for _ in 0..n {
        let toks = tokens(&b);
        if toks.is_empty() { break; }
        // prefer tokens in the first 64 KiB and the last 4 KiB (structure lives there in normalised files)
        let (s, e) = *rng.pick(&toks);
        let tok = b[s..e].to_vec();
        let is_num = tok.iter().all(|c| c.is_ascii_digit() || *c == b'-' || *c == b'.' || *c == b'+');
        let is_name = s > 0 && b[s - 1] == b'/';
        let repl: Vec<u8> = match rng.below(6) {
            0 | 1 if is_num => rng.pick(NUMS).as_bytes().to_vec(),
            0 | 1 if is_name => rng.pick(KEYS).as_bytes().to_vec(),
            2 => vec![],                                        // delete
            3 => { let mut t = tok.clone(); t.push(b' '); t.extend_from_slice(&tok); t } // duplicate
            4 if is_num => { // re-point a reference / tweak a number
                let v: i64 = String::from_utf8_lossy(&tok).parse().unwrap_or(0);
                format!("{}", v + rng.range(-3, 3)).into_bytes()
            }
            _ => { let (s2, e2) = *rng.pick(&toks); b[s2..e2].to_vec() } // swap in another token
        };
        b.splice(s..e, repl);
    }
    b
}

/// Shorten one to three hexadecimal or literal strings of the file to 0..17 bytes of content (cipher texts
/// then lack their IV or a whole block), keeping the syntax intact; stream data is cut by rewriting /Length.
pub fn shorten_strings(rng: &mut Rng, src: &[u8]) -> Vec<u8> {
    let mut b = src.to_vec();
    for _ in 0..1 + rng.usize(3) {
        // candidate hex strings `<…>` (not `<<`)
        let mut spans = vec![];
        let mut i = 0;
        while i + 1 < b.len() {
            if b[i] == b'<' && b[i + 1] != b'<' && (i == 0 || b[i - 1] != b'<') {
                if let Some(off) = b[i + 1..].iter().position(|&c| c == b'>') {
                    if b[i + 1..i + 1 + off].iter().all(|c| c.is_ascii_hexdigit() || c.is_ascii_whitespace()) && off >= 2 {
                        spans.push((i + 1, i + 1 + off));
                    }
                    i += off + 1;
                    continue;
                }
            }
            i += 1;
        }
        if spans.is_empty() {
            break;
        }
        let (s, e) = *rng.pick(&spans);
        let keep_bytes = *rng.pick(&[0usize, 1, 2, 7, 15, 16, 17]);
        let keep = (2 * keep_bytes).min(e - s);
        b.drain(s + keep..e);
    }
    if rng.chance(1, 2) {
        // cut a stream short: a smaller /Length (the data that follows is then looked at as `endstream`)
        let pat = b"/Length ";
        let hits: Vec<usize> = b.windows(pat.len()).enumerate().filter(|(_, w)| *w == pat).map(|(i, _)| i + pat.len()).collect();
        if !hits.is_empty() {
            let i = *rng.pick(&hits);
            let mut j = i;
            while j < b.len() && b[j].is_ascii_digit() { j += 1; }
            if j > i {
                let n = *rng.pick(&["0", "1", "7", "15", "16", "17", "31"]);
                b.splice(i..j, n.bytes());
            }
        }
    }
    b
}
