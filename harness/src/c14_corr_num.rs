//! C14 correspondence streams of the numeric follow-up. Both reuse the models of the packages that own
//! the code (no fork): the requests go to the C06 / C05 handlers of the driver.
//!
//!   c14.crypt       guard-derived encryption dictionaries (`numeric::crypt_cases`) through the real
//!                   `CryptDict::from_primitive` + `Decoder::from_password` (+ `decrypt` of a probe when a
//!                   decoder comes out) ↔ `Crypt.fromPassword` (request `c06.frompw`, every primitive but
//!                   SASLprep Lean-native)
//!   c14.predictor   every combination of the small sets Predictor × Colors × BitsPerComponent × Columns,
//!                   and the large values one at a time, on Flate and LZW data through the real
//!                   `enc::decode` ↔ `Enc.unpredict` (request `c05.unpredict`)
//! Both are in the domain of C14 (arbitrary numeric parameters in a well-formed file).

use super::guards::*;
use super::numeric::*;
use crate::c05::codecs::lzw_encode;
use crate::c05::{real, P};
use crate::c06::corr::real_frompw;
use crate::c06::std_sec::{saslprep_known, Rec};
use crate::driver::{hex, Driver};
use crate::pdfwrite::zlib;
use crate::report::Stream;
use pdf::enc::{self, StreamFilter};

fn run(st: &mut Stream, driver: &Driver, reqs: Vec<String>, imps: Vec<String>, canon: impl Fn(&str) -> String) {
    let resp = driver.ask(&reqs);
    for ((rq, m), i) in reqs.iter().zip(resp.iter()).zip(imps.iter()) {
        let (m, i) = (canon(m), canon(i));
        st.count(&format!("outcome={}", m.split(' ').next().unwrap_or("")));
        if m != i { st.count("DISAGREE"); }
        st.case(rq, &m, &i, m.starts_with("ok") || m.starts_with("badpw"));
    }
}

pub fn crypt_stream(driver: &Driver, thorough: bool) -> Stream {
    let mut st = Stream::new("c14.crypt", true);
    let (mut reqs, mut imps) = (vec![], vec![]);
    let probe: Vec<u8> = (0..32u8).collect();
    for (i, (desc, c)) in crypt_cases(thorough).into_iter().enumerate() {
        // revision 6 runs Algorithm 2.B with the Lean-native AES and SHA-2 (slow): a share of the cases
        if c.fields.r == 6 && !thorough && i % 16 != 0 { continue; }
        // (key lengths above 256 bits are refused before anything is allocated: every length can go to the model)
        let pw: &[u8] = if i % 5 == 4 { b"owner" } else if i % 5 == 3 { b"wrong" } else { b"" };
        let mut rec = Rec::new();
        if let Some(p) = saslprep_known(pw) { rec.prep(pw, p.as_deref()); }
        st.count(&format!("base={}", desc.split(' ').next().unwrap_or("").trim_start_matches("crypt-guards[")));
        let imp = real_frompw(&c.fields, &c.id0, pw, 4, 0, &probe);
        // what the typed layer (`u32` / `i32` fields of CryptDict, `i32` integers of the parser) refuses never
        // reaches `from_password`; the C06 protocol has no notation for it: the answer must be an error
        let f = &c.fields;
        let i32r = |x: i64| (-2147483648..=2147483647).contains(&x);
        let u32r = |x: i64| (0..=2147483647).contains(&x);
        let typed_ok = u32r(f.r) && i32r(f.v) && f.v >= 0 && i32r(f.p) && f.bits.map(u32r).unwrap_or(true) && f.cf.iter().all(|cf| cf.2.map(u32r).unwrap_or(true));
        if !typed_ok {
            st.count("typed layer refuses");
            let got = if imp.starts_with("dict-parse-failed") { "err".to_string() } else { imp };
            st.case(&format!("c14.crypt.typed {}", desc), "err", &got, false);
            continue;
        }
        reqs.push(format!("c06.frompw {} {} {} {} {} {} 2 {}", c.fields.proto(), hex(&c.id0), hex(pw), 4, 0, hex(&probe), rec.render()));
        imps.push(imp);
    }
    run(&mut st, driver, reqs, imps, |s| s.to_string());
    st
}

fn unpredict_case(filter: &str, p: &P, payload: &[u8]) -> (String, String) {
    let req = format!("c05.unpredict {} {} {} {} {}", p.predictor, p.colors, p.bpc, p.columns, hex(payload));
    let imp = if filter == "flate" {
        let data = zlib(payload);
        let f = StreamFilter::FlateDecode(p.real());
        real(|| enc::decode(&data, &f))
    } else {
        let data = lzw_encode(payload, p.early != 0, None);
        let f = StreamFilter::LZWDecode(p.real());
        real(|| enc::decode(&data, &f))
    };
    (req, imp)
}

pub fn predictor_stream(driver: &Driver, thorough: bool) -> Stream {
    let mut st = Stream::new("c14.predictor", true);
    let (mut reqs, mut imps) = (vec![], vec![]);
    let payloads: Vec<Vec<u8>> = vec![
        vec![],
        vec![2],
        vec![1, 10, 20, 30, 40, 2, 1, 2, 3, 4],
        vec![0, 1, 2, 3, 4, 5, 6, 7, 8, 9, 10, 11, 4, 1, 1, 1],
    ];
    let clamp = |v: i64| -> i32 { v.clamp(i32::MIN as i64, i32::MAX as i64) as i32 };
    // all combinations of the small sets
    for (k, filter) in ["flate", "lzw"].iter().enumerate() {
        for pred in cross_values("enc.Predictor") {
            for colors in cross_values("enc.Colors") {
                for bpc in cross_values("enc.BitsPerComponent") {
                    for columns in cross_values("enc.Columns") {
                        let p = P { predictor: clamp(pred), colors: clamp(colors), bpc: clamp(bpc), columns: clamp(columns), early: 1 };
                        for (j, pl) in payloads.iter().enumerate() {
                            // quick tier: half of the Flate cases, a sixth of the LZW ones (the real LZW decoder costs
                            // a millisecond per call, and `unpredict` is the same function behind both filters)
                            let share = if k == 0 { 2 } else { 6 };
                            if !thorough && (j as i64 + columns + 3 * bpc + 5 * colors + 7 * pred).rem_euclid(share) != 0 { continue; }
                            let (r, i) = unpredict_case(filter, &p, pl);
                            reqs.push(r);
                            imps.push(i);
                        }
                    }
                }
            }
        }
    }
    st.count(&format!("cross product: {} cases", reqs.len()));
    // the large values one at a time, under every predictor kind
    for filter in ["flate", "lzw"] {
        for pred in [1i64, 2, 10, 12, 15] {
            for (field, which) in [("enc.Colors", 0), ("enc.BitsPerComponent", 1), ("enc.Columns", 2), ("enc.Predictor", 3)] {
                for v in values(field) {
                    let mut p = P { predictor: clamp(pred), colors: 1, bpc: 8, columns: 4, early: 1 };
                    match which { 0 => p.colors = clamp(v), 1 => p.bpc = clamp(v), 2 => p.columns = clamp(v), _ => p.predictor = clamp(v) }
                    let (r, i) = unpredict_case(filter, &p, &payloads[2]);
                    reqs.push(r);
                    imps.push(i);
                }
            }
        }
    }
    run(&mut st, driver, reqs, imps, |s| s.to_string());
    st
}

/// The slice arithmetic of `from_password` (Model/Numeric `keySchedule`) against the real function: for the
/// dictionaries of versions 1 and 2, revisions 2–4, the model says whether the call ends in an error
/// (empty key, owner path with a key above 128 bits), a panic, or runs through (then the implementation
/// answers with a decoder or `InvalidPassword`). `Decoder::new(..).decrypt` likewise for every key size.
pub fn keysched_stream(driver: &Driver, thorough: bool) -> Stream {
    use pdf::crypt::{CryptMethod, Decoder};
    use pdf::object::PlainRef;
    let mut st = Stream::new("c14.keysched", true);
    let (mut reqs, mut imps) = (vec![], vec![]);
    for (desc, c) in crypt_cases(thorough) {
        let f = &c.fields;
        if !(f.v == 1 || f.v == 2) || !(2..=4).contains(&f.r) { continue; }
        let bits = if f.v == 1 { 40 } else { f.bits.unwrap_or(40) };
        if !(0..=2147483647).contains(&bits) || (f.v == 2 && bits % 8 != 0) { continue; }
        // (entries the typed layer refuses never reach from_password)
        let u32r = |x: i64| (0..=2147483647).contains(&x);
        if !f.bits.map(u32r).unwrap_or(true) || !(-2147483648..=2147483647).contains(&f.p) || !f.cf.iter().all(|cf| cf.2.map(u32r).unwrap_or(true)) { continue; }
        for pw in [&b""[..], &b"wrong"[..]] {
            let imp = real_frompw(f, &c.id0, pw, 4, 0, &[1, 2, 3]);
            let class = imp.split(' ').next().unwrap_or("").to_string();
            let user_ok = class == "ok";
            // the implementation's answer in the model's terms: a decoder / InvalidPassword = ran through
            let got = match class.as_str() { "ok" | "badpw" => "ok", x => x }.to_string();
            if std::env::var("VERIF_DEBUG").is_ok() && got == "err" { eprintln!("keysched err: {} -> {}", desc, imp); }
            reqs.push(format!("c14.keysched 1 {} {} {}", f.r, bits, user_ok as u8));
            imps.push(got);
        }
    }
    // Decoder::decrypt: every key size around the guards, keys of max(key_size, 16) bytes (what from_password builds)
    for aes in [false, true] {
        for ks in values("crypt.CF.Length").into_iter().filter(|k| (0..=4096).contains(k)) {
            let ks = ks as usize;
            let key = vec![7u8; ks.max(16)];
            let dec = Decoder::new(key, ks, if aes { CryptMethod::AESV2 } else { CryptMethod::V2 }, true);
            let mut data = vec![0u8; 32];
            let r = std::panic::catch_unwind(std::panic::AssertUnwindSafe(|| dec.decrypt(PlainRef { id: 4, gen: 0 }, &mut data).map(|_| ())));
            // a decryption failure (bad padding) is a value of the call as well
            imps.push(match r { Ok(_) => "ok".into(), Err(_) => "panic".to_string() });
            reqs.push(format!("c14.objkey {} {} {}", aes as u8, ks, ks.max(16)));
        }
    }
    run(&mut st, driver, reqs, imps, |s| s.to_string());
    st
}

pub fn streams(driver: &Driver, _seed: u64, thorough: bool) -> Vec<Stream> {
    let t0 = std::time::Instant::now();
    let mut a = crypt_stream(driver, thorough);
    a.count(&format!("seconds={}", t0.elapsed().as_secs()));
    let t1 = std::time::Instant::now();
    let mut b = predictor_stream(driver, thorough);
    b.count(&format!("seconds={}", t1.elapsed().as_secs()));
    vec![a, b, keysched_stream(driver, thorough)]
}
