//! Independent implementation of the standard security handler (ISO 32000-1 §7.6, ISO 32000-2 §7.6.4)
//! used by the C06 checks: both the *writer* side (Algorithms 1, 1.A, 2, 3, 4, 5, 8, 9, 10) that
//! produces encrypted documents, and the *reader* side (Algorithms 6, 7, 2.A, 2.B) that says what a
//! conforming reader must answer for a password. It shares no code with pdf-rs: RC4, CBC chaining and
//! PKCS#7 padding are written out here; MD5, SHA-2 and the AES block function come from the RustCrypto
//! crates (trusted primitives). Every primitive evaluation is recorded in `Rec`, which is what the Lean
//! model driver receives as its finite oracle table.

use aes::cipher::{generic_array::GenericArray, BlockDecrypt, BlockEncrypt, KeyInit};
use sha2::Digest;
use std::collections::BTreeSet;

pub const PAD: [u8; 32] = [
    0x28, 0xBF, 0x4E, 0x5E, 0x4E, 0x75, 0x8A, 0x41, 0x64, 0x00, 0x4E, 0x56, 0xFF, 0xFA, 0x01, 0x08, 0x2E, 0x2E, 0x00, 0xB6, 0xD0, 0x68, 0x3E, 0x80, 0x2F, 0x0C, 0xA9, 0xFE, 0x64, 0x53,
    0x69, 0x7A,
];

fn hx(b: &[u8]) -> String {
    crate::driver::hex(b)
}

/// Recorder of primitive evaluations (deduplicated, deterministic order).
#[derive(Default, Clone)]
pub struct Rec {
    pub entries: BTreeSet<String>,
    pub on: bool,
    /// do not record the evaluations inside Algorithm 2.B (the driver uses Lean-native primitives there)
    pub skip_kdf: bool,
}

impl Rec {
    pub fn new() -> Rec {
        Rec { entries: BTreeSet::new(), on: true, skip_kdf: false }
    }
    pub fn off() -> Rec {
        Rec { entries: BTreeSet::new(), on: false, skip_kdf: false }
    }
    fn put(&mut self, s: String) {
        if self.on {
            self.entries.insert(s);
        }
    }
    /// `m:<in>:<out>,a:<key>:<in>:<out>,…` or `-`
    pub fn render(&self) -> String {
        if self.entries.is_empty() {
            "-".into()
        } else {
            self.entries.iter().cloned().collect::<Vec<_>>().join(",")
        }
    }
    pub fn md5(&mut self, data: &[u8]) -> [u8; 16] {
        let d = md5::compute(data).0;
        if self.on { self.put(format!("m:{}:{}", hx(data), hx(&d))); }
        d
    }
    pub fn sha256(&mut self, data: &[u8]) -> Vec<u8> {
        let d = sha2::Sha256::digest(data).to_vec();
        if self.on { self.put(format!("s2:{}:{}", hx(data), hx(&d))); }
        d
    }
    pub fn sha384(&mut self, data: &[u8]) -> Vec<u8> {
        let d = sha2::Sha384::digest(data).to_vec();
        if self.on { self.put(format!("s3:{}:{}", hx(data), hx(&d))); }
        d
    }
    pub fn sha512(&mut self, data: &[u8]) -> Vec<u8> {
        let d = sha2::Sha512::digest(data).to_vec();
        if self.on { self.put(format!("s5:{}:{}", hx(data), hx(&d))); }
        d
    }
    /// one AES block, forward direction; key of 16 or 32 bytes
    pub fn aes_enc(&mut self, key: &[u8], block: &[u8; 16]) -> [u8; 16] {
        let mut b = GenericArray::clone_from_slice(block);
        match key.len() {
            16 => aes::Aes128::new(GenericArray::from_slice(key)).encrypt_block(&mut b),
            32 => aes::Aes256::new(GenericArray::from_slice(key)).encrypt_block(&mut b),
            n => panic!("aes key of {} bytes", n),
        }
        let mut o = [0u8; 16];
        o.copy_from_slice(&b);
        if self.on { self.put(format!("a:{}:{}:{}", hx(key), hx(block), hx(&o))); }
        o
    }
    /// one AES block, inverse direction (recorded as the same relation `E_key(out) = block`)
    pub fn aes_dec(&mut self, key: &[u8], block: &[u8; 16]) -> [u8; 16] {
        let mut b = GenericArray::clone_from_slice(block);
        match key.len() {
            16 => aes::Aes128::new(GenericArray::from_slice(key)).decrypt_block(&mut b),
            32 => aes::Aes256::new(GenericArray::from_slice(key)).decrypt_block(&mut b),
            n => panic!("aes key of {} bytes", n),
        }
        let mut o = [0u8; 16];
        o.copy_from_slice(&b);
        if self.on { self.put(format!("a:{}:{}:{}", hx(key), hx(&o), hx(block))); }
        o
    }
    /// SASLprep outcome for a password (table entry only; see `saslprep_known`)
    pub fn prep(&mut self, input: &[u8], out: Option<&[u8]>) {
        match out {
            Some(o) => self.put(format!("p:{}:{}", hx(input), hx(o))),
            None => self.put(format!("p:{}:err", hx(input))),
        }
    }
}

// ----------------------------------------------------------------------------------------------- RC4

pub fn rc4(key: &[u8], data: &[u8]) -> Vec<u8> {
    assert!(!key.is_empty());
    let mut s: Vec<u8> = (0..=255u8).collect();
    let mut j = 0usize;
    for i in 0..256 {
        j = (j + s[i] as usize + key[i % key.len()] as usize) & 255;
        s.swap(i, j);
    }
    let (mut i, mut j) = (0usize, 0usize);
    data.iter()
        .map(|b| {
            i = (i + 1) & 255;
            j = (j + s[i] as usize) & 255;
            s.swap(i, j);
            b ^ s[(s[i] as usize + s[j] as usize) & 255]
        })
        .collect()
}

// ------------------------------------------------------------------------------------- AES-CBC, PKCS#7

pub fn cbc_encrypt_nopad(rec: &mut Rec, key: &[u8], iv: &[u8; 16], data: &[u8]) -> Vec<u8> {
    assert!(data.len() % 16 == 0);
    let mut prev = *iv;
    let mut out = Vec::with_capacity(data.len());
    for chunk in data.chunks(16) {
        let mut b = [0u8; 16];
        for k in 0..16 {
            b[k] = chunk[k] ^ prev[k];
        }
        prev = rec.aes_enc(key, &b);
        out.extend_from_slice(&prev);
    }
    out
}

pub fn cbc_decrypt_nopad(rec: &mut Rec, key: &[u8], iv: &[u8; 16], data: &[u8]) -> Vec<u8> {
    assert!(data.len() % 16 == 0);
    let mut prev = *iv;
    let mut out = Vec::with_capacity(data.len());
    for chunk in data.chunks(16) {
        let mut c = [0u8; 16];
        c.copy_from_slice(chunk);
        let d = rec.aes_dec(key, &c);
        for k in 0..16 {
            out.push(d[k] ^ prev[k]);
        }
        prev = c;
    }
    out
}

pub fn pkcs7_pad(data: &[u8]) -> Vec<u8> {
    let n = 16 - data.len() % 16; // 1..=16: a whole block when the length is block-aligned
    let mut v = data.to_vec();
    v.extend(std::iter::repeat(n as u8).take(n));
    v
}

/// what a conforming reader gets from `iv ‖ ciphertext` (None: not a valid encryption)
pub fn aes_object_decrypt(rec: &mut Rec, key: &[u8], data: &[u8]) -> Option<Vec<u8>> {
    if data.len() < 32 || data.len() % 16 != 0 {
        return None;
    }
    let mut iv = [0u8; 16];
    iv.copy_from_slice(&data[..16]);
    let p = cbc_decrypt_nopad(rec, key, &iv, &data[16..]);
    let n = *p.last().unwrap() as usize;
    if n == 0 || n > 16 || p[p.len() - n..].iter().any(|&b| b as usize != n) {
        return None;
    }
    Some(p[..p.len() - n].to_vec())
}

// ----------------------------------------------------------------------------- the handler's parameters

#[derive(Clone, Copy, Debug, PartialEq, Eq)]
pub enum Cipher {
    Rc4,
    Aes128,
    Aes256,
}

#[derive(Clone, Debug)]
pub struct Params {
    /// revision of the standard security handler (2, 3, 4, 5, 6)
    pub r: u32,
    /// file key length in bytes (5 for R2; 5..=16 for R3/R4-RC4; 16 for AES-128; 32 for AES-256)
    pub n: usize,
    pub cipher: Cipher,
    pub p: i32,
    pub id0: Vec<u8>,
    pub encrypt_metadata: bool,
}

/// the entries of the encryption dictionary computed from the passwords
#[derive(Clone, Debug, Default)]
pub struct Entries {
    pub o: Vec<u8>,
    pub u: Vec<u8>,
    pub oe: Vec<u8>,
    pub ue: Vec<u8>,
    pub perms: Vec<u8>,
    pub file_key: Vec<u8>,
}

/// "pad or truncate the password to exactly 32 bytes": two passwords with the same image are the same password
pub fn padded(pw: &[u8]) -> Vec<u8> {
    let mut v: Vec<u8> = pw.iter().cloned().take(32).collect();
    let k = v.len();
    v.extend_from_slice(&PAD[..32 - k]);
    v
}

/// Algorithm 2: the file key from the (user) password
pub fn alg2_file_key(rec: &mut Rec, pr: &Params, o: &[u8], user_pw: &[u8]) -> Vec<u8> {
    let mut m = padded(user_pw);
    m.extend_from_slice(o);
    m.extend_from_slice(&(pr.p as u32).to_le_bytes());
    m.extend_from_slice(&pr.id0);
    if pr.r >= 4 && !pr.encrypt_metadata {
        m.extend_from_slice(&[0xff; 4]);
    }
    let mut h = rec.md5(&m).to_vec();
    if pr.r >= 3 {
        for _ in 0..50 {
            h = rec.md5(&h[..pr.n]).to_vec();
        }
    }
    h[..pr.n].to_vec()
}

/// Algorithm 3 a)–d): the RC4 key that wraps the user password inside /O
pub fn alg3_owner_rc4_key(rec: &mut Rec, pr: &Params, owner_pw: &[u8]) -> Vec<u8> {
    let mut h = rec.md5(&padded(owner_pw)).to_vec();
    if pr.r >= 3 {
        for _ in 0..50 {
            h = rec.md5(&h).to_vec();
        }
    }
    h[..pr.n].to_vec()
}

fn xor_key(k: &[u8], x: u8) -> Vec<u8> {
    k.iter().map(|b| b ^ x).collect()
}

/// Algorithm 3: /O
pub fn alg3_o(rec: &mut Rec, pr: &Params, owner_pw: &[u8], user_pw: &[u8]) -> Vec<u8> {
    let k = alg3_owner_rc4_key(rec, pr, owner_pw);
    let mut d = rc4(&k, &padded(user_pw));
    if pr.r >= 3 {
        for i in 1..=19u8 {
            d = rc4(&xor_key(&k, i), &d);
        }
    }
    d
}

/// Algorithm 4 / 5: /U (for R >= 3 the last 16 bytes are arbitrary: `tail`)
pub fn alg45_u(rec: &mut Rec, pr: &Params, file_key: &[u8], tail: &[u8; 16]) -> Vec<u8> {
    if pr.r == 2 {
        rc4(file_key, &PAD)
    } else {
        let mut m = PAD.to_vec();
        m.extend_from_slice(&pr.id0);
        let h = rec.md5(&m);
        let mut d = rc4(file_key, &h);
        for i in 1..=19u8 {
            d = rc4(&xor_key(file_key, i), &d);
        }
        d.extend_from_slice(tail);
        d
    }
}

/// Algorithm 2.B: the hash of revision 6 (`udata` empty or the 48-byte /U)
pub fn alg2b_hash(rec: &mut Rec, pw: &[u8], salt: &[u8], udata: &[u8]) -> Vec<u8> {
    let mut local = Rec::off();
    let rec: &mut Rec = if rec.skip_kdf { &mut local } else { rec };
    let mut first = pw.to_vec();
    first.extend_from_slice(salt);
    first.extend_from_slice(udata);
    let mut k = rec.sha256(&first);
    let mut rounds: u32 = 0;
    loop {
        let mut unit = pw.to_vec();
        unit.extend_from_slice(&k);
        unit.extend_from_slice(udata);
        let mut k1 = Vec::with_capacity(unit.len() * 64);
        for _ in 0..64 {
            k1.extend_from_slice(&unit);
        }
        let mut iv = [0u8; 16];
        iv.copy_from_slice(&k[16..32]);
        let e = cbc_encrypt_nopad(rec, &k[..16], &iv, &k1);
        let mut first16 = [0u8; 16];
        first16.copy_from_slice(&e[..16]);
        k = match u128::from_be_bytes(first16) % 3 {
            0 => rec.sha256(&e),
            1 => rec.sha384(&e),
            _ => rec.sha512(&e),
        };
        rounds += 1;
        if rounds >= 64 && (*e.last().unwrap() as u32) <= rounds - 32 {
            break;
        }
    }
    k[..32].to_vec()
}

fn hash56(rec: &mut Rec, r: u32, pw: &[u8], salt: &[u8], udata: &[u8]) -> Vec<u8> {
    if r == 5 {
        let mut m = pw.to_vec();
        m.extend_from_slice(salt);
        m.extend_from_slice(udata);
        rec.sha256(&m)
    } else {
        alg2b_hash(rec, pw, salt, udata)
    }
}

/// SASLprep for the passwords this harness generates. Printable ASCII is mapped to itself by RFC 4013;
/// the handful of non-ASCII / prohibited cases are the worked examples of RFC 4013 §3 plus two obvious
/// ones. `None`: not a table case; `Some(None)`: prohibited / not UTF-8; `Some(Some(x))`: prepared form.
pub fn saslprep_known(pw: &[u8]) -> Option<Option<Vec<u8>>> {
    if pw.iter().all(|b| (0x20..0x7f).contains(b)) {
        return Some(Some(pw.to_vec()));
    }
    let cases: [(&[u8], Option<&[u8]>); 8] = [
        ("I\u{00AD}X".as_bytes(), Some(b"IX")),          // soft hyphen mapped to nothing
        ("\u{00AA}".as_bytes(), Some(b"a")),             // NFKC
        ("\u{2168}".as_bytes(), Some(b"IX")),            // NFKC
        ("a\u{00A0}b".as_bytes(), Some(b"a b")),         // non-ASCII space mapped to space
        ("p\u{00E9}".as_bytes(), Some("p\u{00E9}".as_bytes())),
        (b"\x07", None),                                 // prohibited control character
        ("\u{0627}1".as_bytes(), None),                  // bidi check
        (b"\xff\xfe", None),                             // not UTF-8
    ];
    for (i, o) in cases.iter() {
        if *i == pw {
            return Some(o.map(|x| x.to_vec()));
        }
    }
    None
}

/// prepared, truncated password of revisions 5 and 6 (None: a conforming reader rejects it)
pub fn prep56(rec: &mut Rec, pw: &[u8]) -> Option<Vec<u8>> {
    let r = saslprep_known(pw).expect("password outside the SASLprep table of the harness");
    rec.prep(pw, r.as_deref());
    r.map(|mut v| {
        v.truncate(127);
        v
    })
}

/// Build all dictionary entries for a new document. `rnd` supplies the arbitrary bytes the algorithms
/// ask for (salts, /U tail, file key of R5/R6, Perms filler).
pub fn make_entries(rec: &mut Rec, pr: &Params, user_pw: &[u8], owner_pw: &[u8], rnd: &mut dyn FnMut(usize) -> Vec<u8>) -> Entries {
    let mut e = Entries::default();
    if pr.r <= 4 {
        e.o = alg3_o(rec, pr, owner_pw, user_pw);
        e.file_key = alg2_file_key(rec, pr, &e.o, user_pw);
        let mut tail = [0u8; 16];
        tail.copy_from_slice(&rnd(16));
        e.u = alg45_u(rec, pr, &e.file_key, &tail);
    } else {
        let upw = prep56(rec, user_pw).expect("user password must be acceptable");
        let opw = prep56(rec, owner_pw).expect("owner password must be acceptable");
        e.file_key = rnd(32);
        let zero = [0u8; 16];
        // Algorithm 8
        let (uvs, uks) = (rnd(8), rnd(8));
        e.u = hash56(rec, pr.r, &upw, &uvs, &[]);
        e.u.extend_from_slice(&uvs);
        e.u.extend_from_slice(&uks);
        let ik = hash56(rec, pr.r, &upw, &uks, &[]);
        e.ue = cbc_encrypt_nopad(rec, &ik, &zero, &e.file_key);
        // Algorithm 9
        let (ovs, oks) = (rnd(8), rnd(8));
        let u48 = e.u.clone();
        e.o = hash56(rec, pr.r, &opw, &ovs, &u48);
        e.o.extend_from_slice(&ovs);
        e.o.extend_from_slice(&oks);
        let ik = hash56(rec, pr.r, &opw, &oks, &u48);
        e.oe = cbc_encrypt_nopad(rec, &ik, &zero, &e.file_key);
        // Algorithm 10
        let mut perms = [0u8; 16];
        perms[..4].copy_from_slice(&(pr.p as u32).to_le_bytes());
        perms[4..8].copy_from_slice(&[0xff; 4]);
        perms[8] = if pr.encrypt_metadata { b'T' } else { b'F' };
        perms[9..12].copy_from_slice(b"adb");
        perms[12..].copy_from_slice(&rnd(4));
        let mut off = Rec::off();
        e.perms = off.aes_enc(&e.file_key, &perms).to_vec();
    }
    e
}

#[derive(Clone, Debug, PartialEq, Eq)]
pub enum Auth {
    /// the password opens the document; the file key
    Key(Vec<u8>),
    Wrong,
}

/// Reader side: Algorithms 6 + 7 (R2–R4), 2.A (R5/R6). `o`, `u`, `oe`, `ue` as found in the dictionary.
pub fn authenticate(rec: &mut Rec, pr: &Params, o: &[u8], u: &[u8], oe: &[u8], ue: &[u8], pw: &[u8]) -> Auth {
    if pr.r <= 4 {
        let user_ok = |rec: &mut Rec, upw: &[u8]| -> Option<Vec<u8>> {
            let k = alg2_file_key(rec, pr, o, upw);
            let cu = alg45_u(rec, pr, &k, &[0; 16]);
            let same = if pr.r == 2 { cu == u } else { u.len() >= 16 && cu[..16] == u[..16] };
            if same { Some(k) } else { None }
        };
        if let Some(k) = user_ok(rec, pw) {
            return Auth::Key(k);
        }
        // Algorithm 7
        let k = alg3_owner_rc4_key(rec, pr, pw);
        let mut d = o.to_vec();
        if pr.r == 2 {
            d = rc4(&k, &d);
        } else {
            for i in (0..=19u8).rev() {
                d = rc4(&xor_key(&k, i), &d);
            }
        }
        match user_ok(rec, &d) {
            Some(k) => Auth::Key(k),
            None => Auth::Wrong,
        }
    } else {
        let p = match prep56(rec, pw) {
            Some(p) => p,
            None => return Auth::Wrong,
        };
        let zero = [0u8; 16];
        // Algorithm 2.A tests the owner password first; a reader may just as well evaluate the user
        // check first (pdf-rs does), so both validation hashes are evaluated (and recorded) up front.
        let oh = hash56(rec, pr.r, &p, &o[32..40], u);
        let uh = hash56(rec, pr.r, &p, &u[32..40], &[]);
        if oh == o[..32] {
            let ik = hash56(rec, pr.r, &p, &o[40..48], u);
            let k_owner = cbc_decrypt_nopad(rec, &ik, &zero, oe);
            if uh == u[..32] {
                // the same password in both roles: either path must give the same file key
                let ik = hash56(rec, pr.r, &p, &u[40..48], &[]);
                let k_user = cbc_decrypt_nopad(rec, &ik, &zero, ue);
                assert_eq!(k_owner, k_user);
            }
            return Auth::Key(k_owner);
        }
        if uh == u[..32] {
            let ik = hash56(rec, pr.r, &p, &u[40..48], &[]);
            return Auth::Key(cbc_decrypt_nopad(rec, &ik, &zero, ue));
        }
        Auth::Wrong
    }
}

/// Algorithm 1 / 1.A: the key for one object
pub fn object_key(rec: &mut Rec, cipher: Cipher, file_key: &[u8], id: u64, gen: u64) -> Vec<u8> {
    if cipher == Cipher::Aes256 {
        return file_key.to_vec();
    }
    let mut m = file_key.to_vec();
    m.extend_from_slice(&[id as u8, (id >> 8) as u8, (id >> 16) as u8, gen as u8, (gen >> 8) as u8]);
    if cipher == Cipher::Aes128 {
        m.extend_from_slice(b"sAlT");
    }
    let h = rec.md5(&m);
    h[..(file_key.len() + 5).min(16)].to_vec()
}

/// Algorithm 1 / 1.A, writer side (`iv`: the arbitrary initialisation vector of the AES variants)
pub fn encrypt_object(rec: &mut Rec, cipher: Cipher, file_key: &[u8], id: u64, gen: u64, data: &[u8], iv: &[u8; 16]) -> Vec<u8> {
    let k = object_key(rec, cipher, file_key, id, gen);
    match cipher {
        Cipher::Rc4 => rc4(&k, data),
        _ => {
            let mut out = iv.to_vec();
            out.extend(cbc_encrypt_nopad(rec, &k, iv, &pkcs7_pad(data)));
            out
        }
    }
}

/// Algorithm 1 / 1.A, reader side (None: not decryptable). Empty input stays empty for every cipher.
pub fn decrypt_object(rec: &mut Rec, cipher: Cipher, file_key: &[u8], id: u64, gen: u64, data: &[u8]) -> Option<Vec<u8>> {
    let k = object_key(rec, cipher, file_key, id, gen);
    match cipher {
        Cipher::Rc4 => Some(rc4(&k, data)),
        _ => aes_object_decrypt(rec, &k, data),
    }
}

#[cfg(test)]
mod tests {
    use super::*;
    #[test]
    fn rc4_vectors() {
        // RFC 6229 / classic vectors
        assert_eq!(rc4(b"Key", b"Plaintext"), [0xBB, 0xF3, 0x16, 0xE8, 0xD9, 0x40, 0xAF, 0x0A, 0xD3]);
        assert_eq!(rc4(b"Wiki", b"pedia"), [0x10, 0x21, 0xBF, 0x04, 0x20]);
    }
}
