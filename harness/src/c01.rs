//! C01 — reading arbitrary bytes never panics, aborts or hangs.
//!
//! Oracle `c01.walk`: the walker of harness/src/walker.rs (open → every object by number as every root type →
//! pages, inherited attributes, resources, fonts with widths and Unicode maps, images, forms, operations,
//! annotations, name / number trees, outlines, `scan`) runs in child processes with a per-document time and
//! address-space limit, × {strict, tolerant} × {cached, uncached}, on
//!   fixtures          every file under <repo>/files (valid files and past fuzz crashes), all four configurations
//!   normalised        the same files re-written with every stream decoded and a classic table (corpus.rs)
//!   bytes(raw)        byte-level mutations of the fixtures (flips, splices, truncation, delimiter injection)
//!   bytes(norm)       byte-level mutations of the normalised files: reach the logic that hides behind Flate
//!   tokens(norm)      token-level mutations of the normalised files: numeric tokens → boundary values, names
//!                     swapped from a dictionary of PDF keys, tokens deleted / duplicated, references re-pointed
//!   grammar           documents from the grammar-directed generator (docgen.rs), plain and mutated
//!   soup              `%PDF-` followed by random token soup / random bytes
//! A document counts as a failure when any call panics, the child dies (stack overflow, abort, allocation
//! failure) or the walk exceeds its time limit. Failures are classified by the panic site (`file:line`) or by
//! the kind of death; the replay file holds the bytes and the configuration.
//!
//! Correspondence streams for the lexical / syntactic core (model = Model/Lexer, StrLexer, Parser) live in
//! c01_corr.rs once those models are merged; every input of those streams is in C01's domain.

use crate::c14::walker::{self, Doc, DocResult, Limits, Outcome};
use crate::corpus;
use crate::docgen;
use crate::driver::{hex, unhex, Driver};
use crate::report::*;
use crate::rng::Rng;
use serde_json::json;

#[path = "c01_corr.rs"]
pub mod corr;

struct Case {
    family: &'static str,
    desc: String,
    doc: Doc,
}

fn cfg(i: u64) -> (bool, bool) {
    (i & 1 == 1, i & 2 == 2)
}

fn walk_all(docs: &[Doc], limits: Limits) -> Vec<DocResult> {
    let threads = std::thread::available_parallelism().map(|n| n.get()).unwrap_or(4).clamp(2, 14);
    let chunk = ((docs.len() + threads * 4 - 1) / (threads * 4)).clamp(1, 200);
    let chunks: Vec<&[Doc]> = docs.chunks(chunk).collect();
    let next = std::sync::atomic::AtomicUsize::new(0);
    let results: Vec<std::sync::Mutex<Vec<DocResult>>> = chunks.iter().map(|_| std::sync::Mutex::new(vec![])).collect();
    std::thread::scope(|s| {
        for _ in 0..threads {
            s.spawn(|| loop {
                let i = next.fetch_add(1, std::sync::atomic::Ordering::SeqCst);
                if i >= chunks.len() {
                    break;
                }
                let r = walker::run_batch("C01", chunks[i], limits);
                *results[i].lock().unwrap() = r;
            });
        }
    });
    results.into_iter().flat_map(|m| m.into_inner().unwrap()).collect()
}

fn soup(rng: &mut Rng) -> Vec<u8> {
    const TOK: &[&str] = &[
        "obj", "endobj", "stream", "endstream", "xref", "trailer", "startxref", "%%EOF", "<<", ">>", "[", "]", "(", ")", "<", ">", "/", "R",
        "null", "true", "false", "0", "1", "-1", "65535", "2147483648", "/Type", "/Pages", "/Kids", "/Count", "/Length", "/Filter",
        "/FlateDecode", "/Root", "/Size", "/Prev", "/W", "/Index", "/XRef", "/ObjStm", "/N", "/First", "f", "n", "%", "\n", "\r", " ", "\\",
        "/Catalog", "/Page", "/Parent", "/MediaBox", "/Resources", "/Contents", "/Font", "/Encrypt", "/ID", "BT", "ET", "Tj", "BI", "ID", "EI",
    ];
    let mut b = b"%PDF-1.".to_vec();
    b.push(b'0' + rng.below(8) as u8);
    b.push(b'\n');
    let n = rng.usize(200);
    for _ in 0..n {
        if rng.chance(1, 12) {
            b.extend_from_slice(&rng.bytes(1 + rng.clone().usize(6)));
        } else if rng.chance(1, 6) {
            b.extend_from_slice(format!("{} {} obj ", rng.below(6), rng.below(2)).as_bytes());
        } else {
            b.extend_from_slice(rng.pick(TOK).as_bytes());
        }
        if rng.chance(3, 4) {
            b.push(b' ');
        }
    }
    if rng.chance(1, 2) {
        b.extend_from_slice(format!("\nstartxref\n{}\n%%EOF", rng.below(b.len() as u64 + 3)).as_bytes());
    }
    b
}

/// deterministic regression witnesses of repaired defects, walked first on every run
fn witnesses() -> Vec<(String, Vec<u8>)> {
    let mut out = vec![];
    // 28a4efa: sampled function with a reversed /Domain interval (f32::clamp panicked with min > max)
    for case in 0..400u64 {
        let mut rng = Rng::derive(7, "c01.witness.domain", case);
        let d = docgen::gen_document(&mut rng);
        let pat = b"/FunctionType 0 /Domain [0 1 ";
        if let Some(i) = d.bytes.windows(pat.len()).position(|w| w == pat) {
            let mut b = d.bytes.clone();
            b[i + pat.len() - 4] = b'1';
            b[i + pat.len() - 2] = b'0';
            out.push(("sampled-function-reversed-domain".to_string(), b));
            if out.len() >= 3 { break; }
        }
    }
    out
}

fn build_cases(seed: u64, thorough: bool) -> (Vec<Case>, Vec<String>) {
    let mut cases = vec![];
    let mut notes = vec![];
    for (name, bytes) in witnesses() {
        for c in 0..4 {
            let (t, ca) = cfg(c);
            cases.push(Case { family: "witness", desc: name.clone(), doc: Doc { bytes: bytes.clone(), tolerant: t, cached: ca } });
        }
    }
    let fixtures = corpus::fixture_files();
    let scale = if thorough { 60 } else { 4 };
    let mut normalised: Vec<(String, Vec<u8>)> = vec![];
    for (name, bytes) in &fixtures {
        let short = name.rsplit('/').next().unwrap_or(name).to_string();
        for c in 0..4 {
            let (t, ca) = cfg(c);
            cases.push(Case { family: "fixtures", desc: short.clone(), doc: Doc { bytes: bytes.clone(), tolerant: t, cached: ca } });
        }
        if let Some(n) = corpus::normalise(bytes) {
            for c in [0u64, 3] {
                let (t, ca) = cfg(c);
                cases.push(Case { family: "normalised", desc: short.clone(), doc: Doc { bytes: n.clone(), tolerant: t, cached: ca } });
            }
            normalised.push((short, n));
        }
    }
    notes.push(format!("{} fixture files, {} of them normalised", fixtures.len(), normalised.len()));
    let small_raw: Vec<&(String, Vec<u8>)> = fixtures.iter().filter(|f| f.1.len() <= 120_000).collect();
    let small_norm: Vec<&(String, Vec<u8>)> = normalised.iter().filter(|f| f.1.len() <= 150_000).collect();
    for case in 0..(500 * scale) as u64 {
        let mut rng = Rng::derive(seed, "c01.bytes.raw", case);
        let (name, b) = *rng.pick(&small_raw);
        let m = corpus::mutate_bytes(&mut rng, b);
        let (t, ca) = cfg(rng.below(4));
        cases.push(Case { family: "bytes(raw)", desc: format!("{}#{}", name.rsplit('/').next().unwrap_or(name), case), doc: Doc { bytes: m, tolerant: t, cached: ca } });
    }
    if !small_norm.is_empty() {
        for case in 0..(700 * scale) as u64 {
            let mut rng = Rng::derive(seed, "c01.bytes.norm", case);
            let (name, b) = *rng.pick(&small_norm);
            let m = corpus::mutate_bytes(&mut rng, b);
            let (t, ca) = cfg(rng.below(4));
            cases.push(Case { family: "bytes(norm)", desc: format!("{}#{}", name, case), doc: Doc { bytes: m, tolerant: t, cached: ca } });
        }
        for case in 0..(1200 * scale) as u64 {
            let mut rng = Rng::derive(seed, "c01.tokens.norm", case);
            let (name, b) = *rng.pick(&small_norm);
            let m = corpus::mutate_tokens(&mut rng, b);
            let (t, ca) = cfg(rng.below(4));
            cases.push(Case { family: "tokens(norm)", desc: format!("{}#{}", name, case), doc: Doc { bytes: m, tolerant: t, cached: ca } });
        }
    }
    for case in 0..(900 * scale) as u64 {
        let mut rng = Rng::derive(seed, "c01.grammar", case);
        let d = docgen::gen_document(&mut rng);
        let bytes = match rng.below(4) {
            0 => d.bytes,
            1 => corpus::mutate_bytes(&mut rng, &d.bytes),
            _ => corpus::mutate_tokens(&mut rng, &d.bytes),
        };
        let (t, ca) = cfg(rng.below(4));
        cases.push(Case { family: "grammar", desc: format!("{}#{}", d.desc, case), doc: Doc { bytes, tolerant: t, cached: ca } });
    }
    for case in 0..(400 * scale) as u64 {
        let mut rng = Rng::derive(seed, "c01.soup", case);
        let bytes = if rng.chance(1, 5) { let n = rng.usize(600); rng.bytes(n) } else { soup(&mut rng) };
        let (t, ca) = cfg(rng.below(4));
        cases.push(Case { family: "soup", desc: format!("soup#{}", case), doc: Doc { bytes, tolerant: t, cached: ca } });
    }
    (cases, notes)
}

/// signature of a failure: the panic site, or the kind of death
fn classify(r: &DocResult) -> Option<(String, String)> {
    match &r.outcome {
        Outcome::Returned => None,
        Outcome::Panic(msg) => {
            // message @ file:line — keep the site (stable across inputs), drop the message
            let site = msg.rsplit(" @ ").next().unwrap_or("?").trim().to_string();
            let site = site.rsplit("/pdf/src/").next().map(|s| format!("pdf/src/{}", s)).unwrap_or(site);
            Some((format!("panic@{}", site), format!("panic: {}", trunc(msg))))
        }
        Outcome::Crash { status, stderr_tail } => {
            let kind = if stderr_tail.contains("stack overflow") || stderr_tail.contains("overflowed its stack") { "stack-overflow" }
                else if stderr_tail.contains("memory allocation") || stderr_tail.contains("capacity overflow") { "allocation-failure" }
                else { "abort" };
            Some((format!("crash:{}", kind), format!("process died ({}): {}", status, trunc(stderr_tail))))
        }
        Outcome::Timeout => Some(("timeout".into(), format!("no answer within the time limit ({} ms walked)", r.ms))),
        Outcome::NotRun(e) => Some(("harness-not-run".into(), e.clone())),
    }
}

pub fn run(driver: &Driver, seed: u64, thorough: bool, replay: Option<&serde_json::Value>) -> Report {
    if let Some(r) = replay {
        walker::maybe_child(r);
    }
    let mut rep = Report::new("C01");
    let limits = Limits { max_objects: 40, time_limit_ms: 20_000, mem_limit_mb: 1536, with_scan: true };
    if let Some(r) = replay {
        if r["stream"] == "c01.walk" {
            let bytes = unhex(r["file_hex"].as_str().unwrap_or("-")).unwrap_or_default();
            let (t, c) = (r["tolerant"].as_bool().unwrap_or(false), r["cached"].as_bool().unwrap_or(false));
            let res = walk_all(&[Doc { bytes, tolerant: t, cached: c }], limits);
            let mut or = Oracle::new("c01.walk");
            or.case("replay", true, || json!({"outcome": format!("{:?}", res[0].outcome)}));
            if let Some((sig, what)) = classify(&res[0]) {
                or.fail(&sig, &what, r.clone());
            }
            rep.oracles.push(or);
            return rep;
        }
        if let Some(st) = corr::replay(driver, r) {
            rep.streams.push(st);
            return rep;
        }
    }
    let (cases, notes) = build_cases(seed, thorough);
    rep.notes.extend(notes);
    let docs: Vec<Doc> = cases.iter().map(|c| c.doc.clone()).collect();
    let results = walk_all(&docs, limits);
    let mut or = Oracle::new("c01.walk");
    let mut calls_total: std::collections::BTreeMap<String, u64> = Default::default();
    let mut slowest = (0u64, String::new());
    for (c, r) in cases.iter().zip(results.iter()) {
        or.count(&format!("family={}", c.family));
        or.count(&format!("config={}{}", if c.doc.tolerant { "tolerant" } else { "strict" }, if c.doc.cached { "+cached" } else { "+uncached" }));
        or.count(&format!("outcome={}", match &r.outcome { Outcome::Returned => "returned", Outcome::Panic(_) => "panic", Outcome::Crash { .. } => "crash", Outcome::Timeout => "timeout", Outcome::NotRun(_) => "not-run" }));
        for (k, v) in &r.calls {
            *calls_total.entry(k.clone()).or_insert(0) += v;
        }
        if r.ms > slowest.0 {
            slowest = (r.ms, format!("{} [{} bytes]", c.desc, c.doc.bytes.len()));
        }
        // non-trivial: the walk got past opening the document (some typed call beyond `load` was made)
        let deep = r.calls.len() > 3;
        or.case(&format!("{}|{}|{}", hex(&c.doc.bytes[..c.doc.bytes.len().min(64)]), c.doc.bytes.len(), c.desc), deep, || json!({"family": c.family, "doc": c.desc, "bytes": c.doc.bytes.len(), "outcome": format!("{:?}", r.outcome), "ms": r.ms}));
        if let Some((sig, what)) = classify(r) {
            or.fail(&sig, &format!("{} / {} [{}{}]: {}", c.family, c.desc, if c.doc.tolerant { "tolerant" } else { "strict" }, if c.doc.cached { ", cached" } else { ", uncached" }, what),
                json!({"stream": "c01.walk", "seed": seed, "family": c.family, "doc": c.desc, "tolerant": c.doc.tolerant, "cached": c.doc.cached, "file_hex": hex(&c.doc.bytes)}));
        }
    }
    rep.extra.insert("entry_points_reached".into(), json!(calls_total));
    rep.extra.insert("slowest_document".into(), json!({"ms": slowest.0, "doc": slowest.1}));
    rep.oracles.push(or);
    rep.streams.extend(corr::streams(driver, seed, thorough));
    rep
}
