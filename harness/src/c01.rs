//! C01 — reading arbitrary bytes never panics, aborts or hangs.
//!
//! Oracle `c01.walk`: the walker of harness/src/walker.rs (open → every object by number as every root type →
//! pages, inherited attributes, resources, fonts with widths and Unicode maps, images, forms, operations,
//! annotations, name / number trees, outlines, `scan`) runs in child processes with a per-document time and
//! address-space limit, × {strict, tolerant} × {cached, uncached}, on
//!   fixtures          every file under <repo>/files (valid files and past fuzz crashes), all four configurations
//!   normalised        the same files re-written with every stream decoded and a classic table (corpus.rs)
//!   bytes(raw)        byte-level mutations of the fixtures (flips, splices, truncation, delimiter injection)
//!   bytes(norm)       byte-level mutations of the normalised files: reach the logic that hides behind Flate
//!   tokens(norm)      token-level mutations of the normalised files: numeric tokens → boundary values, names
//!                     swapped from a dictionary of PDF keys, tokens deleted / duplicated, references re-pointed
//!   grammar           documents from the grammar-directed generator (docgen.rs), plain and mutated
//!   soup              `%PDF-` followed by random token soup / random bytes
//!   witness           deterministic documents that stress the native stack and the loops of the lexical core
//!                     (300000 line continuations in a string, 200000 nested arrays, 300000 comments, …):
//!                     regression witnesses of the repaired defects
//! A document counts as a failure when any call panics, the child dies (stack overflow, abort, allocation
//! failure) or the walk exceeds its time limit. Failures are classified by the panic site (`file:line`) or by
//! the kind of death; the replay file holds the bytes and the configuration.
//!
//! Correspondence streams for the lexical / syntactic core (model = Model/Lexer, StrLexer, Parser, ContentLoop,
//! XrefTable) and the function-level oracle `c01.entry` live in c01_corr.rs; every input of those streams is in
//! C01's domain.

use crate::c14::walker::{self, Doc, DocResult, Limits, Outcome};
use crate::corpus;
use crate::docgen;
use crate::driver::{hex, unhex, Driver};
use crate::report::*;
use crate::rng::Rng;
use serde_json::json;

#[path = "c01_corr.rs"]
pub mod corr;
#[path = "c01_api.rs"]
pub mod api;
#[path = "c01_typed.rs"]
pub mod typed;

struct Case {
    family: &'static str,
    desc: String,
    doc: Doc,
}

fn cfg(i: u64) -> (bool, bool) {
    (i & 1 == 1, i & 2 == 2)
}

fn walk_all(docs: &[Doc], limits: Limits) -> Vec<DocResult> {
    walk_chunked(docs, limits, 200)
}

fn walk_chunked(docs: &[Doc], limits: Limits, max_chunk: usize) -> Vec<DocResult> {
    let threads = std::thread::available_parallelism().map(|n| n.get()).unwrap_or(4).clamp(2, 14);
    let chunk = ((docs.len() + threads * 4 - 1) / (threads * 4)).clamp(1, max_chunk);
    let chunks: Vec<&[Doc]> = docs.chunks(chunk).collect();
    let next = std::sync::atomic::AtomicUsize::new(0);
    let results: Vec<std::sync::Mutex<Vec<DocResult>>> = chunks.iter().map(|_| std::sync::Mutex::new(vec![])).collect();
    std::thread::scope(|s| {
        for _ in 0..threads {
            s.spawn(|| loop {
                let i = next.fetch_add(1, std::sync::atomic::Ordering::SeqCst);
                if i >= chunks.len() {
                    break;
                }
                let r = walker::run_batch("C01", chunks[i], limits);
                *results[i].lock().unwrap() = r;
            });
        }
    });
    results.into_iter().flat_map(|m| m.into_inner().unwrap()).collect()
}

fn soup(rng: &mut Rng) -> Vec<u8> {
    const TOK: &[&str] = &[
        "obj", "endobj", "stream", "endstream", "xref", "trailer", "startxref", "%%EOF", "<<", ">>", "[", "]", "(", ")", "<", ">", "/", "R",
        "null", "true", "false", "0", "1", "-1", "65535", "2147483648", "/Type", "/Pages", "/Kids", "/Count", "/Length", "/Filter",
        "/FlateDecode", "/Root", "/Size", "/Prev", "/W", "/Index", "/XRef", "/ObjStm", "/N", "/First", "f", "n", "%", "\n", "\r", " ", "\\",
        "/Catalog", "/Page", "/Parent", "/MediaBox", "/Resources", "/Contents", "/Font", "/Encrypt", "/ID", "BT", "ET", "Tj", "BI", "ID", "EI",
    ];
    let mut b = b"%PDF-1.".to_vec();
    b.push(b'0' + rng.below(8) as u8);
    b.push(b'\n');
    let n = rng.usize(200);
    for _ in 0..n {
        if rng.chance(1, 12) {
            b.extend_from_slice(&rng.bytes(1 + rng.clone().usize(6)));
        } else if rng.chance(1, 6) {
            b.extend_from_slice(format!("{} {} obj ", rng.below(6), rng.below(2)).as_bytes());
        } else {
            b.extend_from_slice(rng.pick(TOK).as_bytes());
        }
        if rng.chance(3, 4) {
            b.push(b' ');
        }
    }
    if rng.chance(1, 2) {
        b.extend_from_slice(format!("\nstartxref\n{}\n%%EOF", rng.below(b.len() as u64 + 3)).as_bytes());
    }
    b
}

/// a classic-table document with the given object bodies (object 1 is the catalog, 2 the page tree)
fn tiny_doc(extra: &[Vec<u8>]) -> Vec<u8> {
    tiny_doc_pages(b"<</Type/Pages/Kids[]/Count 0>>", extra)
}

fn tiny_doc_pages(pages: &[u8], extra: &[Vec<u8>]) -> Vec<u8> {
    let mut objs: Vec<Vec<u8>> = vec![b"<</Type/Catalog/Pages 2 0 R>>".to_vec(), pages.to_vec()];
    objs.extend(extra.iter().cloned());
    let mut b = b"%PDF-1.4\n".to_vec();
    let mut offs = vec![];
    for (i, o) in objs.iter().enumerate() {
        offs.push(b.len());
        b.extend_from_slice(format!("{} 0 obj\n", i + 1).as_bytes());
        b.extend_from_slice(o);
        b.extend_from_slice(b"\nendobj\n");
    }
    let x = b.len();
    b.extend_from_slice(format!("xref\n0 {}\n0000000000 65535 f \n", objs.len() + 1).as_bytes());
    for o in offs {
        b.extend_from_slice(format!("{:010} 00000 n \n", o).as_bytes());
    }
    b.extend_from_slice(format!("trailer\n<</Size {}/Root 1 0 R>>\nstartxref\n{}\n%%EOF", objs.len() + 1, x).as_bytes());
    b
}

/// a document whose only cross-reference section is a stream with the given /W, extra entries and data
fn xref_stream_doc(w: &str, extra: &str, data: &[u8]) -> Vec<u8> {
    let mut b = b"%PDF-1.5\n1 0 obj\n<</Type/Catalog/Pages 2 0 R>>\nendobj\n2 0 obj\n<</Type/Pages/Kids[]/Count 0>>\nendobj\n".to_vec();
    let x = b.len();
    b.extend_from_slice(format!("3 0 obj\n<</Type/XRef/Size 4/Root 1 0 R/W{}{}/Length {}>>\nstream\n", w, extra, data.len()).as_bytes());
    b.extend_from_slice(data);
    b.extend_from_slice(format!("\nendstream\nendobj\nstartxref\n{}\n%%EOF", x).as_bytes());
    b
}

fn repeat(piece: &[u8], n: usize, head: &[u8], tail: &[u8]) -> Vec<u8> {
    let mut v = head.to_vec();
    for _ in 0..n {
        v.extend_from_slice(piece);
    }
    v.extend_from_slice(tail);
    v
}

/// Deterministic documents that stress the *native stack* and the loops of the lexical core: regression
/// witnesses of the defects this package repaired (the run of line continuations overflowed the stack) and
/// of the bounds the theorems state (nesting limit, loops that consume input).
fn witness_docs() -> Vec<(&'static str, Vec<u8>)> {
    let k = 300_000;
    vec![
        ("string with 300000 line continuations (LF)", tiny_doc(&[repeat(b"\\\n", k, b"(", b"x)")])),
        ("string with 300000 line continuations (CR)", tiny_doc(&[repeat(b"\\\r", k, b"(", b"x)")])),
        ("string with 300000 line continuations (CR LF), unterminated", tiny_doc(&[repeat(b"\\\r\n", k, b"(", b"")])),
        ("content stream holding a string with 300000 line continuations", {
            let body = repeat(b"\\\n", k, b"BT (", b"x) Tj ET");
            let mut o = format!("<</Length {}>>\nstream\n", body.len()).into_bytes();
            o.extend_from_slice(&body);
            o.extend_from_slice(b"\nendstream");
            let page = b"<</Type/Page/Parent 2 0 R/MediaBox[0 0 9 9]/Contents 3 0 R>>".to_vec();
            tiny_doc_pages(b"<</Type/Pages/Kids[4 0 R]/Count 1>>", &[o, page])
        }),
        ("array nested 200000 deep", tiny_doc(&[repeat(b"[", 200_000, b"", b"")])),
        ("dictionary nested 100000 deep", tiny_doc(&[repeat(b"<</A ", 100_000, b"", b"")])),
        ("300000 comments in front of a token", tiny_doc(&[repeat(b"%c\n", k, b"", b"7")])),
        ("string with 1000000 opening parentheses", tiny_doc(&[repeat(b"(", 1_000_000, b"(", b"")])),
        ("hexadecimal string of 1000000 white-space bytes", tiny_doc(&[repeat(b" ", 1_000_000, b"<", b"41>")])),
        ("name of 1000000 characters", tiny_doc(&[repeat(b"a", 1_000_000, b"/", b"")])),
        ("sampled function with /Domain [0 1 3 1] (min > max: f32::clamp panicked)",
            tiny_doc(&[b"<</FunctionType 0/Domain[0 1 3 1]/Range[0 1]/Size[2 2]/BitsPerSample 8/Length 4>>\nstream\n\x00\x40\x80\xff\nendstream".to_vec()])),
        ("trailer /Size 2147483647 (the table is sized from it)", {
            let d = tiny_doc(&[]);
            String::from_utf8_lossy(&d).replace("/Size 3", "/Size 2147483647").into_bytes()
        }),
        ("trailer /Size 1000001 (one above MAX_ID)", {
            let d = tiny_doc(&[]);
            String::from_utf8_lossy(&d).replace("/Size 3", "/Size 1000001").into_bytes()
        }),
        ("trailer /Prev that points at its own section", {
            let d = tiny_doc(&[]);
            let x = d.windows(6).position(|w| w == b"\nxref\n").map(|i| i + 1).unwrap_or(0);
            String::from_utf8_lossy(&d).replace("/Size 3", &format!("/Size 3/Prev {}", x)).into_bytes()
        }),
        ("xref entries with offsets 18446744073709551615 and 9999999999", {
            let d = tiny_doc(&[b"7".to_vec(), b"8".to_vec()]);
            let t = String::from_utf8_lossy(&d).to_string();
            let lines: Vec<&str> = t.lines().collect();
            let mut out = String::new();
            let mut seen = 0;
            for l in lines {
                if l.ends_with(" 00000 n ") { seen += 1; if seen == 3 { out.push_str("18446744073709551615 00000 n \n"); continue; } if seen == 4 { out.push_str("9999999999 00000 n \n"); continue; } }
                out.push_str(l); out.push('\n');
            }
            out.into_bytes()
        }),
        ("the same behind 6 bytes in front of the header (start offset + entry offset overflows)", {
            let d = tiny_doc(&[b"7".to_vec(), b"8".to_vec()]);
            let t = String::from_utf8_lossy(&d).to_string();
            let mut out = String::from("%junk\n");
            let mut seen = 0;
            for l in t.lines() {
                if l.ends_with(" 00000 n ") { seen += 1; if seen == 3 { out.push_str("18446744073709551615 00000 n \n"); continue; } if seen == 4 { out.push_str("18446744073709551610 00000 n \n"); continue; } }
                out.push_str(l); out.push('\n');
            }
            out.into_bytes()
        }),
        ("streams with corrupt data for every filter", {
            let st = |filter: &str, data: &[u8]| { let mut o = format!("<</Filter/{}/Length {}>>\nstream\n", filter, data.len()).into_bytes(); o.extend_from_slice(data); o.extend_from_slice(b"\nendstream"); o };
            tiny_doc(&[
                st("ASCII85Decode", b"uuuuu~>"), st("ASCII85Decode", b"zz!!~"), st("ASCII85Decode", b"!~>"),
                st("ASCIIHexDecode", b"4g>"), st("ASCIIHexDecode", b"4"), st("RunLengthDecode", &[5, 1, 2]), st("RunLengthDecode", &[200]),
                st("LZWDecode", &[0xff, 0xff, 0xff, 0x00]), st("FlateDecode", &[0x78, 0x9c, 0xff, 0xff]), st("FlateDecode", b""),
                st("DCTDecode", &[0xff, 0xd8, 0xff]), st("CCITTFaxDecode", &[0, 1, 2]), st("JBIG2Decode", &[0]), st("Crypt", b"x"),
            ])
        }),
        ("stream with /Length 2147483647", tiny_doc(&[b"<</Length 2147483647>>\nstream\nabc\nendstream".to_vec()])),
        ("stream whose /Length refers to itself", tiny_doc(&[b"<</Length 3 0 R>>\nstream\nabc\nendstream".to_vec()])),
        ("page tree with /Count 2147483647 and itself as kid", tiny_doc_pages(b"<</Type/Pages/Kids[2 0 R 2 0 R]/Count 2147483647>>", &[])),
        ("cross-reference stream with /W [0 0 0]", xref_stream_doc("[0 0 0]", "", b"")),
        ("cross-reference stream with /W [8 8 8] and /Index [0 4294967295]", xref_stream_doc("[8 8 8]", "/Index[0 4294967295]", &[1u8; 48])),
        ("cross-reference stream with /W [9 1 1]", xref_stream_doc("[9 1 1]", "", &[1u8; 33])),
        ("cross-reference stream with /W [1 2 1] and an entry of type 7", xref_stream_doc("[1 2 1]", "", &[0, 0, 0, 255, 1, 0, 9, 0, 7, 0, 20, 0])),
        ("object stream with /N 2147483647 /First 2147483647", tiny_doc(&[b"<</Type/ObjStm/N 2147483647/First 2147483647/Length 7>>\nstream\n5 0 (a)\nendstream".to_vec()])),
        ("xref subsection that claims 4294967295 entries", {
            let mut d = tiny_doc(&[]);
            let pat = b"xref\n0 3\n";
            if let Some(i) = d.windows(pat.len()).position(|w| w == pat) { d.splice(i..i + pat.len(), b"xref\n0 4294967295\n".iter().cloned()); }
            d
        }),
    ]
}

/// deterministic regression witnesses cut out of generated documents (added on main with fix 28a4efa)
fn generated_witnesses() -> Vec<(String, Vec<u8>)> {
    let mut out = vec![];
    // 28a4efa: sampled function with a reversed /Domain interval (f32::clamp panicked with min > max)
    for case in 0..400u64 {
        let mut rng = Rng::derive(7, "c01.witness.domain", case);
        let d = docgen::gen_document(&mut rng);
        let pat = b"/FunctionType 0 /Domain [0 1 ";
        if let Some(i) = d.bytes.windows(pat.len()).position(|w| w == pat) {
            let mut b = d.bytes.clone();
            b[i + pat.len() - 4] = b'1';
            b[i + pat.len() - 2] = b'0';
            out.push(("sampled-function-reversed-domain".to_string(), b));
            if out.len() >= 3 { break; }
        }
    }
    out
}

/// `corpus::normalise` runs the real library in this process: under a watchdog, so that a reader that hangs
/// is reported instead of hanging the check (`None`: no answer within 30 s; the thread is abandoned)
fn normalise_guarded(bytes: &[u8]) -> Option<Option<Vec<u8>>> {
    let b = bytes.to_vec();
    corr::with_timeout(30, move || corpus::normalise(&b))
}

struct PrepFailure {
    signature: String,
    what: String,
    replay: serde_json::Value,
}

fn build_cases(seed: u64, thorough: bool) -> (Vec<Case>, Vec<String>, Vec<PrepFailure>) {
    let mut cases = vec![];
    let mut notes = vec![];
    let mut prep = vec![];
    let mut normalise_hung = false;
    for (name, bytes) in generated_witnesses() {
        for c in 0..4 {
            let (t, ca) = cfg(c);
            cases.push(Case { family: "witness", desc: name.clone(), doc: Doc { bytes: bytes.clone(), tolerant: t, cached: ca } });
        }
    }
    for (desc, bytes) in witness_docs() {
        for c in [0u64, 3] {
            let (t, ca) = cfg(c);
            cases.push(Case { family: "witness", desc: desc.to_string(), doc: Doc { bytes: bytes.clone(), tolerant: t, cached: ca } });
        }
    }
    let fixtures = corpus::fixture_files();
    let scale = if thorough { 60 } else { 6 };
    let mut normalised: Vec<(String, Vec<u8>)> = vec![];
    for (name, bytes) in &fixtures {
        let short = name.rsplit('/').next().unwrap_or(name).to_string();
        for c in 0..4 {
            let (t, ca) = cfg(c);
            cases.push(Case { family: "fixtures", desc: short.clone(), doc: Doc { bytes: bytes.clone(), tolerant: t, cached: ca } });
        }
        let norm = if normalise_hung { None } else {
            match normalise_guarded(bytes) {
                Some(n) => n,
                None => {
                    normalise_hung = true;
                    notes.push(format!("reading fixture {} (load + resolve of every object, in-process) did not return within 30 s: fixtures are not normalised in this run", short));
                    prep.push(PrepFailure { signature: "timeout".into(), what: format!("fixtures / {}: loading the file and resolving its objects by number did not return within 30 s", short),
                        replay: json!({"stream": "c01.walk", "seed": seed, "family": "fixtures", "doc": short, "tolerant": true, "cached": false, "file_hex": hex(bytes)}) });
                    None
                }
            }
        };
        if let Some(n) = norm {
            for c in [0u64, 3] {
                let (t, ca) = cfg(c);
                cases.push(Case { family: "normalised", desc: short.clone(), doc: Doc { bytes: n.clone(), tolerant: t, cached: ca } });
            }
            normalised.push((short, n));
        }
    }
    notes.push(format!("{} fixture files, {} of them normalised", fixtures.len(), normalised.len()));
    let small_raw: Vec<&(String, Vec<u8>)> = fixtures.iter().filter(|f| f.1.len() <= 120_000).collect();
    let small_norm: Vec<&(String, Vec<u8>)> = normalised.iter().filter(|f| f.1.len() <= 150_000).collect();
    for case in 0..(500 * scale) as u64 {
        let mut rng = Rng::derive(seed, "c01.bytes.raw", case);
        let (name, b) = *rng.pick(&small_raw);
        let m = corpus::mutate_bytes(&mut rng, b);
        let (t, ca) = cfg(rng.below(4));
        cases.push(Case { family: "bytes(raw)", desc: format!("{}#{}", name.rsplit('/').next().unwrap_or(name), case), doc: Doc { bytes: m, tolerant: t, cached: ca } });
    }
    if !small_norm.is_empty() {
        for case in 0..(700 * scale) as u64 {
            let mut rng = Rng::derive(seed, "c01.bytes.norm", case);
            let (name, b) = *rng.pick(&small_norm);
            let m = corpus::mutate_bytes(&mut rng, b);
            let (t, ca) = cfg(rng.below(4));
            cases.push(Case { family: "bytes(norm)", desc: format!("{}#{}", name, case), doc: Doc { bytes: m, tolerant: t, cached: ca } });
        }
        for case in 0..(1200 * scale) as u64 {
            let mut rng = Rng::derive(seed, "c01.tokens.norm", case);
            let (name, b) = *rng.pick(&small_norm);
            let m = corpus::mutate_tokens(&mut rng, b);
            let (t, ca) = cfg(rng.below(4));
            cases.push(Case { family: "tokens(norm)", desc: format!("{}#{}", name, case), doc: Doc { bytes: m, tolerant: t, cached: ca } });
        }
    }
    for case in 0..(900 * scale) as u64 {
        let mut rng = Rng::derive(seed, "c01.grammar", case);
        let d = docgen::gen_document(&mut rng);
        let bytes = match rng.below(4) {
            0 => d.bytes,
            1 => corpus::mutate_bytes(&mut rng, &d.bytes),
            _ => corpus::mutate_tokens(&mut rng, &d.bytes),
        };
        let (t, ca) = cfg(rng.below(4));
        cases.push(Case { family: "grammar", desc: format!("{}#{}", d.desc, case), doc: Doc { bytes, tolerant: t, cached: ca } });
    }
    // encrypted documents of every handler variant (empty user password, so they open without one), plain and
    // mutated; one mutation shortens stored strings / stream data so that cipher texts lose their IV or padding
    for case in 0..(500 * scale) as u64 {
        let mut rng = Rng::derive(seed, "c01.encrypted", case);
        let opt = crate::c06::doc::rand_options(&mut rng);
        let owner = crate::c06::doc::rand_password(&mut rng, opt.variant.r);
        let d = crate::c06::doc::build(&mut rng, &opt, b"", &owner);
        let bytes = match rng.below(5) {
            0 => d.bytes.clone(),
            1 => corpus::mutate_bytes(&mut rng, &d.bytes),
            2 => corpus::mutate_tokens(&mut rng, &d.bytes),
            _ => corpus::shorten_strings(&mut rng, &d.bytes),
        };
        let (t, ca) = cfg(rng.below(4));
        cases.push(Case { family: "encrypted", desc: format!("{}#{}", d.desc, case), doc: Doc { bytes, tolerant: t, cached: ca } });
    }
    for case in 0..(400 * scale) as u64 {
        let mut rng = Rng::derive(seed, "c01.soup", case);
        let bytes = if rng.chance(1, 5) { let n = rng.usize(600); rng.bytes(n) } else { soup(&mut rng) };
        let (t, ca) = cfg(rng.below(4));
        cases.push(Case { family: "soup", desc: format!("soup#{}", case), doc: Doc { bytes, tolerant: t, cached: ca } });
    }
    (cases, notes, prep)
}

/// signature of a failure: the panic site, or the kind of death
fn classify(r: &DocResult) -> Option<(String, String)> {
    match &r.outcome {
        Outcome::Returned => None,
        Outcome::Panic(msg) => {
            // message @ file:line — keep the site (stable across inputs), drop the message
            let site = msg.rsplit(" @ ").next().unwrap_or("?").trim().to_string();
            let site = site.rsplit("/pdf/src/").next().map(|s| format!("pdf/src/{}", s)).unwrap_or(site);
            Some((format!("panic@{}", site), format!("panic: {}", trunc(msg))))
        }
        Outcome::Crash { status, stderr_tail } => {
            let kind = if stderr_tail.contains("stack overflow") || stderr_tail.contains("overflowed its stack") { "stack-overflow" }
                else if stderr_tail.contains("memory allocation") || stderr_tail.contains("capacity overflow") { "allocation-failure" }
                else { "abort" };
            Some((format!("crash:{}", kind), format!("process died ({}): {}", status, trunc(stderr_tail))))
        }
        Outcome::Timeout => Some(("timeout".into(), format!("no answer within the time limit ({} ms walked)", r.ms))),
        Outcome::NotRun(e) => Some(("harness-not-run".into(), e.clone())),
    }
}

pub fn run(driver: &Driver, seed: u64, thorough: bool, replay: Option<&serde_json::Value>) -> Report {
    if let Some(r) = replay {
        walker::maybe_child(r);
    }
    let mut rep = Report::new("C01");
    let limits = Limits { max_objects: 40, time_limit_ms: if thorough { 20_000 } else { 10_000 }, mem_limit_mb: 1536, with_scan: true };
    if let Some(r) = replay {
        if r["stream"] == "c01.walk" {
            let bytes = unhex(r["file_hex"].as_str().unwrap_or("-")).unwrap_or_default();
            let (t, c) = (r["tolerant"].as_bool().unwrap_or(false), r["cached"].as_bool().unwrap_or(false));
            let res = walk_all(&[Doc { bytes, tolerant: t, cached: c }], limits);
            let mut or = Oracle::new("c01.walk");
            or.case("replay", true, || json!({"outcome": format!("{:?}", res[0].outcome)}));
            if let Some((sig, what)) = classify(&res[0]) {
                or.fail(&sig, &what, r.clone());
            }
            rep.oracles.push(or);
            return rep;
        }
        if let Some((st, or)) = corr::replay(driver, r) {
            rep.streams.push(st);
            rep.oracles.push(or);
            return rep;
        }
    }
    let (mut cases, notes, prep) = build_cases(seed, thorough);
    rep.notes.extend(notes);
    let mut or = Oracle::new("c01.walk");
    for p in prep {
        or.fail(&p.signature, &p.what, p.replay);
    }
    // the deterministic documents first, in small batches: when many of them already fail (a reader that hangs or
    // dies on ordinary files) the verdict is settled and the thousands of generated documents, each of which
    // would run into the time limit, are not walked
    cases.sort_by_key(|c| !matches!(c.family, "witness" | "fixtures" | "normalised"));
    let n_first = cases.iter().filter(|c| matches!(c.family, "witness" | "fixtures" | "normalised")).count();
    let first_docs: Vec<Doc> = cases[..n_first].iter().map(|c| c.doc.clone()).collect();
    let mut results = walk_chunked(&first_docs, limits, 4);
    let bad_first = results.iter().filter(|r| r.outcome != Outcome::Returned).count();
    if bad_first >= 8 {
        rep.notes.push(format!("{} of the {} deterministic documents (witnesses, fixtures, normalised fixtures) fail: the {} mutated / generated documents were not walked", bad_first, n_first, cases.len() - n_first));
        cases.truncate(n_first);
    } else {
        let docs: Vec<Doc> = cases[n_first..].iter().map(|c| c.doc.clone()).collect();
        results.extend(walk_all(&docs, limits));
    }
    let mut calls_total: std::collections::BTreeMap<String, u64> = Default::default();
    let mut slowest = (0u64, String::new());
    for (c, r) in cases.iter().zip(results.iter()) {
        or.count(&format!("family={}", c.family));
        or.count(&format!("config={}{}", if c.doc.tolerant { "tolerant" } else { "strict" }, if c.doc.cached { "+cached" } else { "+uncached" }));
        or.count(&format!("outcome={}", match &r.outcome { Outcome::Returned => "returned", Outcome::Panic(_) => "panic", Outcome::Crash { .. } => "crash", Outcome::Timeout => "timeout", Outcome::NotRun(_) => "not-run" }));
        for (k, v) in &r.calls {
            *calls_total.entry(k.clone()).or_insert(0) += v;
        }
        if r.ms > slowest.0 {
            slowest = (r.ms, format!("{} [{} bytes]", c.desc, c.doc.bytes.len()));
        }
        // non-trivial: the walk got past opening the document (some typed call beyond `load` was made)
        let deep = r.calls.len() > 3;
        or.case(&format!("{}|{}|{}", hex(&c.doc.bytes[..c.doc.bytes.len().min(64)]), c.doc.bytes.len(), c.desc), deep, || json!({"family": c.family, "doc": c.desc, "bytes": c.doc.bytes.len(), "outcome": format!("{:?}", r.outcome), "ms": r.ms}));
        if let Some((sig, what)) = classify(r) {
            or.fail(&sig, &format!("{} / {} [{}{}]: {}", c.family, c.desc, if c.doc.tolerant { "tolerant" } else { "strict" }, if c.doc.cached { ", cached" } else { ", uncached" }, what),
                json!({"stream": "c01.walk", "seed": seed, "family": c.family, "doc": c.desc, "tolerant": c.doc.tolerant, "cached": c.doc.cached, "file_hex": hex(&c.doc.bytes)}));
        }
    }
    {
        // the public read interface of the crate (from the source, now) against what the walker called
        let (list, problems) = api::public_read_api(&crate::util::repo_root());
        let labels: std::collections::BTreeSet<String> = calls_total.keys().cloned().collect();
        let (reached, not_reached) = api::coverage(&list, &labels);
        for p in problems { rep.notes.push(format!("public_read_api: {}", p)); }
        rep.notes.push(format!("public read entry points (pub fn of the read-side types, from the source): {} listed, {} reached by the walker, {} not reached (extra.public_read_api)", list.len(), reached.len(), not_reached.len()));
        rep.extra.insert("public_read_api".into(), json!({"listed": list.len(), "reached": reached, "not_reached": not_reached,
            "rule": "pub fn in inherent impls of the read-side types of pdf/src (c01_api.rs: TYPES) and the methods of trait Resolve, minus constructors / writers / builders; a function counts as reached when a walker label stands for it (c01_api.rs: LABELS)"}));
    }
    rep.extra.insert("entry_points_reached".into(), json!(calls_total));
    rep.extra.insert("slowest_document".into(), json!({"ms": slowest.0, "doc": slowest.1}));
    rep.oracles.push(or);
    let (streams, entry) = corr::streams(driver, seed, thorough);
    rep.streams.extend(streams);
    rep.oracles.push(entry);
    rep
}
