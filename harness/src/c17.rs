//! C17 — bytes before the header do not change what is read.
//!
//! Correspondence streams (model = lean/PdfModel/Model/{OffLex,Offsets}.lean):
//!   c17.start.alllengths   `x`*L ++ `%PDF-…` for every L in 0..=1019 (exhaustive)   → locate_start_offset
//!   c17.start.prefixed     marker-free prefixes over all byte values / over the marker's own bytes, ending
//!                          in proper prefixes of the marker, L in 0..=1019 ++ a file-like tail
//!   c17.start.outside      marker at 1019..1030, in the prefix, twice, missing, buffers shorter than 5
//!   c17.xref.tail          conformant file ends (`startxref` EOL digits EOL `%%EOF` [EOL]) behind junk that
//!                          may itself contain `startxref`                            → locate_xref_offset
//!   c17.xref.outside       keyword missing / last 9 bytes / `+` sign / comments / overflow / delimiters
//!   c17.word.small         every string of length ≤ 3 over an 8-symbol alphabet       → Lexer::next
//!   c17.word.outside       random short strings over white-space, `%`, delimiters, letters, digits
//!   c17.usize.outside      random numerals around the sign and 2^64 rules             → Substr::to::<usize>
//!   c17.load               generated documents (classic and stream sections, /Prev chains, object
//!                          streams, direct / indirect-direct / indirect-compressed /Length) × prefixes:
//!                          the model's `openFile` + `resolveRef` with table-instantiated token parsers
//!                          against Storage::load_storage_and_trailer + resolve (+ file_range, raw length)
//!   c17.scanlist(.outside) the same documents × prefixes (and with a startxref beyond the file): the model's `scan`
//!                          with a word scanner as item parser against the items and stream ranges of Storage::scan
//!   c17.xrefc.tail/.outside the same buffers through `locateXrefC` (locate_xref_offset on the lexer of Model/Lexer.lean)
//!   c17.readobj            every object of generated documents behind a prefix, read in the call shape of resolve_ref's
//!                          direct branch (suffix at start + offset, lexer offset = that position, parse_indirect_object):
//!                          Model/Parser.lean (`c03.parse ind0`) against the implementation
//!   c17.xrefsec(.outside)  every cross-reference section of generated documents (classic tables and streams) read from its
//!                          suffix: Model/XrefTable + XrefStreamSection against read_xref_and_trailer_at (outside: cut short, entered late)
//!   c17.loadc(.outside)    whole files: header, startxref, all sections through /Prev, merged table and trailer:
//!                          XrefSec.loadTableC against Backend::read_xref_table_and_trailer (outside: damaged offsets / loops / sizes)
//!   c17.scanc / .corpus    the item loop of Storage::scan on the concrete lexer / parser (Model/ScanLoop.lean) against the
//!                          real iterator: items, order, values and stream ranges; generated documents and corpus files, with and without prefix
//!   c17.load.outside       the same documents with damaged offsets (beyond the file, near 2^64, /Prev loops,
//!                          bad /Size, index out of range, /Length pointing at the wrong kind)
//! Oracles (the implementation against the property itself):
//!   c17.header             locate_start_offset(p ++ f) = |p| for marker-free p, |p| ≤ 1019
//!   c17.prefix             corpus + generated files × prefixes: trailer, every object (streams by
//!                          dictionary and raw data), page count and page dictionaries identical for f and p ++ f
//!   c17.offset             the real parser, same suffix, lexer offset q against |p| + q: same value, ranges |p| further on
//!   c17.scan               `Storage::scan` lists the same items for f and p ++ f, and for generated files
//!                          exactly the objects that were written

#[path = "c17_common.rs"]
pub mod common;

use self::common::*;
use crate::driver::Driver;
use crate::pdfwrite::*;
use crate::report::*;
use crate::rng::Rng;
use crate::util::*;
use pdf::backend::Backend;
use pdf::file::{FileOptions, NoCache, NoLog, ScanItem, Storage};
use pdf::object::{ParseOptions, PlainRef, Resolve};
use pdf::parser::Lexer;
use pdf::primitive::Primitive;
use serde_json::{json, Value};
use std::panic::{catch_unwind, AssertUnwindSafe};

// ---------------------------------------------------------------------------------------------------
// prefixes

/// make `p` marker-free by breaking every occurrence of `%PDF-`
fn break_markers(p: &mut Vec<u8>) {
    while let Some(i) = p.windows(5).position(|w| w == HEADER) {
        p[i + 4] = b'_';
    }
}

/// A prefix of exactly `len` bytes that does not contain the marker. Styles: all byte values; the
/// marker's own bytes (near misses); text that looks like PDF (`startxref`, `%%EOF`, `obj`, `xref`);
/// each optionally ending in a proper prefix of the marker.
pub fn gen_prefix(rng: &mut Rng, len: usize) -> (Vec<u8>, &'static str) {
    let style = rng.below(4);
    let mut p: Vec<u8> = Vec::with_capacity(len);
    let name = match style {
        0 => {
            p = rng.bytes(len);
            "all-bytes"
        }
        1 => {
            for _ in 0..len {
                p.push(b"%PDF-%P"[rng.usize(7)]);
            }
            "marker-bytes"
        }
        2 => {
            const W: &[&[u8]] = &[b"startxref\n", b"%%EOF\n", b"1 0 obj\n", b"endobj\n", b"xref\n", b"trailer\n", b"<< /Size 3 >>\n", b"%PDF", b"stream\n", b"endstream\n", b"0000000000 65535 f \n", b"12345\n", b" ", b"\r\n", b"\0"];
            while p.len() < len {
                p.extend_from_slice(W[rng.usize(W.len())]);
            }
            p.truncate(len);
            "pdf-like"
        }
        _ => {
            let b = rng.byte();
            p.resize(len, b);
            "constant"
        }
    };
    if rng.chance(1, 3) && len > 0 {
        // end in a proper prefix of the marker
        let k = 1 + rng.usize(4.min(len));
        let l = p.len();
        p[l - k..].copy_from_slice(&HEADER[..k]);
    }
    break_markers(&mut p);
    debug_assert!(p.len() == len && !contains(&p, HEADER));
    (p, name)
}

fn pick_prefix_len(rng: &mut Rng) -> usize {
    match rng.below(10) {
        0 => 0,
        1 => 1,
        2 => 1019,
        3 => 1015 + rng.usize(5),
        4 => rng.usize(8),
        _ => rng.usize(1020),
    }
}

// ---------------------------------------------------------------------------------------------------
// the implementation side of the byte-level streams

fn real_start(buf: &Vec<u8>) -> String {
    match catch_unwind(AssertUnwindSafe(|| buf.locate_start_offset())) {
        Ok(Ok(n)) => format!("ok {}", n),
        Ok(Err(_)) => "err".into(),
        Err(_) => "panic".into(),
    }
}

fn real_xref(buf: &Vec<u8>) -> String {
    match catch_unwind(AssertUnwindSafe(|| buf.locate_xref_offset())) {
        Ok(Ok(n)) => format!("ok {}", n),
        Ok(Err(_)) => "err".into(),
        Err(_) => "panic".into(),
    }
}

fn real_word(buf: &[u8]) -> String {
    match catch_unwind(AssertUnwindSafe(|| {
        let mut lx = Lexer::new(buf);
        match lx.next() {
            Ok(s) => format!("ok {} {}", hex(s.as_slice()), lx.get_pos()),
            Err(_) => "err".to_string(),
        }
    })) {
        Ok(s) => s,
        Err(_) => "panic".into(),
    }
}

fn real_usize(buf: &[u8]) -> String {
    match catch_unwind(AssertUnwindSafe(|| pdf::parser::Substr::new(buf, 0).to::<usize>())) {
        Ok(Ok(n)) => format!("ok {}", n),
        Ok(Err(_)) => "err".into(),
        Err(_) => "panic".into(),
    }
}

fn run_stream(driver: &Driver, st: &mut Stream, cases: Vec<(String, String, bool)>) {
    let reqs: Vec<String> = cases.iter().map(|c| c.0.clone()).collect();
    let resp = driver.ask(&reqs);
    for ((rq, imp, nontrivial), m) in cases.iter().zip(resp.iter()) {
        st.count(&format!("outcome={}", m.split(' ').next().unwrap_or("")));
        st.case(rq, m, imp, *nontrivial);
    }
}

fn file_tail(rng: &mut Rng) -> Vec<u8> {
    let mut t = format!("1.{}\n", rng.below(8)).into_bytes();
    let n = rng.usize(60);
    for _ in 0..n {
        match rng.below(8) {
            0 => t.extend_from_slice(HEADER), // later markers must not matter
            1 => t.extend_from_slice(b"%PDF"),
            _ => t.push(rng.byte()),
        }
    }
    t
}

fn start_streams(driver: &Driver, seed: u64, thorough: bool, rep: &mut Report) {
    // exhaustive over the prefix length
    let mut st = Stream::new("c17.start.alllengths", true);
    st.exhaustive = true;
    let mut or = Oracle::new("c17.header");
    let mut cases = vec![];
    for l in 0..=1019usize {
        let mut b = vec![b'x'; l];
        b.extend_from_slice(b"%PDF-1.7\n");
        let imp = real_start(&b);
        or.case(&format!("x*{}", l), l > 0, || json!({"prefix": format!("x*{}", l), "impl": imp}));
        if imp != format!("ok {}", l) {
            or.fail("header-position", &format!("header behind {} bytes of 'x' located as {}", l, imp), json!({"stream": "c17.start.alllengths", "case": l, "seed": seed, "buf_hex": hex(&b)}));
        }
        cases.push((format!("c17.start {}", hex(&b)), imp, l > 0));
    }
    run_stream(driver, &mut st, cases);
    rep.streams.push(st);

    let mut st = Stream::new("c17.start.prefixed", true);
    let n = if thorough { 60_000 } else { 4000 };
    let mut cases = vec![];
    for case in 0..n {
        let mut rng = Rng::derive(seed, "c17.start.prefixed", case);
        let l = pick_prefix_len(&mut rng);
        let (p, style) = gen_prefix(&mut rng, l);
        let mut b = p.clone();
        b.extend_from_slice(HEADER);
        b.extend_from_slice(&file_tail(&mut rng));
        st.count(&format!("style={}", style));
        st.count(&format!("len={}", match l { 0 => "0", 1..=9 => "1-9", 10..=1014 => "10-1014", _ => "1015-1019" }));
        let tailk = (1..5).rev().find(|k| p.ends_with(&HEADER[..*k])).unwrap_or(0);
        st.count(&format!("ends-in-marker-prefix={}", tailk));
        let imp = real_start(&b);
        or.case(&hex(&p), l > 0, || json!({"prefix_len": l, "style": style, "impl": imp}));
        or.count(&format!("style={}", style));
        if imp != format!("ok {}", l) {
            or.fail("header-position", &format!("header behind a marker-free prefix of {} bytes located as {}", l, imp), json!({"stream": "c17.start.prefixed", "case": case, "seed": seed, "buf_hex": hex(&b)}));
        }
        cases.push((format!("c17.start {}", hex(&b)), imp, l > 0));
    }
    run_stream(driver, &mut st, cases);
    rep.streams.push(st);
    rep.oracles.push(or);

    let mut st = Stream::new("c17.start.outside", false);
    let mut cases = vec![];
    // the window boundary, exhaustively: marker at 1015..=1030, with and without a second marker behind
    for pos in 1010..=1030usize {
        for tail in 0..3 {
            let mut b = vec![b'%'; pos];
            b.extend_from_slice(HEADER);
            match tail { 0 => {}, 1 => b.extend_from_slice(b"1.4\n"), _ => { b.extend_from_slice(b"1.4\n"); b.extend_from_slice(HEADER); } }
            cases.push((format!("c17.start {}", hex(&b)), real_start(&b), true));
        }
    }
    let n = if thorough { 30_000 } else { 800 };
    for case in 0..n {
        let mut rng = Rng::derive(seed, "c17.start.outside", case);
        let b: Vec<u8> = match rng.below(6) {
            0 => { let l = rng.usize(7); (0..l).map(|_| b"%PDF-"[rng.usize(5)]).collect() }
            1 => { let l = rng.usize(1100); (0..l).map(|_| b"%PDF-x"[rng.usize(6)]).collect() }
            2 => { let l = rng.usize(1100); rng.bytes(l) }
            3 => {
                // marker inside the prefix and again later
                let l = rng.usize(1030);
                let mut b = rng.bytes(l);
                let at = rng.usize(l + 1);
                b.splice(at..at, HEADER.iter().cloned());
                b.extend_from_slice(HEADER);
                b
            }
            4 => { let l = 1015 + rng.usize(20); let (mut p, _) = gen_prefix(&mut rng, l); p.extend_from_slice(HEADER); p }
            _ => { let l = rng.usize(1200); let (p, _) = gen_prefix(&mut rng, l); p } // no marker at all
        };
        cases.push((format!("c17.start {}", hex(&b)), real_start(&b), !b.is_empty()));
    }
    run_stream(driver, &mut st, cases);
    rep.streams.push(st);
}

fn xref_tail(rng: &mut Rng, conformant: bool) -> (Vec<u8>, String) {
    let eols: [&[u8]; 3] = [b"\n", b"\r\n", b"\r"];
    let mut b = vec![];
    // junk in front: earlier revisions with their own startxref, binary bytes
    let nj = rng.usize(4);
    for _ in 0..nj {
        match rng.below(4) {
            0 => b.extend_from_slice(format!("startxref\n{}\n%%EOF\n", rng.below(100000)).as_bytes()),
            1 => { let l = rng.usize(40); b.extend_from_slice(&rng.bytes(l)) }
            2 => b.extend_from_slice(b"trailer\n<< /Size 4 >>\n"),
            _ => b.extend_from_slice(b"startxre startxref"),
        }
    }
    let digits = match rng.below(5) {
        0 => "0".to_string(),
        1 => format!("{}", rng.below(1000)),
        2 => format!("{}", rng.next() % 10_000_000_000),
        3 => format!("{:010}", rng.below(100000)),
        _ => format!("{}", rng.below(1 << 20)),
    };
    if conformant {
        b.extend_from_slice(b"startxref");
        b.extend_from_slice(eols[rng.usize(3)]);
        b.extend_from_slice(digits.as_bytes());
        b.extend_from_slice(eols[rng.usize(3)]);
        b.extend_from_slice(b"%%EOF");
        if rng.chance(2, 3) { b.extend_from_slice(eols[rng.usize(3)]); }
        return (b, "conformant".into());
    }
    let kind = rng.below(12);
    let what = match kind {
        0 => { b.extend_from_slice(b"startxref"); "keyword-last" }
        1 => { b.extend_from_slice(b"startxref\n"); "nothing-behind" }
        2 => { b.extend_from_slice(format!("startxref\n+{}\n%%EOF", digits).as_bytes()); "plus-sign" }
        3 => { b.extend_from_slice(format!("startxref\n-{}\n%%EOF", digits).as_bytes()); "minus-sign" }
        4 => { b.extend_from_slice(format!("startxref %c {}\n{}\n%%EOF", digits, rng.below(99)).as_bytes()); "comment" }
        5 => { b.extend_from_slice(format!("startxref %c {}", digits).as_bytes()); "comment-no-eol" }
        6 => { b.extend_from_slice(format!("startxref\n1844674407370955161{}\n%%EOF", rng.below(10)).as_bytes()); "around-2^64" }
        7 => { b.extend_from_slice(format!("startxref\n{}{}%%EOF", digits, ["(", "<<", "/", "[", "%"][rng.usize(5)]).as_bytes()); "delimiter-behind" }
        8 => { b.extend_from_slice(format!("startxref{}\n%%EOF", digits).as_bytes()); "no-separator" }
        9 => { b.extend_from_slice(format!("startxref\n{}", digits).as_bytes()); "digits-last" }
        10 => { b.extend_from_slice(format!("startxref\n<<{}", digits).as_bytes()); "delimiter-first" }
        _ => { let l = rng.usize(30); for _ in 0..l { b.push(b"startxref \n%1+"[rng.usize(14)]); } "soup" }
    };
    (b, what.to_string())
}

fn xref_streams(driver: &Driver, seed: u64, thorough: bool, rep: &mut Report) {
    for (name, conformant, n) in [("c17.xref.tail", true, if thorough { 40_000 } else { 4000 }), ("c17.xref.outside", false, if thorough { 40_000 } else { 4000 })] {
        let mut st = Stream::new(name, conformant);
        let mut cases = vec![];
        let mut cases_c = vec![];
        for case in 0..n {
            let mut rng = Rng::derive(seed, name, case);
            let (b, what) = xref_tail(&mut rng, conformant);
            st.count(&format!("kind={}", what));
            cases.push((format!("c17.xref {}", hex(&b)), real_xref(&b), true));
            cases_c.push((format!("c17.xrefc {}", hex(&b)), real_xref(&b), true));
        }
        run_stream(driver, &mut st, cases);
        rep.streams.push(st);
        // the same buffers through `locateXrefC` (the lexer of Model/Lexer.lean)
        let mut stc = Stream::new(&name.replace("c17.xref", "c17.xrefc"), conformant);
        run_stream(driver, &mut stc, cases_c);
        rep.streams.push(stc);
    }
}

fn word_streams(driver: &Driver, seed: u64, thorough: bool, rep: &mut Report) {
    let mut st = Stream::new("c17.word.small", false);
    st.exhaustive = true;
    const A: &[u8] = b" \n%/<>a1";
    let mut cases = vec![];
    let maxlen = if thorough { 5 } else { 3 };
    let mut total = 0usize;
    for l in 0..=maxlen { total += A.len().pow(l as u32); }
    let mut idx = 0usize;
    for l in 0..=maxlen {
        for c in 0..A.len().pow(l as u32) {
            let mut x = c;
            let b: Vec<u8> = (0..l).map(|_| { let d = A[x % A.len()]; x /= A.len(); d }).collect();
            cases.push((format!("c17.word {}", hex(&b)), real_word(&b), l > 0));
            idx += 1;
        }
    }
    debug_assert_eq!(idx, total);
    run_stream(driver, &mut st, cases);
    rep.streams.push(st);

    let mut st = Stream::new("c17.word.outside", false);
    let n = if thorough { 100_000 } else { 4000 };
    const B: &[u8] = b" \n\r\t\0%%/<<>>()[]{}ab19+-.R\x0c\xff";
    let mut cases = vec![];
    for case in 0..n {
        let mut rng = Rng::derive(seed, "c17.word.outside", case);
        let l = rng.usize(14);
        let b: Vec<u8> = (0..l).map(|_| B[rng.usize(B.len())]).collect();
        cases.push((format!("c17.word {}", hex(&b)), real_word(&b), l > 0));
    }
    run_stream(driver, &mut st, cases);
    rep.streams.push(st);

    let mut st = Stream::new("c17.usize.outside", false);
    let n = if thorough { 50_000 } else { 2000 };
    let mut cases = vec![];
    for case in 0..n {
        let mut rng = Rng::derive(seed, "c17.usize.outside", case);
        let b: Vec<u8> = match rng.below(5) {
            0 => { let l = rng.usize(5); (0..l).map(|_| b"+-0129 a"[rng.usize(8)]).collect() }
            1 => format!("{}", rng.next()).into_bytes(),
            2 => format!("1844674407370955{}", rng.below(10000)).into_bytes(),
            3 => format!("+{:025}", rng.below(1 << 40)).into_bytes(),
            _ => { let l = 18 + rng.usize(5); (0..l).map(|_| b"0123456789"[rng.usize(10)]).collect() }
        };
        cases.push((format!("c17.usize {}", hex(&b)), real_usize(&b), !b.is_empty()));
    }
    run_stream(driver, &mut st, cases);
    rep.streams.push(st);
}

// ---------------------------------------------------------------------------------------------------
// generated documents

#[derive(Clone, Debug)]
pub enum LenHow {
    Direct,
    IndirectDirect,
    IndirectCompressed,
}

#[derive(Clone, Debug)]
pub enum Written {
    /// plain object: marker (`None` when the body is a rich value text), is-integer
    Plain { id: u64, off: u64, marker: Option<u64>, is_int: bool },
    /// stream object: data position relative to `off`, length, how /Length is written (+ object number)
    Stream { id: u64, off: u64, marker: u64, rel: u64, len: u64, how: LenHow, len_id: u64, n: u64, first: u64 },
}

pub struct GenDoc {
    pub bytes: Vec<u8>, // without prefix: offsets are relative to the header at 0
    pub written: Vec<Written>,
    /// per revision: (xref offset, subsections in model notation, size, prev, trailer marker)
    pub sections: Vec<(u64, String, String, String, u64)>,
    pub size: u64,
    pub desc: String,
    pub has_catalog: bool,
    /// object numbers in file order of everything `scan` must list up to the newest xref section
    pub scan_ids: Vec<u64>,
}

fn show_entry(e: &Entry) -> String {
    match e {
        Entry::Free { next, gen } => format!("f.{}.{}", next, gen),
        Entry::InUse { off, gen } => format!("r.{}.{}", off, gen),
        Entry::Compressed { stm, idx } => format!("s.{}.{}", stm, idx),
    }
}

fn show_subs(subs: &[(u64, Vec<Entry>)]) -> String {
    if subs.is_empty() {
        return "-".into();
    }
    subs.iter().map(|(f, es)| format!("{}:{}", f, if es.is_empty() { "-".to_string() } else { es.iter().map(show_entry).collect::<Vec<_>>().join(",") })).collect::<Vec<_>>().join(";")
}

/// damage applied to a generated document (the `outside` stream)
#[derive(Clone, Copy, Debug, PartialEq)]
pub enum Damage {
    None,
    StartxrefBeyond,
    StartxrefHuge,
    EntryBeyond,
    EntryHuge,
    PrevLoop,
    PrevBeyond,
    SizeHuge,
    IndexOutOfRange,
    LengthWrongKind,
    LengthTooLong,
}

/// `rich`: bodies are value texts of every kind, object streams are filtered, a catalog is present
/// (oracle streams); otherwise bodies are markers and object streams unfiltered (c17.load).
pub fn gen_doc(rng: &mut Rng, rich: bool, damage: Damage) -> GenDoc {
    let mut w = PdfWriter::new(b"", "1.7");
    let nrev = 1 + rng.usize(if rich { 3 } else { 4 });
    let mut next_id = 1u64;
    let mut marker = 1000u64;
    let mut written = vec![];
    let mut sections: Vec<(u64, String, String, String, u64)> = vec![];
    let mut desc = String::new();
    let mut scan_ids = vec![];
    let mut plain_ids: Vec<u64> = vec![];
    let has_catalog = rich && rng.chance(1, 2);
    let mut size = 0;
    for rev in 0..nrev {
        desc.push_str(&format!("[rev{}:", rev));
        let mut want_stream_fmt = rng.chance(1, 2);
        if rev == 0 {
            w.free(0, 0, 65535);
            if has_catalog {
                // 1 catalog, 2 pages, 3 page, 4 content stream
                let ids = [next_id, next_id + 1, next_id + 2, next_id + 3];
                next_id += 4;
                let off = w.object(ids[0], 0, format!("<< /Type /Catalog /Pages {} 0 R >>", ids[1]).as_bytes());
                written.push(Written::Plain { id: ids[0], off, marker: None, is_int: false });
                let off = w.object(ids[1], 0, format!("<< /Type /Pages /Kids [{} 0 R] /Count 1 >>", ids[2]).as_bytes());
                written.push(Written::Plain { id: ids[1], off, marker: None, is_int: false });
                let off = w.object(ids[2], 0, format!("<< /Type /Page /Parent {} 0 R /MediaBox [0 0 {} 792] /Contents {} 0 R /Resources << >> >>", ids[1], 500 + rng.below(200), ids[3]).as_bytes());
                written.push(Written::Plain { id: ids[2], off, marker: None, is_int: false });
                let data = b"q 1 0 0 1 10 10 cm Q\n";
                marker += 1;
                let hdr = format!("{} 0 obj\n", ids[3]);
                let dict = format!("<< /Marker {} /Length {} >>", marker, data.len());
                let mut body = dict.clone().into_bytes();
                body.extend_from_slice(b"\nstream\n");
                body.extend_from_slice(data);
                body.extend_from_slice(b"\nendstream");
                let off = w.object(ids[3], 0, &body);
                written.push(Written::Stream { id: ids[3], off, marker, rel: (hdr.len() + dict.len() + 8) as u64, len: data.len() as u64, how: LenHow::Direct, len_id: 0, n: 0, first: 0 });
                scan_ids.extend_from_slice(&ids);
                desc.push_str(" catalog");
            }
        }
        // plain objects
        let nplain = 1 + rng.usize(4);
        let mut compressed: Vec<(u64, Vec<u8>, Option<u64>)> = vec![];
        for _ in 0..nplain {
            // an update may only replace an earlier *plain* object (never a length, a stream, a container)
            let id = if rev > 0 && rng.chance(1, 3) && !plain_ids.is_empty() { *rng.pick(&plain_ids) } else { let x = next_id; next_id += 1; plain_ids.push(x); x };
            marker += 1;
            let (body, mk, is_int): (Vec<u8>, Option<u64>, bool) = if rich {
                let v = value_text(rng, 2);
                desc.push_str(&format!(" {}={}", id, v.kind));
                (v.text, None, v.kind == "integer")
            } else {
                match rng.below(3) {
                    0 => (format!("{}", marker).into_bytes(), Some(marker), true),
                    1 => (format!("<< /Marker {} >>", marker).into_bytes(), Some(marker), false),
                    _ => (format!("[ {} /x ]", marker).into_bytes(), Some(marker), false),
                }
            };
            if rng.chance(2, 5) && (rich || is_int) {
                compressed.push((id, body, mk));
                want_stream_fmt = true;
                desc.push_str(&format!(" {}:c", id));
            } else {
                let off = w.object(id, 0, &body);
                written.push(Written::Plain { id, off, marker: mk, is_int });
                scan_ids.push(id);
                desc.push_str(&format!(" {}:d", id));
            }
        }
        // object stream
        let mut pending_len_compressed: Vec<(u64, u64)> = vec![]; // (len object id, value) to go into the object stream
        // stream objects with the three kinds of /Length
        let nstreams = rng.usize(3);
        let mut stream_jobs = vec![];
        for _ in 0..nstreams {
            let id = next_id;
            next_id += 1;
            let dlen = rng.usize(40);
            let data: Vec<u8> = if rng.chance(1, 2) { rng.bytes(dlen) } else { (0..dlen).map(|_| b"endstream obj\n%"[rng.usize(15)]).collect() };
            let how = match rng.below(3) { 0 => LenHow::Direct, 1 => LenHow::IndirectDirect, _ => LenHow::IndirectCompressed };
            let len_id = match how { LenHow::Direct => 0, _ => { let x = next_id; next_id += 1; x } };
            if let LenHow::IndirectCompressed = how {
                pending_len_compressed.push((len_id, data.len() as u64));
                want_stream_fmt = true;
            }
            stream_jobs.push((id, data, how, len_id));
        }
        if !compressed.is_empty() || !pending_len_compressed.is_empty() {
            let stm = next_id;
            next_id += 1;
            let mut members: Vec<(u64, Vec<u8>)> = compressed.iter().map(|(id, b, _)| (*id, b.clone())).collect();
            for (lid, v) in &pending_len_compressed {
                let at = rng.usize(members.len() + 1);
                members.insert(at, (*lid, format!("{}", v).into_bytes()));
            }
            let filter = if rich { *rng.pick(&[StmFilter::None, StmFilter::Flate, StmFilter::HexFlate]) } else { StmFilter::None };
            let sep: &[u8] = match rng.below(3) { 0 => b" ", 1 => b"\n", _ => b"" };
            // without a separator two numbers would run together: only the last member may go without
            let sep: &[u8] = if sep.is_empty() { b" " } else { sep };
            marker += 1;
            let mut head = String::new();
            let mut o = 0usize;
            for (id, b) in &members {
                head.push_str(&format!("{} {} ", id, o));
                o += b.len() + sep.len();
            }
            let first = head.len() as u64;
            let mut idx_out_of_range = false;
            if damage == Damage::IndexOutOfRange { idx_out_of_range = true; }
            let off = w.object_stream(stm, &members, filter, sep, &format!("/Marker {}", marker));
            if idx_out_of_range {
                // re-point the first member beyond the stream's members
                if let Some(e) = w.cur.iter_mut().find(|e| matches!(e.1, Entry::Compressed { .. })) {
                    e.1 = Entry::Compressed { stm, idx: members.len() as u64 + rng.below(3) };
                }
            }
            // where the data begins
            let body_start = w.out[off as usize..].windows(7).position(|x| x == b"stream\n").unwrap() as u64 + 7;
            let data_len = {
                // /Length is the last dictionary entry written by stream_body
                let s = &w.out[off as usize..off as usize + body_start as usize];
                let txt = String::from_utf8_lossy(s).to_string();
                let i = txt.rfind("/Length ").unwrap() + 8;
                txt[i..].split(' ').next().unwrap().parse::<u64>().unwrap()
            };
            written.push(Written::Stream { id: stm, off, marker, rel: body_start, len: data_len, how: LenHow::Direct, len_id: 0, n: members.len() as u64, first });
            scan_ids.push(stm);
            desc.push_str(&format!(" objstm{}[{}]{:?}", stm, members.len(), filter));
        }
        for (id, data, how, len_id) in stream_jobs {
            marker += 1;
            let mut declared = data.len() as u64;
            if damage == Damage::LengthTooLong { declared += 100_000; }
            let len_txt = match how { LenHow::Direct => format!("{}", declared), _ => format!("{} 0 R", len_id) };
            let hdr = format!("{} 0 obj\n", id);
            let dict = format!("<< /Marker {} /Length {} >>", marker, len_txt);
            let eol: &[u8] = if rng.chance(1, 3) { b"\r\n" } else { b"\n" };
            let mut body = dict.clone().into_bytes();
            body.extend_from_slice(b"\nstream");
            body.extend_from_slice(eol);
            body.extend_from_slice(&data);
            body.extend_from_slice(b"\nendstream");
            let off = w.object(id, 0, &body);
            written.push(Written::Stream { id, off, marker, rel: (hdr.len() + dict.len() + 7 + eol.len()) as u64, len: declared, how: how.clone(), len_id, n: 0, first: 0 });
            scan_ids.push(id);
            if let LenHow::IndirectDirect = how {
                if damage == Damage::LengthWrongKind {
                    let off = w.object(len_id, 0, format!("<< /Marker {} /Not /AnInteger >>", declared).as_bytes());
                    written.push(Written::Plain { id: len_id, off, marker: Some(declared), is_int: false });
                } else {
                    let off = w.object(len_id, 0, format!("{}", declared).as_bytes());
                    written.push(Written::Plain { id: len_id, off, marker: Some(declared), is_int: true });
                }
                scan_ids.push(len_id);
            }
            desc.push_str(&format!(" stream{}:{:?}", id, how));
        }
        // damage to entries
        if damage == Damage::EntryBeyond || damage == Damage::EntryHuge {
            if let Some(e) = w.cur.iter_mut().find(|e| matches!(e.1, Entry::InUse { .. })) {
                let total = w.out.len() as u64;
                e.1 = Entry::InUse { off: if damage == Damage::EntryHuge { u64::MAX - rng.below(1200) } else { total + 5000 + rng.below(100) }, gen: 0 };
            }
        }
        let fmt = if want_stream_fmt { XrefFormat::Stream } else { XrefFormat::Classic };
        let xref_id = if fmt == XrefFormat::Stream { let x = next_id; next_id += 1; x } else { 0 };
        size = next_id + rng.below(2);
        marker += 1;
        let size_txt = if damage == Damage::SizeHuge && rev + 1 == nrev { 1_000_001 + rng.below(5) } else { size };
        let ncuts = rng.usize(3);
        let cuts: Vec<usize> = (0..ncuts).map(|_| rng.usize(8)).collect();
        let extra = if has_catalog { format!("/Root 1 0 R /Marker {}", marker) } else { format!("/Marker {}", marker) };
        // /Prev damage: rewrite after the fact (the writer always links to the previous revision)
        let before = w.out.len();
        let xoff = w.finish(fmt, size_txt, &extra, &cuts, xref_id);
        let mut prev_txt = match sections.last() { Some((o, ..)) => format!("{}", o), None => "n".to_string() };
        if rev > 0 && (damage == Damage::PrevLoop || damage == Damage::PrevBeyond) && rev + 1 == nrev {
            // patch the /Prev value in place: the section is the last thing in the file and startxref
            // names its first byte, so nothing that is addressed moves
            let old = format!("/Prev {}", sections.last().unwrap().0).into_bytes();
            let target = if damage == Damage::PrevLoop { xoff } else { 9_999_999 + rng.below(1000) };
            if let Some(i) = w.out[before..].windows(old.len()).position(|x| x == &old[..]) {
                let at = before + i;
                w.out.splice(at..at + old.len(), format!("/Prev {}", target).into_bytes());
                prev_txt = format!("{}", target);
            }
        }
        if fmt == XrefFormat::Stream {
            // the xref stream is an object of the file too
            let body_start = w.out[xoff as usize..].windows(7).position(|x| x == b"stream\n").unwrap() as u64 + 7;
            let s = String::from_utf8_lossy(&w.out[xoff as usize..(xoff + body_start) as usize]).to_string();
            let i = s.rfind("/Length ").unwrap() + 8;
            let dl = s[i..].split(' ').next().unwrap().parse::<u64>().unwrap();
            written.push(Written::Stream { id: xref_id, off: xoff, marker, rel: body_start, len: dl, how: LenHow::Direct, len_id: 0, n: 0, first: 0 });
        }
        let r = w.revisions.last().unwrap();
        let size_field = format!("{}", size_txt);
        sections.push((xoff, show_subs(&r.subsections), size_field, prev_txt, marker));
        desc.push_str(&format!(" {:?}]", fmt));
        // what scan sees: in a multi-revision file the older xref sections (classic: skipped as trailer
        // items; stream: objects) lie before the newest section
        if rev + 1 < nrev && fmt == XrefFormat::Stream { scan_ids.push(xref_id); }
        if rev + 1 < nrev && fmt == XrefFormat::Classic { scan_ids.push(u64::MAX); } // a trailer item
    }
    let mut bytes = w.out.clone();
    if damage == Damage::StartxrefBeyond || damage == Damage::StartxrefHuge {
        // rewrite the final startxref value
        let i = bytes.windows(9).rposition(|x| x == b"startxref").unwrap();
        bytes.truncate(i);
        let v = if damage == Damage::StartxrefHuge { u64::MAX - rng.below(1100) } else { bytes.len() as u64 + 20 + rng.below(50) };
        bytes.extend_from_slice(format!("startxref\n{}\n%%EOF\n", v).as_bytes());
    }
    GenDoc { bytes, written, sections, size, desc, has_catalog, scan_ids }
}

// ---------------------------------------------------------------------------------------------------
// c17.load: model with table-instantiated parsers against the real loader

fn load_request(doc: &GenDoc, prefix: &[u8]) -> String {
    let pl = prefix.len() as u64;
    let mut buf = prefix.to_vec();
    buf.extend_from_slice(&doc.bytes);
    let xt: Vec<String> = doc.sections.iter().map(|(off, subs, size, prev, tag)| format!("{}={}/{}/{}/{}", pl + off, subs, size, prev, tag)).collect();
    let ot: Vec<String> = doc
        .written
        .iter()
        .map(|x| match x {
            Written::Plain { off, marker, is_int, .. } => format!("{}=p.{}.{}", pl + off, marker.unwrap_or(0), if *is_int { 1 } else { 0 }),
            Written::Stream { off, marker, rel, len, how, len_id, n, first, .. } => {
                let l = match how { LenHow::Direct => format!("d{}", len), _ => format!("i{}", len_id) };
                format!("{}=s.{}.{}.{}.{}.{}", pl + off, marker, rel, l, n, first)
            }
        })
        .collect();
    format!("c17.load {} 40 {} {}", hex(&buf), if xt.is_empty() { "-".to_string() } else { xt.join("+") }, if ot.is_empty() { "-".to_string() } else { ot.join("+") })
}

fn marker_of(p: &Primitive) -> Option<u64> {
    match p {
        Primitive::Integer(i) => Some(*i as u64),
        Primitive::Dictionary(d) => d.get("Marker").and_then(|m| m.as_integer().ok()).map(|i| i as u64),
        Primitive::Array(a) => a.get(0).and_then(|m| m.as_integer().ok()).map(|i| i as u64),
        Primitive::Stream(s) => s.info.get("Marker").and_then(|m| m.as_integer().ok()).map(|i| i as u64),
        _ => None,
    }
}

fn file_range_of(p: &Primitive) -> Option<(usize, usize)> {
    if let Primitive::Stream(s) = p {
        let d = format!("{:?}", s);
        let i = d.find("file_range: ")? + 12;
        let rest = &d[i..];
        let end = rest.find(|c: char| !(c.is_ascii_digit() || c == '.'))?;
        let mut it = rest[..end].split("..");
        let a = it.next()?.parse().ok()?;
        let b = it.next()?.parse().ok()?;
        Some((a, b))
    } else {
        None
    }
}

fn real_load(buf: &Vec<u8>, size: u64) -> String {
    let r = catch_unwind(AssertUnwindSafe(|| {
        let start = match buf.locate_start_offset() { Ok(s) => s, Err(_) => return "err".to_string() };
        let mut storage = match Storage::with_cache(buf.clone(), ParseOptions::strict(), NoCache, NoCache, NoLog) { Ok(s) => s, Err(_) => return "err".to_string() };
        let trailer = match storage.load_storage_and_trailer() { Ok(t) => t, Err(_) => return "err".to_string() };
        let tag = trailer.get("Marker").and_then(|p| p.as_integer().ok()).unwrap_or(-1);
        let resolver = storage.resolver();
        let mut out = vec![];
        for id in 0..size + 3 {
            let r = resolver.resolve(PlainRef { id, gen: 0 });
            out.push(match r {
                Ok(p) => {
                    let m = marker_of(&p).map(|m| m.to_string()).unwrap_or("?".into());
                    match file_range_of(&p) {
                        Some((a, b)) => {
                            let raw = match &p { Primitive::Stream(s) => match s.raw_data(&resolver) { Ok(d) => format!("#{}", d.len()), Err(_) => "#E".into() }, _ => String::new() };
                            format!("{}:s{}@{}-{}{}", id, m, a, b, raw)
                        }
                        None => format!("{}:v{}", id, m),
                    }
                }
                Err(e) => format!("{}:{}", id, match err_class(&e) { "EOF" => "E", c => c }),
            });
        }
        format!("start={} trailer={} {}", start, tag, out.join(" "))
    }));
    r.unwrap_or_else(|_| "panic".into())
}

pub fn load_streams(driver: &Driver, seed: u64, thorough: bool, rep: &mut Report) {
    for (name, outside) in [("c17.load", false), ("c17.load.outside", true)] {
        let mut st = Stream::new(name, !outside);
        let n = if thorough { 20_000 } else { 1500 };
        let mut cases = vec![];
        for case in 0..n {
            let mut rng = Rng::derive(seed, name, case);
            let damage = if outside {
                *rng.pick(&[Damage::StartxrefBeyond, Damage::StartxrefHuge, Damage::EntryBeyond, Damage::EntryHuge, Damage::PrevLoop, Damage::PrevBeyond, Damage::SizeHuge, Damage::IndexOutOfRange, Damage::LengthWrongKind, Damage::LengthTooLong])
            } else {
                Damage::None
            };
            let doc = gen_doc(&mut rng, false, damage);
            let l = if rng.chance(1, 4) { 0 } else { pick_prefix_len(&mut rng) };
            let (p, _) = gen_prefix(&mut rng, l);
            let mut buf = p.clone();
            buf.extend_from_slice(&doc.bytes);
            st.count(&format!("revisions={}", doc.sections.len()));
            st.count(&format!("damage={:?}", damage));
            st.count(&format!("prefix={}", if l == 0 { "0" } else { ">0" }));
            for x in &doc.written {
                if let Written::Stream { how, n, .. } = x {
                    if *n > 0 { st.count("object-stream"); } else { st.count(&format!("length={:?}", how)); }
                }
            }
            let imp = real_load(&buf, doc.size);
            cases.push((load_request(&doc, &p), imp, true));
        }
        let reqs: Vec<String> = cases.iter().map(|c| c.0.clone()).collect();
        let resp = driver.ask(&reqs);
        for ((rq, imp, nt), m) in cases.iter().zip(resp.iter()) {
            st.count(&format!("outcome={}", if m.starts_with("start=") { "loaded" } else { m.as_str() }));
            // the model prints ids 0..len+1 = size+2; the implementation side prints the same count
            st.case(rq, m, imp, *nt);
        }
        rep.streams.push(st);
    }
}

fn real_scanlist(buf: &Vec<u8>) -> String {
    let r = catch_unwind(AssertUnwindSafe(|| {
        let mut storage = match Storage::with_cache(buf.clone(), ParseOptions::strict(), NoCache, NoCache, NoLog) { Ok(s) => s, Err(_) => return "err".to_string() };
        let _ = storage.load_storage_and_trailer();
        let mut out = vec![];
        for item in storage.scan().take(100_000) {
            match item {
                Ok(ScanItem::Object(r, p)) => match file_range_of(&p) {
                    Some((a, b)) => out.push(format!("{}@{}-{}", r.id, a, b)),
                    None => out.push(format!("{}", r.id)),
                },
                Ok(ScanItem::Trailer(_)) => {}
                Err(_) => out.push("E".to_string()),
            }
        }
        if out.len() == 1 && out[0] == "E" { "err".to_string() } else { format!("ok {}", out.join(" ")) }
    }));
    r.unwrap_or_else(|_| "panic".into())
}

/// c17.scanlist: `Offsets.scan` (slice from the header to the newest section, ranges counted from the
/// header position) with a word scanner as `scanItems`, against the items of `Storage::scan`
pub fn scan_streams(driver: &Driver, seed: u64, thorough: bool, rep: &mut Report) {
    for (name, outside) in [("c17.scanlist", false), ("c17.scanlist.outside", true)] {
        let mut st = Stream::new(name, !outside);
        let n = if thorough { 20_000 } else { 1200 };
        let mut cases = vec![];
        for case in 0..n {
            let mut rng = Rng::derive(seed, name, case);
            let damage = if outside { *rng.pick(&[Damage::StartxrefBeyond, Damage::StartxrefHuge]) } else { Damage::None };
            let doc = gen_doc(&mut rng, false, damage);
            // with a damaged startxref nothing is loaded, so an indirect /Length cannot be resolved by the
            // real scan; the word scanner of the model instance knows nothing about that: direct lengths only
            if outside && doc.written.iter().any(|x| matches!(x, Written::Stream { how: LenHow::IndirectDirect, .. } | Written::Stream { how: LenHow::IndirectCompressed, .. })) { continue; }
            let l = if rng.chance(1, 4) { 0 } else { pick_prefix_len(&mut rng) };
            let (p, _) = gen_prefix(&mut rng, l);
            let mut buf = p.clone();
            buf.extend_from_slice(&doc.bytes);
            let stt: Vec<String> = doc.written.iter().filter_map(|x| match x { Written::Stream { id, rel, len, .. } => Some(format!("{}={}.{}", id, rel, len)), _ => None }).collect();
            st.count(&format!("revisions={}", doc.sections.len()));
            st.count(&format!("prefix={}", if l == 0 { "0" } else { ">0" }));
            st.count(&format!("streams={}", stt.len().min(6)));
            cases.push((format!("c17.scan {} {}", hex(&buf), if stt.is_empty() { "-".to_string() } else { stt.join("+") }), real_scanlist(&buf), true));
        }
        run_stream(driver, &mut st, cases);
        rep.streams.push(st);
    }
}

/// move every stream range of a harness value back by `k`
fn unshift_val(v: &crate::c03::render::Val, k: usize) -> crate::c03::render::Val {
    use crate::c03::render::Val;
    let ent = |kvs: &Vec<(Vec<u8>, Val)>| kvs.iter().map(|(a, b)| (a.clone(), unshift_val(b, k))).collect::<Vec<_>>();
    match v {
        Val::Arr(xs) => Val::Arr(xs.iter().map(|x| unshift_val(x, k)).collect()),
        Val::Dict(kvs) => Val::Dict(ent(kvs)),
        Val::StreamPending(kvs, d) => Val::StreamPending(ent(kvs), d.clone()),
        Val::StreamInFile(kvs, i, g, a, b) => Val::StreamInFile(ent(kvs), *i, *g, a.wrapping_sub(k), b.wrapping_sub(k)),
        x => x.clone(),
    }
}

/// c17.readobj: `resolve_ref`'s direct branch in its literal call shape — the suffix at `start + offset`, lexer
/// offset = that position, `parse_indirect_object` — model (`c03.parse ind0`, Model/Parser.lean) against the
/// implementation, on every object of generated documents behind a prefix.
/// Oracle c17.offset: the implementation, same suffix, lexer offset `q` against `|p| + q`: the same value,
/// every `file_range` `|p|` further on (`file_offset_only_moves_ranges` on the real parser).
pub fn readobj_streams(driver: &Driver, seed: u64, thorough: bool, rep: &mut Report) {
    let mut st = Stream::new("c17.readobj", true);
    let mut or = Oracle::new("c17.offset");
    let n = if thorough { 6000 } else { 300 };
    let mut cases = vec![];
    for case in 0..n {
        let mut rng = Rng::derive(seed, "c17.readobj", case);
        let doc = gen_doc(&mut rng, true, Damage::None);
        let l = pick_prefix_len(&mut rng);
        let (p, _) = gen_prefix(&mut rng, l);
        let mut buf = p.clone();
        buf.extend_from_slice(&doc.bytes);
        // the resolver's answers for indirect lengths
        let lens: crate::c03::LenMap = doc.written.iter().filter_map(|x| match x { Written::Stream { len_id, len, how, .. } if !matches!(how, LenHow::Direct) => Some(((*len_id, 0), *len)), _ => None }).collect();
        for x in &doc.written {
            let off = match x { Written::Plain { off, .. } | Written::Stream { off, .. } => *off as usize };
            let q = l + off;
            let suffix = &buf[q..];
            if suffix.len() > 6000 { continue; }
            st.count(match x { Written::Plain { .. } => "object=plain", Written::Stream { .. } => "object=stream" });
            let req = crate::c03::parse_request("ind0", suffix, 0, 1023, q, &lens, None);
            cases.push(req);
            // oracle on the implementation alone: offset q - l (the un-prefixed file) against offset q
            let a = crate::c03::imp_parse("ind0", suffix, 0, 1023, off, &lens, None);
            let b = crate::c03::imp_parse("ind0", suffix, 0, 1023, q, &lens, None);
            or.case(&format!("{}@{}", case, off), l > 0, || json!({"case": case, "offset": off, "prefix_len": l, "result": trunc(&a.text)}));
            let same = match (&a.val, &b.val) {
                (Some(va), Some(vb)) => crate::c03::render::show_canon(va) == crate::c03::render::show_canon(&unshift_val(vb, l)) && a.id == b.id && a.pos == b.pos,
                (None, None) => a.text == b.text,
                _ => false,
            };
            if !same {
                or.fail("offset-changes-value", &format!("the object at offset {} parses to {} with lexer offset {} and to {} with lexer offset {}", off, trunc(&a.text), off, trunc(&b.text), q),
                    json!({"stream": "c17.readobj", "seed": seed, "case": case, "offset": off, "prefix_len": l, "suffix_hex": hex(suffix)}));
            }
        }
    }
    let resp = driver.ask(&cases);
    for (rq, m) in cases.iter().zip(resp.iter()) {
        let (mm, imp) = crate::c03::both_sides(rq, m);
        st.count(&format!("outcome={}", mm.split(' ').next().unwrap_or("")));
        st.case(rq, &mm, &imp, true);
    }
    rep.streams.push(st);
    rep.oracles.push(or);
}

// ---------------------------------------------------------------------------------------------------
// the concrete section reader and scan loop (Model/XrefTable + XrefStreamSection, Model/ScanLoop)

/// the resolver as it is while the table is being loaded: no object can be resolved, stream data comes
/// straight out of the backend
pub struct LoadResolve<'a> {
    pub buf: &'a [u8],
    pub opts: ParseOptions,
}

impl<'a> Resolve for LoadResolve<'a> {
    fn resolve_flags(&self, r: PlainRef, _flags: pdf::parser::ParseFlags, _depth: usize) -> pdf::error::Result<Primitive> {
        Err(pdf::error::PdfError::UnspecifiedXRefEntry { id: r.id })
    }
    fn get<T: pdf::object::Object>(&self, _r: pdf::object::Ref<T>) -> pdf::error::Result<pdf::object::RcRef<T>> {
        Err(pdf::error::PdfError::Reference)
    }
    fn options(&self) -> &ParseOptions {
        &self.opts
    }
    fn stream_data(&self, _id: PlainRef, range: std::ops::Range<usize>) -> pdf::error::Result<std::sync::Arc<[u8]>> {
        self.buf.get(range).map(|d| std::sync::Arc::from(d)).ok_or(pdf::error::PdfError::ContentReadPastBoundary)
    }
    fn get_data_or_decode(&self, _id: PlainRef, range: std::ops::Range<usize>, filters: &[pdf::enc::StreamFilter]) -> pdf::error::Result<std::sync::Arc<[u8]>> {
        let mut data = self.buf.get(range).ok_or(pdf::error::PdfError::ContentReadPastBoundary)?.to_vec();
        for f in filters {
            data = pdf::enc::decode(&data, f)?;
        }
        Ok(data.into())
    }
}

fn show_xref(e: &pdf::xref::XRef) -> String {
    use pdf::xref::XRef;
    match *e {
        XRef::Free { next_obj_nr, gen_nr } => format!("f.{}.{}", next_obj_nr, gen_nr),
        XRef::Raw { pos, gen_nr } => format!("r.{}.{}", pos, gen_nr),
        XRef::Stream { stream_id, index } => format!("s.{}.{}", stream_id, index),
        XRef::Promised => "P".into(),
        XRef::Invalid => "I".into(),
    }
}

fn canon_dict_val(d: &pdf::primitive::Dictionary) -> String {
    let res = crate::c03::TestResolve::new(&vec![], false);
    crate::c03::render::show_canon(&crate::c03::prim_to_val(&Primitive::Dictionary(d.clone()), &res))
}

fn canon_model_val(s: &str) -> String {
    match crate::c03::render::read_val(s) {
        Some(v) => crate::c03::render::show_canon(&v),
        None => format!("unreadable:{}", s),
    }
}

fn strict_or(allow_xref_error: bool) -> ParseOptions {
    let mut o = ParseOptions::strict();
    o.allow_xref_error = allow_xref_error;
    o
}

/// `read_xref_and_trailer_at(Lexer::with_offset(read(q ..), q))`
fn real_xrefsec(buf: &[u8], q: usize, allow_err: bool) -> String {
    let r = catch_unwind(AssertUnwindSafe(|| {
        let res = LoadResolve { buf, opts: strict_or(allow_err) };
        if q > buf.len() { return "err".to_string(); }
        let mut lx = Lexer::with_offset(&buf[q..], q);
        match pdf::parser::read_xref_and_trailer_at(&mut lx, &res) {
            Ok((secs, trailer)) => {
                let subs = if secs.is_empty() { "-".to_string() } else {
                    secs.iter().map(|s| format!("{}:{}", s.first_id, if s.entries.is_empty() { "-".to_string() } else { s.entries.iter().map(show_xref).collect::<Vec<_>>().join(",") })).collect::<Vec<_>>().join(";")
                };
                format!("ok {} {}", subs, canon_dict_val(&trailer))
            }
            Err(_) => "err".to_string(),
        }
    }));
    r.unwrap_or_else(|_| "panic".into())
}

fn canon_sec_answer(m: &str) -> String {
    let f: Vec<&str> = m.split(' ').collect();
    if f.len() == 3 && f[0] == "ok" { format!("ok {} {}", f[1], canon_model_val(f[2])) } else { m.to_string() }
}

/// `Backend::read_xref_table_and_trailer(start, resolver-with-an-empty-table)`
fn real_loadc(buf: &Vec<u8>) -> String {
    let r = catch_unwind(AssertUnwindSafe(|| {
        let start = match buf.locate_start_offset() { Ok(s) => s, Err(_) => return "err".to_string() };
        let res = LoadResolve { buf, opts: ParseOptions::strict() };
        match buf.read_xref_table_and_trailer(start, &res) {
            Ok((t, trailer)) => {
                let es: Vec<String> = (0..t.len()).map(|i| t.get(i as u64).map(|e| show_xref(&e)).unwrap_or("?".into())).collect();
                format!("ok {} {} {}", start, es.join(","), canon_dict_val(&trailer))
            }
            Err(_) => "err".to_string(),
        }
    }));
    r.unwrap_or_else(|_| "panic".into())
}

fn canon_loadc_answer(m: &str) -> String {
    let f: Vec<&str> = m.split(' ').collect();
    if f.len() == 4 && f[0] == "ok" { format!("ok {} {} {}", f[1], f[2], canon_model_val(f[3])) } else { m.to_string() }
}

/// the items of the real `Storage::scan`, in the notation of `c17.scanc`
fn real_scanc(buf: &Vec<u8>, lens: &crate::c03::LenMap) -> String {
    let r = catch_unwind(AssertUnwindSafe(|| {
        let mut storage = match Storage::with_cache(buf.clone(), ParseOptions::strict(), NoCache, NoCache, NoLog) { Ok(s) => s, Err(_) => return "err".to_string() };
        let _ = storage.load_storage_and_trailer();
        let res = crate::c03::TestResolve::new(lens, false);
        let mut out = vec![];
        for item in storage.scan().take(200_000) {
            out.push(match item {
                Ok(ScanItem::Object(r, p)) => format!("O{}.{}={}", r.id, r.gen, crate::c03::render::show_canon(&crate::c03::prim_to_val(&p, &res))),
                Ok(ScanItem::Trailer(d)) => format!("T={}", canon_dict_val(&d)),
                Err(_) => "E".to_string(),
            });
        }
        if out.len() == 1 && out[0] == "E" { "err".to_string() } else { format!("ok {}", out.join(" ")) }
    }));
    r.unwrap_or_else(|_| "panic".into())
}

fn canon_scanc_answer(m: &str) -> String {
    if !m.starts_with("ok") { return m.to_string(); }
    let items: Vec<String> = m.split(' ').skip(1).filter(|x| !x.is_empty()).map(|it| {
        if let Some((h, v)) = it.split_once('=') { format!("{}={}", h, canon_model_val(v)) } else { it.to_string() }
    }).collect();
    format!("ok {}", items.join(" "))
}

fn doc_lens(doc: &GenDoc) -> crate::c03::LenMap {
    doc.written.iter().filter_map(|x| match x { Written::Stream { len_id, len, how, .. } if !matches!(how, LenHow::Direct) => Some(((*len_id, 0), *len)), _ => None }).collect()
}

/// c17.xrefsec / c17.loadc / c17.scanc: the concrete section reader, loader and scan loop against
/// `read_xref_and_trailer_at`, `read_xref_table_and_trailer` and `Storage::scan`
pub fn concrete_streams(driver: &Driver, seed: u64, thorough: bool, rep: &mut Report) {
    // sections of generated documents, both formats, read from their suffix
    let mut st = Stream::new("c17.xrefsec", true);
    let mut so = Stream::new("c17.xrefsec.outside", false);
    let n = if thorough { 8000 } else { 500 };
    let (mut cases, mut cases_o) = (vec![], vec![]);
    for case in 0..n {
        let mut rng = Rng::derive(seed, "c17.xrefsec", case);
        let doc = gen_doc(&mut rng, false, Damage::None);
        let l = if rng.chance(1, 2) { 0 } else { pick_prefix_len(&mut rng) };
        let (p, _) = gen_prefix(&mut rng, l);
        let mut buf = p.clone();
        buf.extend_from_slice(&doc.bytes);
        for (xoff, subs, ..) in &doc.sections {
            let q = l + *xoff as usize;
            if buf.len() - q > 6000 { continue; }
            st.count(if subs.contains("s.") || buf[q..].starts_with(b"xref") == false { "format=stream" } else { "format=table" });
            let allow = rng.chance(1, 4);
            cases.push((format!("c17.xrefsec {} {}", hex(&buf[q..]), if allow { 1 } else { 0 }), real_xrefsec(&buf, q, allow)));
            // outside: the same section cut short, or entered a few bytes late
            let cut = q + 1 + rng.usize((buf.len() - q).max(2) - 1);
            let b2 = buf[..cut].to_vec();
            cases_o.push((format!("c17.xrefsec {} 0", hex(&b2[q..])), real_xrefsec(&b2, q, false)));
            let q2 = (q + 1 + rng.usize(6)).min(buf.len());
            cases_o.push((format!("c17.xrefsec {} 0", hex(&buf[q2..])), real_xrefsec(&buf, q2, false)));
        }
    }
    for (stream, cs) in [(&mut st, &cases), (&mut so, &cases_o)] {
        let reqs: Vec<String> = cs.iter().map(|c| c.0.clone()).collect();
        for ((rq, imp), m) in cs.iter().zip(driver.ask(&reqs).iter()) {
            let mm = canon_sec_answer(m);
            stream.count(&format!("outcome={}", mm.split(' ').next().unwrap_or("")));
            stream.case(rq, &mm, imp, true);
        }
    }
    rep.streams.push(st);
    rep.streams.push(so);

    // whole files: header, startxref, every section through /Prev, the merged table and the trailer
    for (name, outside) in [("c17.loadc", false), ("c17.loadc.outside", true)] {
        let mut st = Stream::new(name, !outside);
        let n = if thorough { 8000 } else { 500 };
        let mut cases = vec![];
        for case in 0..n {
            let mut rng = Rng::derive(seed, name, case);
            let damage = if outside { *rng.pick(&[Damage::StartxrefBeyond, Damage::StartxrefHuge, Damage::PrevLoop, Damage::PrevBeyond, Damage::SizeHuge]) } else { Damage::None };
            let doc = gen_doc(&mut rng, false, damage);
            let l = if rng.chance(1, 3) { 0 } else { pick_prefix_len(&mut rng) };
            let (p, _) = gen_prefix(&mut rng, l);
            let mut buf = p.clone();
            buf.extend_from_slice(&doc.bytes);
            if buf.len() > 8000 { continue; }
            st.count(&format!("revisions={}", doc.sections.len()));
            st.count(&format!("damage={:?}", damage));
            cases.push((format!("c17.loadc {}", hex(&buf)), real_loadc(&buf)));
        }
        let reqs: Vec<String> = cases.iter().map(|c| c.0.clone()).collect();
        for ((rq, imp), m) in cases.iter().zip(driver.ask(&reqs).iter()) {
            let mm = canon_loadc_answer(m);
            st.count(&format!("outcome={}", mm.split(' ').next().unwrap_or("")));
            st.case(rq, &mm, imp, true);
        }
        rep.streams.push(st);
    }

    // the scan loop on generated documents (values of every kind) behind prefixes
    let mut st = Stream::new("c17.scanc", true);
    let n = if thorough { 6000 } else { 300 };
    let mut cases = vec![];
    for case in 0..n {
        let mut rng = Rng::derive(seed, "c17.scanc", case);
        let doc = gen_doc(&mut rng, true, Damage::None);
        let l = if rng.chance(1, 3) { 0 } else { pick_prefix_len(&mut rng) };
        let (p, _) = gen_prefix(&mut rng, l);
        let mut buf = p.clone();
        buf.extend_from_slice(&doc.bytes);
        if buf.len() > 8000 { continue; }
        let lens = doc_lens(&doc);
        st.count(&format!("revisions={}", doc.sections.len()));
        st.count(&format!("prefix={}", if l == 0 { "0" } else { ">0" }));
        cases.push((format!("c17.scanc {} {}", hex(&buf), crate::c03::show_lens(&lens)), real_scanc(&buf, &lens)));
    }
    let reqs: Vec<String> = cases.iter().map(|c| c.0.clone()).collect();
    for ((rq, imp), m) in cases.iter().zip(driver.ask(&reqs).iter()) {
        let mm = canon_scanc_answer(m);
        st.count(&format!("items={}", mm.split(' ').count().saturating_sub(1).min(20)));
        st.case(rq, &mm, imp, true);
    }
    rep.streams.push(st);

    // … and on the corpus (files without encryption, below 64 kB), with and without a prefix
    let mut st = Stream::new("c17.scanc.corpus", true);
    let mut cases = vec![];
    for base in corpus() {
        if base.bytes.len() > 64_000 || contains(&base.bytes, b"/Encrypt") { continue; }
        // the resolver's answers for indirect lengths: every object whose value is an integer
        let mut lens: crate::c03::LenMap = vec![];
        let ok = catch_unwind(AssertUnwindSafe(|| {
            if let Ok(mut storage) = Storage::with_cache(base.bytes.clone(), ParseOptions::strict(), NoCache, NoCache, NoLog) {
                if let Ok(tr) = storage.load_storage_and_trailer() {
                    let size = tr.get("Size").and_then(|p| p.as_integer().ok()).unwrap_or(0).max(0) as u64;
                    let r = storage.resolver();
                    let mut v = vec![];
                    for id in 0..size {
                        if let Ok(Primitive::Integer(i)) = r.resolve(PlainRef { id, gen: 0 }) { if i >= 0 { v.push(((id, 0u64), i as u64)); } }
                    }
                    return Some(v);
                }
            }
            None
        }));
        match ok { Ok(Some(v)) => lens = v, _ => continue }
        st.count(&format!("file={}", base.name));
        let mut rng = Rng::derive(seed, "c17.scanc.corpus", base.bytes.len() as u64);
        for k in 0..2 {
            let l = if k == 0 { 0 } else { pick_prefix_len(&mut rng).min(1019 - base.own_start.min(1019)) };
            let (p, _) = gen_prefix(&mut rng, l);
            let mut buf = p.clone();
            buf.extend_from_slice(&base.bytes);
            cases.push((format!("c17.scanc {} {}", hex(&buf), crate::c03::show_lens(&lens)), real_scanc(&buf, &lens)));
        }
    }
    let reqs: Vec<String> = cases.iter().map(|c| c.0.clone()).collect();
    for ((rq, imp), m) in cases.iter().zip(driver.ask(&reqs).iter()) {
        let mm = canon_scanc_answer(m);
        st.count(&format!("outcome={}", mm.split(' ').next().unwrap_or("")));
        st.case(rq, &mm, imp, true);
    }
    rep.streams.push(st);
}

// ---------------------------------------------------------------------------------------------------
// oracle: f against p ++ f on the real library

#[derive(Clone, Debug, PartialEq)]
pub struct Snapshot {
    pub version: String,
    pub trailer: String,
    pub objects: Vec<String>,
    pub pages: String,
    pub scan: Vec<String>,
}

const PASSWORDS: &[&[u8]] = &[b"", b"userpassword", b"ownerpassword"];

fn scan_listing(storage: &Storage<Vec<u8>, NoCache, NoCache, NoLog>) -> Vec<String> {
    let resolver = storage.resolver();
    let mut out = vec![];
    for item in storage.scan().take(200_000) {
        out.push(match item {
            Ok(ScanItem::Object(r, p)) => format!("obj {} {} {}", r.id, r.gen, canon(&p, &resolver)),
            Ok(ScanItem::Trailer(d)) => { let mut s = String::from("trailer "); canon_dict(&d, &resolver, &mut s); s }
            Err(e) => err_kind(&e),
        });
    }
    out
}

/// everything the property lists, for one buffer; `Err` = not loadable
/// objects that do not read are compared by class (free / missing / unspecified / other error), not by
/// the error's payload or wrapper
fn canon_or_class(x: &Result<Primitive, pdf::error::PdfError>, r: &impl Resolve) -> String {
    match x {
        Ok(p) => canon(p, r),
        Err(e) => format!("E:{}", match err_class(e) { "EOF" => "E", c => c }),
    }
}

pub fn snapshot(buf: &[u8], with_scan: bool) -> Result<Snapshot, String> {
    let r = catch_unwind(AssertUnwindSafe(|| {
        let mut last = String::new();
        for pw in PASSWORDS {
            let mut storage = Storage::with_cache(buf.to_vec(), ParseOptions::strict(), NoCache, NoCache, NoLog).map_err(|e| format!("with_cache: {}", err_kind(&e)))?;
            let trailer = match storage.load_storage_and_trailer_password(pw) {
                Ok(t) => t,
                Err(e) => { last = format!("load: {}", err_kind(&e)); continue; }
            };
            let version = match storage.version() { Ok(v) => v, Err(e) => err_kind(&e) };
            let resolver = storage.resolver();
            let mut ts = String::new();
            canon_dict(&trailer, &resolver, &mut ts);
            let size = trailer.get("Size").and_then(|p| p.as_integer().ok()).unwrap_or(0).max(0) as u64;
            let mut objects = vec![];
            for id in 0..size.min(200_000) + 3 {
                objects.push(canon_or_class(&resolver.resolve(PlainRef { id, gen: 0 }), &resolver));
            }
            let scan = if with_scan { scan_listing(&storage) } else { vec![] };
            drop(resolver);
            // the typed layer: page count and every page's dictionary-level content
            let pages = match FileOptions::uncached().password(pw).load(buf.to_vec()) {
                Ok(file) => {
                    let mut s = format!("pages={}", file.num_pages());
                    let res = file.resolver();
                    for i in 0..file.num_pages().min(50) {
                        match file.get_page(i) {
                            Ok(pg) => {
                                s.push_str(&format!(" [{:?} {:?} ", pg.media_box, pg.rotate));
                                if let Some(c) = &pg.contents {
                                    match c.operations(&res) { Ok(ops) => s.push_str(&format!("ops={}", ops.len())), Err(e) => s.push_str(&err_kind(&e)) }
                                }
                                s.push(']');
                            }
                            Err(e) => s.push_str(&format!(" [{}]", err_kind(&e))),
                        }
                    }
                    s
                }
                Err(e) => format!("file: {}", err_kind(&e)),
            };
            return Ok(Snapshot { version, trailer: ts, objects, pages, scan });
        }
        Err(last)
    }));
    match r {
        Ok(x) => x,
        Err(_) => Err("panic".into()),
    }
}

fn first_diff(a: &Snapshot, b: &Snapshot) -> Option<(String, String)> {
    if a.version != b.version {
        return Some(("version".into(), format!("version differs: {} vs {}", trunc(&a.version), trunc(&b.version))));
    }
    if a.trailer != b.trailer {
        return Some(("trailer".into(), format!("trailer differs: {} vs {}", trunc(&a.trailer), trunc(&b.trailer))));
    }
    if a.objects.len() != b.objects.len() {
        return Some(("object".into(), format!("{} vs {} object numbers", a.objects.len(), b.objects.len())));
    }
    for (i, (x, y)) in a.objects.iter().zip(b.objects.iter()).enumerate() {
        if x != y {
            return Some(("object".into(), format!("object {} reads {} in f and {} in p ++ f", i, trunc(x), trunc(y))));
        }
    }
    if a.pages != b.pages {
        return Some(("pages".into(), format!("pages differ: {} vs {}", trunc(&a.pages), trunc(&b.pages))));
    }
    None
}

fn scan_diff(a: &[String], b: &[String]) -> Option<String> {
    if a.len() != b.len() {
        let extra = if a.len() > b.len() { &a[b.len()] } else { &b[a.len()] };
        return Some(format!("scan lists {} items for f and {} for p ++ f (first unmatched: {})", a.len(), b.len(), trunc(extra)));
    }
    for (i, (x, y)) in a.iter().zip(b.iter()).enumerate() {
        if x != y {
            return Some(format!("scan item {} is {} for f and {} for p ++ f", i, trunc(x), trunc(y)));
        }
    }
    None
}

fn scan_panics(buf: &[u8]) -> bool {
    catch_unwind(AssertUnwindSafe(|| {
        if let Ok(mut storage) = Storage::with_cache(buf.to_vec(), ParseOptions::strict(), NoCache, NoCache, NoLog) {
            let _ = storage.load_storage_and_trailer();
            let _ = storage.scan().take(10).count();
        }
    }))
    .is_err()
}

struct Base {
    name: String,
    bytes: Vec<u8>,
    /// position of the header in the base file itself: the prefix may use only what is left of the
    /// first kilobyte
    own_start: usize,
    /// for generated documents: the ids scan must list (u64::MAX = a trailer item)
    scan_ids: Option<Vec<u64>>,
}

fn corpus() -> Vec<Base> {
    let mut v = vec![];
    let root = format!("{}/files", repo_root());
    let mut dirs = vec![root.clone(), format!("{}/password_protected", root)];
    dirs.sort();
    for d in dirs {
        let mut names: Vec<_> = match std::fs::read_dir(&d) { Ok(r) => r.filter_map(|e| e.ok()).map(|e| e.path()).collect(), Err(_) => vec![] };
        names.sort();
        for p in names {
            if p.extension().map(|e| e == "pdf").unwrap_or(false) {
                if let Ok(b) = std::fs::read(&p) {
                    let own_start = b.locate_start_offset().unwrap_or(0);
                    v.push(Base { name: p.file_name().unwrap().to_string_lossy().to_string(), bytes: b, own_start, scan_ids: None });
                }
            }
        }
    }
    v
}

fn check_pair(or: &mut Oracle, os: &mut Oracle, base: &Base, base_snap: &Snapshot, p: &[u8], pstyle: &str, replay: Value) {
    let mut buf = p.to_vec();
    buf.extend_from_slice(&base.bytes);
    let key = format!("{}+{}", base.name, hex(p));
    or.count(&format!("prefix-style={}", pstyle));
    or.count(&format!("prefix-len={}", match p.len() { 0 => "0", 1..=9 => "1-9", 10..=1014 => "10-1014", _ => "1015-1019" }));
    let with_scan = !base_snap.scan.is_empty();
    match snapshot(&buf, with_scan) {
        Ok(s) => {
            or.case(&key, !p.is_empty(), || json!({"file": base.name, "prefix_len": p.len(), "objects": s.objects.len(), "pages": s.pages}));
            if let Some((sig, what)) = first_diff(base_snap, &s) {
                or.fail(&format!("prefix-changes-{}", sig), &format!("{} with a {}-byte prefix: {}", base.name, p.len(), what), replay.clone());
            }
            if with_scan {
                os.case(&key, !p.is_empty(), || json!({"file": base.name, "prefix_len": p.len(), "items": s.scan.len()}));
                if let Some(what) = scan_diff(&base_snap.scan, &s.scan) {
                    os.fail("scan-prefix", &format!("{} with a {}-byte prefix: {}", base.name, p.len(), what), replay.clone());
                }
            }
        }
        Err(e) => {
            or.case(&key, !p.is_empty(), || json!({"file": base.name, "prefix_len": p.len(), "error": e}));
            let sig = if e == "panic" { "prefix-panic" } else { "prefix-unloadable" };
            or.fail(sig, &format!("{} loads, but not behind a {}-byte marker-free prefix: {}", base.name, p.len(), e), replay);
        }
    }
}

/// for generated documents: scan must list exactly what was written, in file order
fn check_scan_complete(os: &mut Oracle, name: &str, ids: &[u64], listing: &[String], replay: Value) {
    let got: Vec<u64> = listing
        .iter()
        .filter_map(|s| {
            if let Some(r) = s.strip_prefix("obj ") { r.split(' ').next().and_then(|x| x.parse().ok()) }
            else if s.starts_with("trailer") { Some(u64::MAX) }
            else { Some(u64::MAX - 1) } // an error item
        })
        .collect();
    if got != ids {
        let show = |v: &[u64]| v.iter().map(|x| if *x == u64::MAX { "T".to_string() } else if *x == u64::MAX - 1 { "ERR".to_string() } else { x.to_string() }).collect::<Vec<_>>().join(",");
        os.fail("scan-incomplete", &format!("{}: scan lists [{}], the file holds [{}] before its newest cross-reference section", name, show(&got), show(ids)), replay);
    }
}

fn prefix_oracles(seed: u64, thorough: bool, rep: &mut Report, only: Option<&Value>) {
    let mut or = Oracle::new("c17.prefix");
    let mut os = Oracle::new("c17.scan");

    // deterministic regression witnesses for D26 (fixed): (a) a prefix longer than the startxref value
    // made `scan` panic in `unwrap`; (b) any prefix dropped the last |p| bytes of the scanned range
    {
        let mut w = PdfWriter::new(b"", "1.4");
        w.free(0, 0, 65535);
        w.object(1, 0, b"<< /A 1 >>");
        w.object(2, 0, b"(last object)");
        w.finish(XrefFormat::Classic, 3, "", &[], 0);
        let f = w.out.clone();
        let base = Base { name: "witness-d26".into(), bytes: f.clone(), own_start: 0, scan_ids: Some(vec![1, 2]) };
        match snapshot(&f, true) {
            Ok(s0) => {
                check_scan_complete(&mut os, "witness-d26", &[1, 2], &s0.scan, json!({"stream": "c17.witness", "which": "d26-base", "file_hex": hex(&f)}));
                for (k, plen) in [(0usize, 8usize), (1, 200)] {
                    let p = vec![b' '; plen];
                    let mut buf = p.clone();
                    buf.extend_from_slice(&f);
                    let replay = json!({"stream": "c17.witness", "which": format!("d26-{}", k), "prefix_hex": hex(&p), "file_hex": hex(&f)});
                    if scan_panics(&buf) {
                        os.case(&format!("witness-d26-{}", k), true, || json!({"witness": "d26", "prefix_len": plen}));
                        os.fail("scan-panic", &format!("scan panics on a well-formed file behind a {}-byte prefix", plen), replay);
                        continue;
                    }
                    check_pair(&mut or, &mut os, &base, &s0, &p, "witness", replay.clone());
                    if let Ok(s) = snapshot(&buf, true) {
                        check_scan_complete(&mut os, "witness-d26", &[1, 2], &s.scan, replay);
                    }
                }
            }
            Err(e) => or.fail("witness-unloadable", &format!("the D26 witness file does not load: {}", e), json!({"stream": "c17.witness", "file_hex": hex(&f)})),
        }
        // the unchecked `start_offset + pos`: an entry offset just below 2^64 behind a prefix
        let mut w = PdfWriter::new(b"", "1.4");
        w.free(0, 0, 65535);
        w.object(1, 0, b"<< /A 1 >>");
        w.record(2, Entry::InUse { off: u64::MAX - 2, gen: 0 });
        w.finish(XrefFormat::Stream, 4, "", &[], 3);
        let f = w.out.clone();
        let base = Base { name: "witness-offset-overflow".into(), bytes: f.clone(), own_start: 0, scan_ids: None };
        if let Ok(s0) = snapshot(&f, false) {
            let p = vec![b'\n'; 7];
            check_pair(&mut or, &mut os, &base, &s0, &p, "witness", json!({"stream": "c17.witness", "which": "offset-overflow", "prefix_hex": hex(&p), "file_hex": hex(&f)}));
        } else {
            or.fail("witness-unloadable", "the offset-overflow witness file does not load", json!({"stream": "c17.witness", "file_hex": hex(&f)}));
        }
        // the same with a wrapping sum: the prefix holds the text of an object, the entry offset is
        // 2^64 - |p|, so a wrapped `start_offset + pos` lands on the prefix and reads the ghost
        let ghost = b"9 0 obj\n(ghost)\nendobj\n".to_vec();
        let mut w = PdfWriter::new(b"", "1.4");
        w.free(0, 0, 65535);
        w.object(1, 0, b"<< /A 1 >>");
        w.record(2, Entry::InUse { off: u64::MAX - ghost.len() as u64 + 1, gen: 0 });
        w.finish(XrefFormat::Stream, 4, "", &[], 3);
        let f = w.out.clone();
        let base = Base { name: "witness-offset-wrap".into(), bytes: f.clone(), own_start: 0, scan_ids: None };
        if let Ok(s0) = snapshot(&f, false) {
            check_pair(&mut or, &mut os, &base, &s0, &ghost, "witness", json!({"stream": "c17.witness", "which": "offset-wrap", "prefix_hex": hex(&ghost), "file_hex": hex(&f)}));
        }
    }
    if only.map(|r| r["stream"] == "c17.witness").unwrap_or(false) {
        rep.oracles.push(or);
        rep.oracles.push(os);
        return;
    }

    // corpus
    let files = corpus();
    let per_file = if thorough { 0 } else { 12 };
    for (fi, base) in files.iter().enumerate() {
        if let Some(r) = only { if r["stream"] != "c17.prefix.corpus" || r["file"] != base.name.as_str() { continue; } }
        let big = base.bytes.len() > 100_000;
        let s0 = match snapshot(&base.bytes, !big) {
            Ok(s) => s,
            Err(e) => { or.count(&format!("corpus-not-loadable={}:{}", base.name, e)); continue; }
        };
        or.count("corpus-file");
        let lens: Vec<usize> = if let Some(r) = only {
            vec![r["prefix_len"].as_u64().unwrap_or(0) as usize]
        } else if thorough && !big {
            (0..=1019 - base.own_start).collect()
        } else if thorough {
            let mut rng = Rng::derive(seed, "c17.prefix.corpus.lens", fi as u64);
            let mut v = vec![0, 1, 5, 1018, 1019];
            for _ in 0..40 { v.push(rng.usize(1020)); }
            v
        } else {
            let mut rng = Rng::derive(seed, "c17.prefix.corpus.lens", fi as u64);
            let mut v = vec![1, 1019];
            for _ in 0..(if big { 1 } else { per_file - 2 }) { v.push(pick_prefix_len(&mut rng)); }
            v
        };
        for l in lens {
            let l = l.min(1019 - base.own_start.min(1019));
            let mut rng = Rng::derive(seed, &format!("c17.prefix.corpus.{}", base.name), l as u64);
            let (p, style) = gen_prefix(&mut rng, l);
            let replay = json!({"stream": "c17.prefix.corpus", "seed": seed, "file": base.name, "prefix_len": l, "prefix_hex": hex(&p)});
            check_pair(&mut or, &mut os, base, &s0, &p, style, replay);
        }
    }

    // generated documents
    let (from, to) = match only {
        Some(r) if r["stream"] == "c17.prefix.generated" => { let c = r["case"].as_u64().unwrap_or(0); (c, c + 1) }
        Some(_) => (0, 0),
        None => (0, if thorough { 20_000 } else { 1500 }),
    };
    for case in from..to {
        let mut rng = Rng::derive(seed, "c17.prefix.generated", case);
        let doc = gen_doc(&mut rng, true, Damage::None);
        let base = Base { name: format!("generated-{}", case), bytes: doc.bytes.clone(), own_start: 0, scan_ids: Some(doc.scan_ids.clone()) };
        or.count(&format!("revisions={}", doc.sections.len()));
        or.count(&format!("catalog={}", doc.has_catalog));
        let mk = |p: &[u8], l: usize| json!({"stream": "c17.prefix.generated", "seed": seed, "case": case, "prefix_len": l, "prefix_hex": hex(p), "file_hex": hex(&doc.bytes), "doc": doc.desc});
        let s0 = match snapshot(&doc.bytes, true) {
            Ok(s) => s,
            Err(e) => {
                or.case(&base.name, true, || json!({"doc": doc.desc}));
                or.fail("generated-unloadable", &format!("a well-formed generated document does not load: {} ({})", e, doc.desc), mk(b"", 0));
                continue;
            }
        };
        check_scan_complete(&mut os, &base.name, base.scan_ids.as_ref().unwrap(), &s0.scan, mk(b"", 0));
        let nlens = if thorough { 6 } else { 3 };
        for k in 0..nlens {
            let l = if k == 0 { 1 + rng.usize(30) } else { pick_prefix_len(&mut rng) };
            let (p, style) = gen_prefix(&mut rng, l);
            check_pair(&mut or, &mut os, &base, &s0, &p, style, mk(&p, l));
            if k == 0 {
                let mut buf = p.clone();
                buf.extend_from_slice(&doc.bytes);
                if let Ok(s) = snapshot(&buf, true) {
                    check_scan_complete(&mut os, &base.name, base.scan_ids.as_ref().unwrap(), &s.scan, mk(&p, l));
                }
            }
        }
    }
    rep.oracles.push(or);
    rep.oracles.push(os);
}

pub fn run(driver: &Driver, seed: u64, thorough: bool, replay: Option<&Value>) -> Report {
    let mut rep = Report::new("C17");
    if let Some(r) = replay {
        let seed = r["seed"].as_u64().unwrap_or(seed);
        let stream = r["stream"].as_str().unwrap_or("");
        if stream.starts_with("c17.prefix") || stream == "c17.witness" {
            prefix_oracles(seed, thorough, &mut rep, Some(r));
        } else if stream.starts_with("c17.start") {
            start_streams(driver, seed, thorough, &mut rep);
        } else {
            start_streams(driver, seed, thorough, &mut rep);
            xref_streams(driver, seed, thorough, &mut rep);
            word_streams(driver, seed, thorough, &mut rep);
            load_streams(driver, seed, thorough, &mut rep);
            scan_streams(driver, seed, thorough, &mut rep);
            readobj_streams(driver, seed, thorough, &mut rep);
            concrete_streams(driver, seed, thorough, &mut rep);
        }
        return rep;
    }
    start_streams(driver, seed, thorough, &mut rep);
    xref_streams(driver, seed, thorough, &mut rep);
    word_streams(driver, seed, thorough, &mut rep);
    load_streams(driver, seed, thorough, &mut rep);
    scan_streams(driver, seed, thorough, &mut rep);
    readobj_streams(driver, seed, thorough, &mut rep);
    concrete_streams(driver, seed, thorough, &mut rep);
    prefix_oracles(seed, thorough, &mut rep, None);
    rep
}
