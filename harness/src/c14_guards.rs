//! Numeric values derived from the *guards in the source*. For every numeric field that the anchored
//! files compare, take modulo, multiply or slice with, a hand-maintained table lists the thresholds of
//! those guards; the planted values are the ones just below, at and just above every threshold (in the
//! field's step: key lengths move in multiples of 8, so both the neighbours ±8 and the off-step values ±1
//! are taken), plus the fixed boundary set. Fields that are multiplied / added together are crossed
//! (`cross`). A changed guard (`<` for `<=`, a dropped `min`, `< 0` for `< 1`) changes the outcome at one of
//! these values.
//!
//! The tables are kept next to the line they come from; when a guard is added to the source, add its
//! threshold here.

use super::plant::BOUNDARY;

pub struct Guard {
    pub field: &'static str,
    /// where the guards are
    pub source: &'static str,
    pub thresholds: &'static [i64],
    /// the unit in which the field is meaningful (8 for key lengths in bits); 1 otherwise
    pub step: i64,
}

/// every guard table; `values(field)` looks a field up here
pub const GUARDS: &[Guard] = &[
    // ---- crypt.rs
    // `dict.bits % 8`, `key_size = key_bits / 8`, `key_size == 0`, `min(key_size, 16)` (×3), `key_size > 16`,
    // `key_size.max(16)`, `Rc4::new: key.len() <= 256`, 40 (V 1), 128 (AESV2), 256 (AESV3), u32 range
    Guard { field: "crypt.Length", source: "crypt.rs from_password, key_derivation_*_rc4, Rc4::new, Decoder::key", thresholds: &[0, 8, 40, 128, 136, 256, 2048, 2056, 2147483640], step: 8 },
    // `match dict.v { 1, 2, 4..=6, _ }`
    Guard { field: "crypt.V", source: "crypt.rs from_password", thresholds: &[1, 2, 4, 5, 6], step: 1 },
    // `(2..=6).contains(&level)`, `level <= 4`, `level == 5 || level == 6`, `revision == 2`, `>= 3`, `>= 4`, `level < 4`
    Guard { field: "crypt.R", source: "crypt.rs from_password", thresholds: &[2, 3, 4, 5, 6], step: 1 },
    // `default.length.map(|n| 8 * n)` (u32), then the same key-size guards in bytes
    Guard { field: "crypt.CF.Length", source: "crypt.rs from_password (crypt filter)", thresholds: &[0, 1, 5, 16, 17, 32, 256, 257, 536870911, 536870912], step: 1 },
    // lengths of /O /U: 32 (revisions 2–4: compared / prefix of 16), 48 (revisions 5, 6: `!= 48`, slices 0..32, 32..40, 40..48)
    Guard { field: "crypt.U.len", source: "crypt.rs check_password_*, from_password level 5/6", thresholds: &[0, 16, 32, 40, 48], step: 1 },
    // `wrapped_key.len() != 32`, AES blocks of 16
    Guard { field: "crypt.UE.len", source: "crypt.rs from_password level 5/6", thresholds: &[0, 16, 32, 48], step: 1 },
    // ---- enc.rs
    // `predictor >= 10`, `predictor == 2`
    Guard { field: "enc.Predictor", source: "enc.rs unpredict", thresholds: &[1, 2, 10, 15], step: 1 },
    // `colors < 1`
    Guard { field: "enc.Colors", source: "enc.rs predictor_geometry", thresholds: &[1, 4], step: 1 },
    // `matches!(bpc, 1 | 2 | 4 | 8 | 16)`
    Guard { field: "enc.BitsPerComponent", source: "enc.rs predictor_geometry", thresholds: &[1, 2, 4, 8, 16], step: 1 },
    // `columns < 1`; the row length against the data length (the planted streams hold 10 bytes)
    Guard { field: "enc.Columns", source: "enc.rs predictor_geometry, unpredict", thresholds: &[1, 4, 5, 10], step: 1 },
    // `params.early_change != 0`
    Guard { field: "enc.EarlyChange", source: "enc.rs lzw_decode", thresholds: &[0, 1], step: 1 },
    // `params.k < 0`
    Guard { field: "enc.K", source: "enc.rs fax_decode", thresholds: &[0], step: 1 },
    // `u16::try_from(columns)`, `width > 0`
    Guard { field: "enc.CCITT.Columns", source: "enc.rs fax_decode", thresholds: &[1, 8, 65535], step: 1 },
    // `u16::try_from(rows)`, `Ok(0) => None`, `rows != 0 && buf.len() != columns * rows`
    Guard { field: "enc.CCITT.Rows", source: "enc.rs fax_decode", thresholds: &[0, 1, 65535], step: 1 },
    // ---- font.rs
    // `/W`: CIDs are u16-ranged (`> 0xFFFF`, `c1 + len > 0x10000`), `cid < first_char`
    Guard { field: "font.W.cid", source: "font.rs Font::widths", thresholds: &[0, 1, 65535, 65536], step: 1 },
    // `/FirstChar`, `/LastChar` (i32, `first as usize`)
    Guard { field: "font.FirstChar", source: "font.rs Font::widths", thresholds: &[0, 32, 255, 256], step: 1 },
    // ---- function.rs
    // `match raw.function_type { 2, .. }`, `match stream.info.function_type { 4, 0, .. }`
    Guard { field: "function.FunctionType", source: "function.rs Function::from_dict / from_primitive", thresholds: &[0, 2, 4], step: 1 },
    // `n.saturating_sub(1)`, `size: s as usize` as a stride in `apply`
    Guard { field: "function.Size", source: "function.rs from_primitive, SampledFunction::apply", thresholds: &[0, 1, 2, 256], step: 1 },
    Guard { field: "function.BitsPerSample", source: "function.rs (read, unused)", thresholds: &[1, 8, 16, 32], step: 1 },
    // `match info.order { 1, 3, n => bail }`
    Guard { field: "function.Order", source: "function.rs from_primitive", thresholds: &[1, 3], step: 1 },
    // lengths of /Domain, /Range, /Encode, /Decode: `[min, max, ..]`, `range.len() / 2`, `chunks_exact(2)`, `out.len() * 2 != range.len()`
    Guard { field: "function.array.len", source: "function.rs from_dict, from_primitive, apply", thresholds: &[0, 2, 4], step: 1 },
    // ---- object/stream.rs
    // `/N` against the pairs in the header (the planted stream has 2), `/First` against the data (header 10 bytes, data 18)
    Guard { field: "objstm.N", source: "object/stream.rs ObjectStream::from_primitive", thresholds: &[0, 2], step: 1 },
    Guard { field: "objstm.First", source: "object/stream.rs get_object_slice", thresholds: &[0, 10, 18], step: 1 },
    Guard { field: "objstm.offset", source: "object/stream.rs get_object_slice, file.rs resolve_ref (data.get(range))", thresholds: &[0, 3, 8], step: 1 },
    // ---- parser/parse_xref.rs
    // `width > 8`, `entry_len == 0`
    Guard { field: "xref.W", source: "parse_xref.rs read_u64_from_stream, parse_xref_section_from_stream", thresholds: &[0, 1, 8], step: 1 },
    // count against `data.len() / entry_len` (the planted stream has 5 rows of 7 bytes)
    Guard { field: "xref.Index.count", source: "parse_xref.rs parse_xref_section_from_stream", thresholds: &[0, 5], step: 1 },
    // `highest_id > MAX_ID` (backend.rs)
    Guard { field: "xref.Size", source: "backend.rs read_xref_table_and_trailer", thresholds: &[0, 5, 1000000], step: 1 },
];

pub fn guard(field: &str) -> &'static Guard {
    GUARDS.iter().find(|g| g.field == field).unwrap_or_else(|| panic!("no guard table for {}", field))
}

/// below / at / above every threshold (in the field's step, and ±1 when the step is larger), and the
/// fixed boundary set; sorted, without duplicates, within `i64`
pub fn values(field: &str) -> Vec<i64> {
    let g = guard(field);
    let mut v: Vec<i64> = vec![];
    for t in g.thresholds {
        v.extend([t - g.step, *t, t + g.step]);
        if g.step != 1 {
            v.extend([t - 1, t + 1]);
        }
    }
    for b in BOUNDARY.iter() {
        if let Ok(x) = b.parse::<i64>() {
            v.push(x);
        }
    }
    v.sort();
    v.dedup();
    v
}

/// the values a cross product uses: the thresholds themselves, their lower neighbours and -1 / 0 (the
/// small set; `values` is for the one-at-a-time sweep)
pub fn cross_values(field: &str) -> Vec<i64> {
    let g = guard(field);
    let mut v: Vec<i64> = vec![-1, 0];
    for t in g.thresholds {
        v.extend([t - g.step, *t]);
    }
    v.push(g.thresholds.last().unwrap() + g.step);
    v.sort();
    v.dedup();
    v
}

/// values as the texts written into a file (numbers beyond `i64` come from the boundary set as text)
pub fn texts(field: &str) -> Vec<String> {
    let mut t: Vec<String> = values(field).iter().map(|v| v.to_string()).collect();
    for b in BOUNDARY.iter() {
        if !t.iter().any(|x| x == b) {
            t.push(b.to_string());
        }
    }
    t
}
