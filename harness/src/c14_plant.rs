//! Planted documents for C14: per schema fragment a template with *slots*. A slot is a list of option
//! strings (a reference field pointed at every object of the fragment, the whole body of a node, or a
//! numeric field with the boundary values). Documents are written with the independent writer
//! (`pdfwrite.rs`); nothing here uses pdf-rs.

use crate::pdfwrite::*;
use crate::rng::Rng;

pub const BOUNDARY: [&str; 6] = ["-1", "0", "1", "2147483647", "4294967295", "18446744073709551615"];

#[derive(Clone)]
pub struct Slot {
    pub options: Vec<String>,
    pub default: usize,
    /// numeric and auxiliary slots are varied one at a time (the others at their defaults); the remaining
    /// slots (the reference graph of the fragment) are enumerated jointly
    pub numeric: bool,
    pub aux: bool,
}

#[derive(Clone)]
pub enum Body {
    /// plain object: template text
    Plain(String),
    /// stream: dictionary entries template (without /Length), explicit /Length template or None, data
    Stream(String, Option<String>, Vec<u8>),
    /// bytes written as they are
    Raw(Vec<u8>),
}

#[derive(Clone)]
pub struct Frag {
    pub name: &'static str,
    pub objs: Vec<(u64, Body)>,
    pub slots: Vec<Slot>,
    pub trailer: String,
}

#[derive(Clone)]
pub struct Planted {
    pub frag: &'static str,
    pub desc: String,
    pub bytes: Vec<u8>,
}

/// a document of plain objects with a classic table
pub fn build_doc(objs: &[(u64, Vec<u8>)], trailer_extra: &str) -> Vec<u8> {
    let mut w = PdfWriter::new(b"", "1.7");
    w.free(0, 0, 65535);
    let mut max = 0;
    for (id, body) in objs {
        w.object(*id, 0, body);
        max = max.max(*id);
    }
    w.finish(XrefFormat::Classic, max + 1, trailer_extra, &[], 0);
    w.out
}

/// How a planted document is laid out in the file. The hostile content is the same; what changes is
/// the coordinate system of every offset (junk before the `%PDF-` header: offsets in the file are
/// relative to the header, positions in the buffer are not) and the storage of the objects.
#[derive(Clone, Copy, Debug, PartialEq, Eq)]
pub struct Variant {
    /// number of junk bytes before the header (the library looks for the header in the first 1024 bytes)
    pub prefix: usize,
    /// plain objects stored in an object stream (cross-reference stream) instead of directly (classic table)
    pub compressed: bool,
}
pub const PLAIN: Variant = Variant { prefix: 0, compressed: false };

/// junk that contains no header, no keyword and no delimiter: letters, digits, blanks, line ends
pub fn junk(len: usize) -> Vec<u8> {
    let alphabet = b"junk 0123456789 abc\n";
    let mut v: Vec<u8> = (0..len).map(|i| alphabet[(i * 7 + i / 5) % alphabet.len()]).collect();
    if let Some(last) = v.last_mut() {
        *last = b'\n';
    }
    v
}

/// the same, in any layout: bodies that are not streams may be stored in an object stream
pub fn build_doc_as(objs: &[(u64, Vec<u8>)], trailer_extra: &str, v: Variant) -> Vec<u8> {
    if v == PLAIN {
        return build_doc(objs, trailer_extra);
    }
    let bodies: Vec<(u64, Body)> = objs.iter().map(|(id, b)| {
        if b.windows(6).any(|w| w == b"stream") || b.contains(&b'{') { (*id, Body::Raw(b.clone())) } else { (*id, Body::Plain(String::from_utf8_lossy(b).into_owned())) }
    }).collect();
    Frag { name: "doc", objs: bodies, slots: vec![], trailer: trailer_extra.to_string() }.instantiate_as(&[], v).bytes
}

pub fn rf(id: u64) -> String {
    format!("{} 0 R", id)
}

fn refs_slot(targets: &[u64], default: u64) -> Slot {
    let options: Vec<String> = targets.iter().map(|t| rf(*t)).collect();
    let d = targets.iter().position(|t| *t == default).unwrap_or(0);
    Slot { options, default: d, numeric: false, aux: false }
}

fn opt_key_slot(key: &str, targets: &[u64], default: Option<u64>) -> Slot {
    let mut options = vec![String::new()];
    options.extend(targets.iter().map(|t| format!("/{} {}", key, rf(*t))));
    let d = match default { None => 0, Some(x) => 1 + targets.iter().position(|t| *t == x).unwrap_or(0) };
    Slot { options, default: d, numeric: false, aux: false }
}

fn num_slot(default: &str) -> Slot {
    let mut options: Vec<String> = vec![default.to_string()];
    options.extend(BOUNDARY.iter().map(|s| s.to_string()).filter(|s| s != default));
    Slot { options, default: 0, numeric: true, aux: false }
}

fn choice_slot(options: Vec<String>, default: usize) -> Slot {
    Slot { options, default, numeric: false, aux: false }
}

fn subst(t: &str, slots: &[Slot], choice: &[usize]) -> String {
    let mut s = t.to_string();
    // highest index first so that `{1}` does not eat the prefix of `{10}` (braces make it unambiguous anyway)
    for k in (0..slots.len()).rev() {
        s = s.replace(&format!("{{{}}}", k), &slots[k].options[choice[k]]);
    }
    s
}

impl Frag {
    pub fn instantiate(&self, choice: &[usize]) -> Planted {
        self.instantiate_as(choice, PLAIN)
    }

    pub fn instantiate_as(&self, choice: &[usize], v: Variant) -> Planted {
        let mut w = PdfWriter::new(&junk(v.prefix), "1.7");
        w.free(0, 0, 65535);
        let mut max = 0;
        let mut members: Vec<(u64, Vec<u8>)> = vec![];
        for (id, body) in &self.objs {
            max = max.max(*id);
            match body {
                Body::Plain(t) => {
                    let text = subst(t, &self.slots, choice);
                    if v.compressed {
                        members.push((*id, text.into_bytes()));
                    } else {
                        w.object(*id, 0, text.as_bytes());
                    }
                }
                Body::Raw(b) => {
                    w.object(*id, 0, b);
                }
                Body::Stream(d, len, data) => {
                    let d = subst(d, &self.slots, choice);
                    let body = match len {
                        None => stream_body(&d, data),
                        Some(l) => stream_body_len(&d, &subst(l, &self.slots, choice), data, b"\n"),
                    };
                    w.object(*id, 0, &body);
                }
            }
        }
        let trailer = subst(&self.trailer, &self.slots, choice);
        if v.compressed {
            // every plain object goes into one object stream; the table is a cross-reference stream
            let stm = max + 1;
            w.object_stream(stm, &members, StmFilter::None, b"\n", "");
            w.finish(XrefFormat::Stream, max + 3, &trailer, &[], max + 2);
        } else {
            w.finish(XrefFormat::Classic, max + 1, &trailer, &[], 0);
        }
        let mut desc = format!("{}[{}]", self.name, choice.iter().enumerate().map(|(k, c)| format!("{}={}", k, self.slots[k].options[*c])).collect::<Vec<_>>().join("; "));
        if v != PLAIN {
            desc.push_str(&format!("|prefix={}|compressed={}", v.prefix, v.compressed));
        }
        Planted { frag: self.name, desc, bytes: w.out }
    }

    pub fn defaults(&self) -> Vec<usize> {
        self.slots.iter().map(|s| s.default).collect()
    }

    /// every combination of the non-numeric, non-auxiliary slots (the others at their defaults) if there are
    /// at most `limit` of them, otherwise `limit` random ones; then every numeric / auxiliary slot × every
    /// option (one at a time, the rest at default); then `joint` random joint assignments.
    pub fn choices(&self, limit: usize, joint: usize, rng: &mut Rng) -> (Vec<Vec<usize>>, bool) {
        let mut out = vec![];
        let idx: Vec<usize> = (0..self.slots.len()).filter(|k| !self.slots[*k].numeric && !self.slots[*k].aux).collect();
        let total: u128 = idx.iter().map(|k| self.slots[*k].options.len() as u128).product();
        let exhaustive = total <= limit as u128;
        if exhaustive {
            let mut c = self.defaults();
            let mut counter = vec![0usize; idx.len()];
            loop {
                for (j, k) in idx.iter().enumerate() {
                    c[*k] = counter[j];
                }
                out.push(c.clone());
                let mut j = 0;
                loop {
                    if j == idx.len() {
                        break;
                    }
                    counter[j] += 1;
                    if counter[j] < self.slots[idx[j]].options.len() {
                        break;
                    }
                    counter[j] = 0;
                    j += 1;
                }
                if j == idx.len() {
                    break;
                }
            }
        } else {
            out.push(self.defaults());
            for _ in 0..limit {
                let mut c = self.defaults();
                for k in idx.iter() {
                    c[*k] = rng.usize(self.slots[*k].options.len());
                }
                out.push(c);
            }
        }
        for k in 0..self.slots.len() {
            if self.slots[k].numeric || self.slots[k].aux {
                for o in 0..self.slots[k].options.len() {
                    if o != self.slots[k].default {
                        let mut c = self.defaults();
                        c[k] = o;
                        out.push(c);
                    }
                }
            }
        }
        for _ in 0..joint {
            out.push(self.slots.iter().map(|s| rng.usize(s.options.len())).collect());
        }
        (out, exhaustive)
    }

    /// the documents of `choices`, each in the plain layout; additionally every `every`-th choice (all of
    /// them for `every = 1`) in one of `variants`, taken in turn
    pub fn enumerate_with(&self, limit: usize, joint: usize, rng: &mut Rng, variants: &[Variant], every: usize) -> (Vec<Planted>, bool) {
        let (choices, exhaustive) = self.choices(limit, joint, rng);
        let mut out = Vec::with_capacity(choices.len() * 2);
        let mut turn = 0usize;
        for (i, c) in choices.iter().enumerate() {
            out.push(self.instantiate(c));
            if !variants.is_empty() && every > 0 && i % every == 0 {
                out.push(self.instantiate_as(c, variants[turn % variants.len()]));
                turn += 1;
            }
        }
        (out, exhaustive)
    }

    pub fn enumerate(&self, limit: usize, joint: usize, rng: &mut Rng) -> (Vec<Planted>, bool) {
        self.enumerate_with(limit, joint, rng, &[], 0)
    }
}

// ---------------------------------------------------------------------------------------------------
// fragments

const CONTENT: &[u8] = b"BT /F1 12 Tf (hi) Tj ET /C0 cs 0.5 sc /X0 Do";

/// page tree over `k` nodes (ids 2..2+k): node 2 is the root /Pages, the last node is a /Page, the ones
/// between are /Pages (k = 3: root, inner, page; k = 4: root, inner, page, page)
pub fn pagetree(k: usize) -> Frag {
    let t: Vec<u64> = (2..2 + k as u64).collect();
    let mut slots = vec![];
    let mut objs = vec![];
    let mut s = |sl: Slot, slots: &mut Vec<Slot>| -> String {
        slots.push(sl);
        format!("{{{}}}", slots.len() - 1)
    };
    let r0 = s(refs_slot(&t, 2), &mut slots);
    objs.push((1, Body::Plain(format!("<< /Type /Catalog /Pages {} >>", r0))));
    let k1 = s(refs_slot(&t, 3), &mut slots);
    let k2 = s(refs_slot(&t, *t.last().unwrap()), &mut slots);
    let p = s(opt_key_slot("Parent", &t, None), &mut slots);
    let c = s(num_slot("2"), &mut slots);
    objs.push((2, Body::Plain(format!("<< /Type /Pages /Kids [{} {}] /Count {} {} /MediaBox [0 0 10 10] /Resources << >> >>", k1, k2, c, p))));
    let ip = s(refs_slot(&t, 2), &mut slots);
    let ik = s(refs_slot(&t, if k >= 4 { 4 } else { *t.last().unwrap() }), &mut slots);
    let ic = s(num_slot("1"), &mut slots);
    objs.push((3, Body::Plain(format!("<< /Type /Pages /Parent {} /Kids [{}] /Count {} >>", ip, ik, ic))));
    for id in 4..2 + k as u64 {
        let pp = s(refs_slot(&t, if id == 4 && k >= 4 { 3 } else { 2 }), &mut slots);
        objs.push((id, Body::Plain(format!("<< /Type /Page /Parent {} /Contents 9 0 R >>", pp))));
    }
    objs.push((9, Body::Stream(String::new(), None, CONTENT.to_vec())));
    Frag { name: "pagetree", objs, slots, trailer: "/Root 1 0 R".into() }
}

fn catalog_with(extra: &str) -> Vec<(u64, Body)> {
    vec![
        (1, Body::Plain(format!("<< /Type /Catalog /Pages 2 0 R {} >>", extra))),
        (2, Body::Plain("<< /Type /Pages /Kids [3 0 R] /Count 1 /MediaBox [0 0 10 10] >>".into())),
        (3, Body::Plain("<< /Type /Page /Parent 2 0 R /Resources 4 0 R /Contents 5 0 R >>".into())),
        (5, Body::Stream(String::new(), None, CONTENT.to_vec())),
    ]
}

/// name tree (/Names /Dests) or number tree (/PageLabels) over `k` nodes (ids 10..10+k): every node is
/// a leaf, or an intermediate node with one or two kids pointed at every node
pub fn tree(k: usize, number: bool, two_kids_everywhere: bool) -> Frag {
    let t: Vec<u64> = (10..10 + k as u64).collect();
    let mut slots = vec![];
    // slot 0: the root; slot 1 (auxiliary): the access path — which entry of the name dictionary (they are
    // eight instances of the same generic loader with different value types)
    let mut objs = if number { catalog_with("/PageLabels {0} {1}") } else { catalog_with("/Names << /{1} {0} >>") };
    objs.push((4, Body::Plain("<< >>".into())));
    slots.push(refs_slot(&t, 10));
    let paths: Vec<String> = if number { vec![String::new(), "/Names << /Dests {0} >>".replace("{0}", &rf(10))] }
        else { ["Dests", "AP", "JavaScript", "Pages", "Templates", "IDS", "URLS", "EmbeddedFiles"].iter().map(|s| s.to_string()).collect() };
    slots.push(Slot { aux: true, ..choice_slot(paths, 0) });
    for (i, id) in t.iter().enumerate() {
        let leaf = if number {
            format!("<< /Nums [{} << /S /D /St 1 >> {} << /P (x) >>] /Limits [{} {}] >>", i, i + 7, i, i + 7)
        } else {
            format!("<< /Names [(a{}) [3 0 R /Fit] (b{}) [3 0 R /XYZ 0 0 0]] /Limits [(a{}) (b{})] >>", i, i, i, i)
        };
        let mut options = vec![leaf];
        for a in &t {
            options.push(format!("<< /Kids [{}] >>", rf(*a)));
        }
        if two_kids_everywhere || i == 0 {
            for a in &t {
                for b in &t {
                    options.push(format!("<< /Kids [{} {}] >>", rf(*a), rf(*b)));
                }
            }
        }
        // default: a chain 10 -> 11 -> ... -> leaf
        let d = if i + 1 < k { 1 + i + 1 } else { 0 };
        slots.push(choice_slot(options, d));
        objs.push((*id, Body::Plain(format!("{{{}}}", slots.len() - 1))));
    }
    Frag { name: if number { "numbertree" } else { "nametree" }, objs, slots, trailer: "/Root 1 0 R".into() }
}

/// numeric fields of tree nodes
pub fn tree_numbers() -> Frag {
    let mut objs = catalog_with("/PageLabels 10 0 R /Names << /Dests 12 0 R >>");
    objs.push((4, Body::Plain("<< >>".into())));
    let slots = vec![num_slot("0"), num_slot("5"), num_slot("3"), num_slot("1"), num_slot("0"), num_slot("1")];
    objs.push((10, Body::Plain("<< /Kids [11 0 R] >>".into())));
    objs.push((11, Body::Plain("<< /Limits [{0} {1}] /Nums [{2} << /S /r /St {3} >>] >>".into())));
    objs.push((12, Body::Plain("<< /Names [(a) [3 0 R /XYZ {4} {5} null] (b) [{4} /Fit]] >>".into())));
    Frag { name: "tree-numbers", objs, slots, trailer: "/Root 1 0 R".into() }
}

pub fn outlines(k: usize) -> Frag {
    let t: Vec<u64> = (10..10 + k as u64).collect();
    let mut objs = catalog_with("/Outlines 9 0 R");
    objs.push((4, Body::Plain("<< >>".into())));
    let mut slots = vec![];
    slots.push(opt_key_slot("First", &t, Some(10)));
    slots.push(opt_key_slot("Last", &t, Some(10)));
    slots.push(num_slot("1"));
    objs.push((9, Body::Plain("<< /Type /Outlines {0} {1} /Count {2} >>".into())));
    for (i, id) in t.iter().enumerate() {
        let b = slots.len();
        slots.push(opt_key_slot("Next", &t, t.get(i + 1).cloned()));
        slots.push(opt_key_slot("Prev", &t, if i > 0 { Some(t[i - 1]) } else { None }));
        slots.push(opt_key_slot("First", &t, None));
        slots.push(opt_key_slot("Last", &t, None));
        slots.push(num_slot("0"));
        objs.push((*id, Body::Plain(format!("<< /Title (t{}) {{{}}} {{{}}} {{{}}} {{{}}} /Count {{{}}} /Dest [3 0 R /Fit] /A << /S /GoTo /D [3 0 R /XYZ 0 0 0] >> >>", i, b, b + 1, b + 2, b + 3, b + 4))));
    }
    Frag { name: "outlines", objs, slots, trailer: "/Root 1 0 R".into() }
}

/// fonts: `k` font nodes (ids 10..10+k) that are Type0 fonts with one / two descendants pointed at every
/// node, or a CID leaf; plus ToUnicode / FontDescriptor / FontFile references
pub fn fonts(k: usize) -> Frag {
    let t: Vec<u64> = (10..10 + k as u64).collect();
    // the font graph is reached through the page resources (lazy font), a graphics state (typed
    // reference), and the AcroForm default resources
    let mut objs = catalog_with("/AcroForm << /Fields [] /DR 4 0 R >>");
    let mut slots = vec![];
    slots.push(refs_slot(&t, 10));
    objs.push((4, Body::Plain("<< /Font << /F1 {0} >> /ExtGState << /G0 << /Type /ExtGState /Font [{0} 12.0] >> >> >>".into())));
    for (i, id) in t.iter().enumerate() {
        let leaf = "<< /Type /Font /Subtype /CIDFontType2 /BaseFont /Leaf /CIDSystemInfo << /Registry (A) /Ordering (I) /Supplement 0 >> /FontDescriptor 20 0 R /DW 500.0 /W [1 [600.0 700.0] 10 12 800.0] /CIDToGIDMap /Identity >>".to_string();
        let simple = "<< /Type /Font /Subtype /TrueType /BaseFont /Simple /FirstChar 32 /LastChar 33 /Widths [500.0 600.0] /FontDescriptor 20 0 R /ToUnicode 21 0 R /Encoding << /Type /Encoding /Differences [32 /space /a] >> >>".to_string();
        let mut options = vec![leaf, simple];
        for a in &t {
            options.push(format!("<< /Type /Font /Subtype /Type0 /BaseFont /Comp /Encoding /Identity-H /DescendantFonts [{}] /ToUnicode 21 0 R >>", rf(*a)));
        }
        if i == 0 {
            for a in &t {
                for b in &t {
                    options.push(format!("<< /Type /Font /Subtype /Type0 /BaseFont /Comp /Encoding /Identity-H /DescendantFonts [{} {}] >>", rf(*a), rf(*b)));
                }
            }
            options.push("<< /Type /Font /Subtype /Type0 /BaseFont /Comp /Encoding /Identity-H /DescendantFonts [] >>".to_string());
        }
        let d = if i + 1 < k { 2 + i + 1 } else { 0 };
        slots.push(choice_slot(options, d));
        objs.push((*id, Body::Plain(format!("{{{}}}", slots.len() - 1))));
    }
    let fdt: Vec<u64> = vec![21, 22, 20, 10];
    let b = slots.len();
    slots.push(Slot { aux: true, ..opt_key_slot("FontFile2", &fdt, Some(22)) });
    slots.push(Slot { aux: true, ..opt_key_slot("FontFile3", &fdt, None) });
    objs.push((20, Body::Plain(format!("<< /Type /FontDescriptor /FontName /Leaf /Flags 4 /FontBBox [0 0 1 1] /ItalicAngle 0 {{{}}} {{{}}} >>", b, b + 1))));
    let cmap = b"/CIDInit /ProcSet findresource begin begincmap 1 beginbfchar <0001> <0041> endbfchar 1 beginbfrange <0002> <0004> <0042> endbfrange endcmap";
    objs.push((21, Body::Stream(String::new(), None, cmap.to_vec())));
    objs.push((22, Body::Stream("/Length1 4".into(), None, b"\x00\x01\x00\x00".to_vec())));
    Frag { name: "fonts", objs, slots, trailer: "/Root 1 0 R".into() }
}

/// numeric fields of fonts (the /W interpreter is D33: owned by the C19 package)
pub fn font_numbers() -> Frag {
    let mut objs = catalog_with("");
    objs.push((4, Body::Plain("<< /Font << /F1 10 0 R /F2 12 0 R >> >>".into())));
    let slots = vec![num_slot("500"), num_slot("32"), num_slot("33"), num_slot("4"), num_slot("0")];
    objs.push((10, Body::Plain("<< /Type /Font /Subtype /Type0 /BaseFont /Comp /Encoding /Identity-H /DescendantFonts [11 0 R] >>".into())));
    objs.push((11, Body::Plain("<< /Type /Font /Subtype /CIDFontType2 /BaseFont /Leaf /CIDSystemInfo << /Supplement {4} >> /FontDescriptor 20 0 R /DW {0} /W [1 [600.0]] >>".into())));
    objs.push((12, Body::Plain("<< /Type /Font /Subtype /TrueType /BaseFont /Simple /FirstChar {1} /LastChar {2} /Widths [500.0 600.0] /FontDescriptor 20 0 R >>".into())));
    objs.push((20, Body::Plain("<< /Type /FontDescriptor /FontName /Leaf /Flags {3} /FontBBox [0 0 1 1] /ItalicAngle 0 >>".into())));
    Frag { name: "font-numbers", objs, slots, trailer: "/Root 1 0 R".into() }
}

/// the /W array of a CID font with boundary values (D33, owned by the C19 package)
pub fn font_widths() -> Frag {
    let mut objs = catalog_with("");
    objs.push((4, Body::Plain("<< /Font << /F1 10 0 R >> >>".into())));
    let w = vec![
        "[1 [600.0]]".to_string(),
        "[1 []]".to_string(),
        "[0 []]".to_string(),
        "[1 13 0 R]".to_string(),
        "[1 5 800.0]".to_string(),
        "[5 1 800.0]".to_string(),
        "[1 -1 800.0]".to_string(),
        "[0 2147483647 800.0]".to_string(),
        "[-1 [600.0]]".to_string(),
        "[2147483647 [600.0 700.0]]".to_string(),
        "[1 2]".to_string(),
        "[1]".to_string(),
        "[1 (s)]".to_string(),
    ];
    let slots = vec![choice_slot(w, 0)];
    objs.push((10, Body::Plain("<< /Type /Font /Subtype /Type0 /BaseFont /Comp /Encoding /Identity-H /DescendantFonts [11 0 R] >>".into())));
    objs.push((11, Body::Plain("<< /Type /Font /Subtype /CIDFontType2 /BaseFont /Leaf /CIDSystemInfo << >> /FontDescriptor 20 0 R /W {0} >>".into())));
    objs.push((13, Body::Plain("[]".into())));
    objs.push((20, Body::Plain("<< /Type /FontDescriptor /FontName /Leaf /Flags 4 /FontBBox [0 0 1 1] /ItalicAngle 0 >>".into())));
    Frag { name: "font-widths", objs, slots, trailer: "/Root 1 0 R".into() }
}

pub fn encoding_differences() -> Frag {
    let mut objs = catalog_with("");
    objs.push((4, Body::Plain("<< /Font << /F1 10 0 R >> >>".into())));
    let slots = vec![num_slot("32"), num_slot("65")];
    objs.push((10, Body::Plain("<< /Type /Font /Subtype /TrueType /BaseFont /Simple /Encoding 11 0 R >>".into())));
    objs.push((11, Body::Plain("<< /Type /Encoding /BaseEncoding /WinAnsiEncoding /Differences [{0} /a /b {1} /c] >>".into())));
    Frag { name: "encoding-differences", objs, slots, trailer: "/Root 1 0 R".into() }
}

/// colour spaces: `k` nodes (ids 10..10+k), each one of the array forms with its base / alternate
/// pointed at every node
pub fn colorspaces(k: usize) -> Frag {
    let t: Vec<u64> = (10..10 + k as u64).collect();
    // reached through the page resources, through an image, and through the AcroForm default resources
    let mut objs = catalog_with("/AcroForm << /Fields [] /DR 4 0 R >>");
    let mut slots = vec![];
    slots.push(refs_slot(&t, 10));
    objs.push((4, Body::Plain("<< /ColorSpace << /C0 {0} >> /XObject << /X0 30 0 R >> >>".into())));
    objs.push((30, Body::Stream("/Type /XObject /Subtype /Image /Width 1 /Height 1 /BitsPerComponent 8 /ColorSpace {0}".into(), None, vec![7u8])));
    for (i, id) in t.iter().enumerate() {
        let mut options = vec!["/DeviceRGB".to_string(), "[/CalRGB << /WhitePoint [1.0 1.0 1.0] >>]".to_string(), "[/ICCBased 20 0 R]".to_string()];
        for a in &t {
            options.push(format!("[/Indexed {} 1 (abcdef)]", rf(*a)));
            options.push(format!("[/Separation /Spot {} 21 0 R]", rf(*a)));
            options.push(format!("[/DeviceN [/A /B] {} 22 0 R]", rf(*a)));
        }
        let d = if i + 1 < k { 3 + 3 * (i + 1) } else { 0 };
        slots.push(choice_slot(options, d));
        objs.push((*id, Body::Plain(format!("{{{}}}", slots.len() - 1))));
    }
    let b = slots.len();
    let mut alt = vec![String::new()];
    for a in &t {
        alt.push(format!("/Alternate {}", rf(*a)));
    }
    alt.push("/Alternate [/ICCBased 20 0 R]".into());
    slots.push(Slot { aux: true, ..choice_slot(alt, 0) });
    objs.push((20, Body::Stream(format!("/N 3 {{{}}}", b), None, vec![0u8; 16])));
    objs.push((21, Body::Plain("<< /FunctionType 2 /Domain [0.0 1.0] /C0 [0.0 0.0 0.0] /C1 [1.0 0.5 0.25] /N 1.0 >>".into())));
    objs.push((22, Body::Stream("/FunctionType 4 /Domain [0.0 1.0 0.0 1.0] /Range [0.0 1.0 0.0 1.0 0.0 1.0]".into(), None, b"{ dup 3 1 roll add 2 index }".to_vec())));
    Frag { name: "colorspaces", objs, slots, trailer: "/Root 1 0 R".into() }
}

/// colour space nested deeper than the supported depth (direct arrays)
pub fn colorspace_depth(n: usize) -> Planted {
    let mut cs = "/DeviceGray".to_string();
    for _ in 0..n {
        cs = format!("[/Indexed {} 1 (ab)]", cs);
    }
    let mut objs = catalog_with("");
    objs.push((4, Body::Plain(format!("<< /ColorSpace << /C0 {} >> >>", cs))));
    let f = Frag { name: "colorspace-depth", objs, slots: vec![], trailer: "/Root 1 0 R".into() };
    let mut p = f.instantiate(&[]);
    p.desc = format!("colorspace-depth[{}]", n);
    p
}

pub fn colorspace_numbers() -> Frag {
    let mut objs = catalog_with("");
    objs.push((4, Body::Plain("<< /ColorSpace << /C0 10 0 R /C1 11 0 R >> >>".into())));
    let slots = vec![num_slot("255"), num_slot("3")];
    objs.push((10, Body::Plain("[/Indexed /DeviceRGB {0} (abcdef)]".into())));
    objs.push((11, Body::Plain("[/ICCBased 20 0 R]".into())));
    objs.push((20, Body::Stream("/N {1} /Range [0.0 1.0]".into(), None, vec![0u8; 16])));
    Frag { name: "colorspace-numbers", objs, slots, trailer: "/Root 1 0 R".into() }
}

/// stream /Length: direct boundary values and references to an integer, to the stream itself, to
/// another stream, to a reference object, to a missing object
pub fn stream_lengths() -> Frag {
    let mut objs = vec![
        (1, Body::Plain("<< /Type /Catalog /Pages 2 0 R >>".into())),
        (2, Body::Plain("<< /Type /Pages /Kids [3 0 R] /Count 1 /MediaBox [0 0 10 10] >>".into())),
        (3, Body::Plain("<< /Type /Page /Parent 2 0 R /Resources << >> /Contents [5 0 R 6 0 R] >>".into())),
    ];
    let mut len_opts: Vec<String> = vec!["4".into()];
    len_opts.extend(BOUNDARY.iter().map(|s| s.to_string()));
    for t in [7u64, 5, 6, 8, 9, 30] {
        len_opts.push(rf(t));
    }
    let mut l7: Vec<String> = vec!["4".into()];
    l7.extend(BOUNDARY.iter().map(|s| s.to_string()));
    l7.push("4.0".into());
    l7.push("(s)".into());
    let slots = vec![choice_slot(len_opts.clone(), 0), choice_slot(len_opts, 7), choice_slot(l7, 0)];
    objs.push((5, Body::Stream(String::new(), Some("{0}".into()), b"q Q ".to_vec())));
    objs.push((6, Body::Stream(String::new(), Some("{1}".into()), b"q Q ".to_vec())));
    objs.push((7, Body::Plain("{2}".into())));
    objs.push((8, Body::Plain("7 0 R".into())));
    objs.push((9, Body::Plain("9 0 R".into())));
    Frag { name: "stream-lengths", objs, slots, trailer: "/Root 1 0 R".into() }
}

/// objects whose value is a reference: to itself, in a cycle, in chains of several lengths; used in
/// every typed position of a small document
pub fn ref_chains() -> Frag {
    // 20: self, 21<->22 cycle, 23->24->25->1 (chain to the catalog) ; chain of length n to the pages / page / content / int
    let mut objs = vec![];
    let chain_targets: Vec<u64> = vec![20, 21, 23, 40, 60, 80];
    let mut slots = vec![];
    // where the typed fields point: the real object or one of the reference objects
    let mk = |real: u64, extra: &[u64]| -> Slot {
        let mut t = vec![real];
        t.extend_from_slice(extra);
        refs_slot(&t, real)
    };
    slots.push(mk(2, &[20, 21, 30, 50])); // catalog /Pages   30: chain(2) -> 2 ; 50: chain(17) -> 2
    slots.push(mk(3, &[20, 21, 31, 51])); // kids[0]          31: chain(2) -> 3 ; 51: chain(17) -> 3
    slots.push(mk(2, &[20, 21, 30, 50])); // page /Parent
    slots.push(mk(5, &[20, 21, 32, 52])); // page /Contents   32 -> 5
    slots.push(mk(4, &[20, 21, 33, 53])); // page /Resources  33 -> 4
    slots.push(mk(7, &[20, 21, 34, 54])); // stream /Length   34 -> 7
    slots.push(mk(10, &[20, 21, 35, 55])); // font            35 -> 10
    let _ = chain_targets;
    objs.push((1, Body::Plain("<< /Type /Catalog /Pages {0} >>".into())));
    objs.push((2, Body::Plain("<< /Type /Pages /Kids [{1}] /Count 1 /MediaBox [0 0 10 10] >>".into())));
    objs.push((3, Body::Plain("<< /Type /Page /Parent {2} /Contents {3} /Resources {4} >>".into())));
    objs.push((4, Body::Plain("<< /Font << /F1 {6} >> >>".into())));
    objs.push((5, Body::Stream(String::new(), Some("{5}".into()), b"q Q ".to_vec())));
    objs.push((7, Body::Plain("4".into())));
    objs.push((10, Body::Plain("<< /Type /Font /Subtype /Type1 /BaseFont /Helvetica >>".into())));
    objs.push((20, Body::Plain("20 0 R".into())));
    objs.push((21, Body::Plain("22 0 R".into())));
    objs.push((22, Body::Plain("21 0 R".into())));
    // short chains (two hops)
    for (i, tgt) in [2u64, 3, 5, 4, 7, 10].iter().enumerate() {
        let a = 30 + i as u64;
        let b = 40 + i as u64;
        objs.push((a, Body::Plain(rf(b))));
        objs.push((b, Body::Plain(rf(*tgt))));
    }
    // long chains (17 hops): 50+i -> 100+17*i -> ... -> target
    for (i, tgt) in [2u64, 3, 5, 4, 7, 10].iter().enumerate() {
        let a = 50 + i as u64;
        let base = 100 + 20 * i as u64;
        objs.push((a, Body::Plain(rf(base))));
        for j in 0..16u64 {
            objs.push((base + j, Body::Plain(if j == 15 { rf(*tgt) } else { rf(base + j + 1) })));
        }
    }
    Frag { name: "ref-chains", objs, slots, trailer: "/Root 1 0 R".into() }
}

/// function objects with hostile numeric parameters, reachable as tint transforms
pub fn functions() -> Vec<Planted> {
    let mut opts: Vec<String> = vec![];
    // type 2
    for dom in ["[0.0 1.0]", "[]", "[0.0]", "[1.0 0.0]"] {
        for rest in ["/C0 [0.0] /C1 [1.0] /N 1.0", "/N 1.0", "/Range [0.0 1.0 0.0] /N 0.5", "/C0 [] /N -1.0", "/C1 [1.0 2.0 3.0] /N 1.0"] {
            opts.push(format!("D<< /FunctionType 2 /Domain {} {} >>", dom, rest));
        }
    }
    for ft in BOUNDARY.iter() {
        opts.push(format!("D<< /FunctionType {} /Domain [0.0 1.0] /N 1.0 >>", ft));
    }
    // type 4 (PostScript calculator)
    let progs: Vec<&str> = vec![
        "{ dup mul }", "{ 2 1 roll }", "{ 1 2 3 3 1 roll }", "{ 1 2 3 3 -1 roll }", "{ 5 1 roll }", "{ 1 2 2 5 roll }", "{ 1 2 2 -5 roll }",
        "{ 1 2 -1 1 roll }", "{ 0 0 roll }", "{ 1 0 1 roll }", "{ 1 2 2 2147483647 roll }", "{ 1 2 2 -2147483648 roll }", "{ 1e30 1 roll }",
        "{ 1 -1e30 roll }", "{ 1 2 2 1e30 roll }", "{ 1 2 2 -1e30 roll }", "{ roll }", "{ 1 roll }", "{ 0 index }", "{ 1 index }", "{ -1 index }", "{ 1e30 index }", "{ index }",
        "{ pop }", "{ pop pop }", "{ exch }", "{ add }", "{ 1 add sub }", "{ abs cvr }", "{ frob }", "}{", "} 1 {", "{", "}", "", "{ 1 2 }", "{ 4294967296 1 roll }",
        "{ 1 18446744073709551615 roll }", "{ 1 2 3 4294967295 1 roll }",
    ];
    for p in progs {
        for extra in ["/Domain [0.0 1.0] /Range [0.0 1.0]", "/Domain [0.0 1.0]", "/Domain [] /Range []", "/Domain [0.0 1.0 0.0 1.0] /Range [0.0 1.0 0.0 1.0 0.0 1.0]"] {
            opts.push(format!("S<< /FunctionType 4 {} >>|{}", extra, p));
        }
    }
    // type 0 (sampled)
    for size in ["[2]", "[0]", "[1]", "[2147483647]", "[2 2]", "[0 0]", "[2147483647 2147483647]", "[2 2 2]", "[2147483647 2147483647 2147483647]", "[]", "[-1]"] {
        for extra in [
            "/Domain [0.0 1.0] /Range [0.0 1.0] /BitsPerSample 8",
            "/Domain [0.0 1.0 0.0 1.0] /Range [0.0 1.0 0.0 1.0] /BitsPerSample 8",
            "/Domain [0.0 1.0 0.0 1.0 0.0 1.0] /Range [0.0 1.0] /BitsPerSample 8 /Encode [0.0 1e30 0.0 -1e30 0.0 1.0]",
            "/Domain [0.0 1.0] /BitsPerSample 8",
            "/Domain [0.0 1.0] /Range [0.0 1.0] /Order 3",
            "/Domain [0.0 1.0] /Range [0.0 1.0] /Order 0",
            "/Domain [0.0 1.0] /Range [0.0 1.0] /Encode [1e30 1e30] /Decode [0.0]",
            "/Domain [0.0 1.0] /Range [0.0 1.0] /Encode [-1e30 1e30]",
            "/Domain [-1e30 1e30] /Range [0.0 1.0] /Encode [0.0 1e30]",
        ] {
            opts.push(format!("S<< /FunctionType 0 /Size {} {} >>|\x01\x02\x03\x04", size, extra));
        }
    }
    let mut out = vec![];
    for o in opts {
        let mut objs = catalog_with("");
        objs.push((4, Body::Plain("<< /ColorSpace << /C0 [/Separation /Spot /DeviceRGB 10 0 R] >> >>".into())));
        let body = if let Some(d) = o.strip_prefix('D') {
            d.as_bytes().to_vec()
        } else {
            let rest = &o[1..];
            let (dict, data) = rest.split_once('|').unwrap();
            let dict = dict.trim_start_matches("<<").trim_end_matches(">>");
            stream_body(dict, data.as_bytes())
        };
        objs.push((10, Body::Raw(body)));
        let f = Frag { name: "functions", objs, slots: vec![], trailer: "/Root 1 0 R".into() };
        let mut p = f.instantiate(&[]);
        p.desc = format!("functions[{}]", o.replace('\n', " "));
        out.push(p);
    }
    out
}

/// images and their filters' numeric parameters
pub fn images() -> Frag {
    let mut objs = catalog_with("");
    objs.push((4, Body::Plain("<< /XObject << /X0 10 0 R /X1 11 0 R >> >>".into())));
    let slots = vec![num_slot("2"), num_slot("2"), num_slot("8"), num_slot("8"), num_slot("8"), num_slot("-1"), num_slot("0")];
    objs.push((10, Body::Stream("/Type /XObject /Subtype /Image /Width {0} /Height {1} /BitsPerComponent {2} /ColorSpace /DeviceGray /SMask 10 0 R".into(), None, vec![1, 2, 3, 4])));
    // a CCITT group 4 stream: one all-white row of 8 pixels is the single code `1` (V0) ... keep it tiny
    objs.push((11, Body::Stream("/Type /XObject /Subtype /Image /Width {3} /Height 1 /BitsPerComponent 1 /ImageMask true /Filter /CCITTFaxDecode /DecodeParms << /K {5} /Columns {4} /Rows {6} >>".into(), None, vec![0x80, 0x00, 0x10, 0x01])));
    Frag { name: "images", objs, slots, trailer: "/Root 1 0 R".into() }
}

/// Flate predictor geometry (flate_decode: D14, owned by the C05/C16 package)
pub fn predictor() -> Frag {
    let mut objs = vec![
        (1, Body::Plain("<< /Type /Catalog /Pages 2 0 R >>".into())),
        (2, Body::Plain("<< /Type /Pages /Kids [3 0 R] /Count 1 /MediaBox [0 0 10 10] >>".into())),
        (3, Body::Plain("<< /Type /Page /Parent 2 0 R /Resources << >> /Contents 5 0 R >>".into())),
    ];
    let slots = vec![num_slot("12"), num_slot("1"), num_slot("4"), num_slot("8")];
    // rows of 4 bytes with filter type 0 (None)
    let raw = b"\x00q Q \x00q Q ".to_vec();
    objs.push((5, Body::Stream("/Filter /FlateDecode /DecodeParms << /Predictor {0} /Colors {1} /Columns {2} /BitsPerComponent {3} >>".into(), None, zlib(&raw))));
    Frag { name: "predictor", objs, slots, trailer: "/Root 1 0 R".into() }
}

/// a truncated RunLength stream (D13, owned by the C05/C16 package)
pub fn runlength() -> Frag {
    let mut objs = vec![
        (1, Body::Plain("<< /Type /Catalog /Pages 2 0 R >>".into())),
        (2, Body::Plain("<< /Type /Pages /Kids [3 0 R] /Count 1 /MediaBox [0 0 10 10] >>".into())),
        (3, Body::Plain("<< /Type /Page /Parent 2 0 R /Resources << >> /Contents 5 0 R >>".into())),
    ];
    let slots = vec![];
    objs.push((5, Body::Stream("/Filter /RunLengthDecode".into(), None, vec![5, b'q', b' '])));
    Frag { name: "runlength", objs, slots, trailer: "/Root 1 0 R".into() }
}

/// /Encrypt with boundary key lengths (D18, owned by the C06 package)
pub fn crypt() -> Frag {
    let objs = vec![
        (1, Body::Plain("<< /Type /Catalog /Pages 2 0 R >>".into())),
        (2, Body::Plain("<< /Type /Pages /Kids [3 0 R] /Count 1 /MediaBox [0 0 10 10] >>".into())),
        (3, Body::Plain("<< /Type /Page /Parent 2 0 R /Resources << >> >>".into())),
        (6, Body::Plain("<< /Filter /Standard /V {0} /R {1} /Length {2} /P -1 /O (0123456789abcdef0123456789abcdef) /U (0123456789abcdef0123456789abcdef) >>".into())),
    ];
    let slots = vec![num_slot("2"), num_slot("3"), num_slot("128")];
    Frag { name: "crypt", objs, slots, trailer: "/Root 1 0 R /Encrypt 6 0 R /ID [(0123456789abcdef) (0123456789abcdef)]".into() }
}

/// numeric fields of the catalog / page level
pub fn page_numbers() -> Frag {
    let objs = vec![
        (1, Body::Plain("<< /Type /Catalog /Pages 2 0 R /Outlines << /Count {4} >> /StructTreeRoot << /Type /StructTreeRoot /K [] >> >>".into())),
        (2, Body::Plain("<< /Type /Pages /Kids [3 0 R] /Count 1 /MediaBox [{0} {1} 10 10] /CropBox [0 0 {0} {1}] >>".into())),
        (3, Body::Plain("<< /Type /Page /Parent 2 0 R /Resources << /ExtGState << /G0 << /LW {2} /LC {3} /LJ {3} /OPM {2} /Font [4 0 R {2}] >> >> >> /Rotate {2} /TrimBox [{1} {0} 1 1] >>".into())),
        (4, Body::Plain("<< /Type /Font /Subtype /Type1 /BaseFont /Helvetica >>".into())),
    ];
    let slots = vec![num_slot("0"), num_slot("0"), num_slot("90"), num_slot("1"), num_slot("0")];
    Frag { name: "page-numbers", objs, slots, trailer: "/Root 1 0 R /Size {4}".into() }
}

/// direct nesting of arrays / dictionaries beyond the parser's depth limit (20), in an object and in a
/// content stream
pub fn parser_depth(n: usize, dict: bool) -> Planted {
    let mut v = "7".to_string();
    for _ in 0..n {
        v = if dict { format!("<< /K {} >>", v) } else { format!("[{}]", v) };
    }
    let mut objs = catalog_with("");
    objs.push((4, Body::Plain(format!("<< /Properties << /P0 << /Deep {} >> >> >>", v))));
    objs.push((6, Body::Plain(v.clone())));
    objs.push((7, Body::Stream(String::new(), None, format!("/P0 {} DP q Q", v).into_bytes())));
    objs[2].1 = Body::Plain("<< /Type /Page /Parent 2 0 R /Resources 4 0 R /Contents [5 0 R 7 0 R] >>".into());
    let f = Frag { name: "parser-depth", objs, slots: vec![], trailer: "/Root 1 0 R".into() };
    let mut p = f.instantiate(&[]);
    p.desc = format!("parser-depth[{} n={}]", if dict { "dict" } else { "array" }, n);
    p
}

/// annotations and their appearance dictionaries (nested dictionaries of appearance states)
pub fn annotations(k: usize) -> Frag {
    let t: Vec<u64> = (10..10 + k as u64).collect();
    let mut objs = vec![
        (1, Body::Plain("<< /Type /Catalog /Pages 2 0 R >>".into())),
        (2, Body::Plain("<< /Type /Pages /Kids [3 0 R] /Count 1 /MediaBox [0 0 10 10] >>".into())),
        (3, Body::Plain("<< /Type /Page /Parent 2 0 R /Resources << >> /Annots [8 0 R] >>".into())),
        (7, Body::Stream("/Type /XObject /Subtype /Form /BBox [0 0 1 1]".into(), None, b"q Q".to_vec())),
    ];
    let mut slots = vec![];
    slots.push(Slot { aux: true, ..refs_slot(&[10, 11, 7, 3, 8], 10) });
    slots.push(Slot { aux: true, ..opt_key_slot("P", &[3, 2, 8, 10], Some(3)) });
    objs.push((8, Body::Plain("<< /Type /Annot /Subtype /Widget /Rect [0 0 1 1] {1} /AP << /N {0} /D {0} >> >>".into())));
    for (i, id) in t.iter().enumerate() {
        let mut options = vec!["<< /On 7 0 R /Off 7 0 R >>".to_string(), rf(7)];
        for a in &t {
            options.push(format!("<< /On {} /Off 7 0 R >>", rf(*a)));
            options.push(format!("<< /On << /In {} >> >>", rf(*a)));
        }
        let d = if i + 1 < k { 2 + 2 * (i + 1) } else { 0 };
        slots.push(choice_slot(options, d));
        objs.push((*id, Body::Plain(format!("{{{}}}", slots.len() - 1))));
    }
    Frag { name: "annotations", objs, slots, trailer: "/Root 1 0 R".into() }
}

/// `levels` nodes, node i has two kids that are both node i+1 (a "ladder"): walks and loads that do not
/// remember what they visited take 2^levels steps
pub fn ladder(kind: &str, levels: u64) -> Planted {
    let mut objs: Vec<(u64, Vec<u8>)> = vec![
        (2, b"<< /Type /Pages /Kids [3 0 R] /Count 1 /MediaBox [0 0 10 10] >>".to_vec()),
    ];
    let first = 10u64;
    match kind {
        "nametree" | "numbertree" => {
            let key = if kind == "nametree" { "/Names << /Dests 10 0 R >>" } else { "/PageLabels 10 0 R" };
            objs.push((1, format!("<< /Type /Catalog /Pages 2 0 R {} >>", key).into_bytes()));
            objs.push((3, b"<< /Type /Page /Parent 2 0 R /Resources << >> >>".to_vec()));
            for i in 0..levels {
                let me = first + i;
                if i + 1 == levels {
                    objs.push((me, if kind == "nametree" { b"<< /Names [(a) (b)] >>".to_vec() } else { b"<< /Nums [1 (b)] >>".to_vec() }));
                } else {
                    objs.push((me, format!("<< /Kids [{} {}] >>", rf(me + 1), rf(me + 1)).into_bytes()));
                }
            }
        }
        _ => {
            objs.push((1, b"<< /Type /Catalog /Pages 2 0 R >>".to_vec()));
            objs.push((3, b"<< /Type /Page /Parent 2 0 R /Resources << /Font << /F1 10 0 R >> >> >>".to_vec()));
            for i in 0..levels {
                let me = first + i;
                if i + 1 == levels {
                    objs.push((me, b"<< /Type /Font /Subtype /Type1 /BaseFont /Leaf >>".to_vec()));
                } else {
                    objs.push((me, format!("<< /Type /Font /Subtype /Type0 /BaseFont /C /Encoding /Identity-H /DescendantFonts [{} {}] >>", rf(me + 1), rf(me + 1)).into_bytes()));
                }
            }
        }
    }
    objs.sort_by_key(|o| o.0);
    Planted { frag: "ladder", desc: format!("ladder[{} levels={}]", kind, levels), bytes: build_doc(&objs, "/Root 1 0 R") }
}

/// **Shared sub-structure reached through every typed struct that has more than one followed entry** (the
/// /DescendantFonts ladder is `ladder("fonts", _)`): `a` entries of /Annots that are the same annotation, whose
/// /AP /N is a dictionary of `f` states that are the same dictionary of `f` states that are the same form, whose
/// /Resources has `m` colour spaces that are the same chain of `l` ICC-based spaces (each the /Alternate of the one
/// before). The file has a + 2f + m + 2l + 8 short objects or entries; a loader that does not remember what it
/// loaded does a·f²·m·l loads (no typed struct of the schema has two followed entries on a *recursive* path, so
/// there is no 2^n ladder other than the repaired /DescendantFonts one; the product of independent fan-outs is what
/// the schema allows).
pub fn fanout(a: usize, f: usize, m: usize, l: usize) -> Planted {
    let mut objs: Vec<(u64, Vec<u8>)> = vec![
        (1, b"<< /Type /Catalog /Pages 2 0 R >>".to_vec()),
        (2, b"<< /Type /Pages /Kids [3 0 R] /Count 1 /MediaBox [0 0 10 10] >>".to_vec()),
    ];
    let rep = |n: usize, id: u64| (0..n).map(|_| rf(id)).collect::<Vec<_>>().join(" ");
    let states = |n: usize, id: u64| (0..n).map(|i| format!("/s{} {}", i, rf(id))).collect::<Vec<_>>().join(" ");
    objs.push((3, format!("<< /Type /Page /Parent 2 0 R /Resources 8 0 R /Annots [{}] >>", rep(a, 4)).into_bytes()));
    objs.push((4, b"<< /Type /Annot /Subtype /Widget /Rect [0 0 1 1] /P 3 0 R /AP << /N 5 0 R /D 5 0 R /R 5 0 R >> >>".to_vec()));
    objs.push((5, format!("<< {} >>", states(f, 6)).into_bytes()));
    objs.push((6, format!("<< {} >>", states(f, 7)).into_bytes()));
    let form = b"<< /Type /XObject /Subtype /Form /BBox [0 0 1 1] /Resources 8 0 R /Length 3 >>\nstream\nq Q\nendstream".to_vec();
    objs.push((7, form));
    objs.push((8, format!("<< /ColorSpace << {} >> >>", states(m, 10)).into_bytes()));
    for i in 0..l as u64 {
        let arr = 10 + 2 * i;
        objs.push((arr, format!("[/ICCBased {}]", rf(arr + 1)).into_bytes()));
        let alt = if i + 1 == l as u64 { "/DeviceRGB".to_string() } else { rf(arr + 2) };
        objs.push((arr + 1, format!("<< /N 3 /Alternate {} /Length 1 >>\nstream\nx\nendstream", alt).into_bytes()));
    }
    objs.sort_by_key(|o| o.0);
    Planted { frag: "fanout", desc: format!("fanout[a={} f={} m={} l={}]", a, f, m, l), bytes: build_doc(&objs, "/Root 1 0 R") }
}

/// a chain of `n` nested eager loads entered through a low object number: page-tree /Parent links or
/// composite fonts (nesting beyond any supported depth)
pub fn deep_chain(kind: &str, n: u64) -> Planted {
    let mut objs: Vec<(u64, Vec<u8>)> = vec![(1, b"<< /Type /Catalog /Pages 2 0 R >>".to_vec())];
    if kind == "parents" {
        objs.push((2, b"<< /Type /Pages /Kids [4 0 R] /Count 1 /MediaBox [0 0 1 1] >>".to_vec()));
        objs.push((4, b"<< /Type /Page /Parent 10 0 R >>".to_vec()));
        for i in 0..n {
            let me = 10 + i;
            let parent = if i + 1 == n { 2 } else { me + 1 };
            objs.push((me, format!("<< /Type /Pages /Parent {} /Kids [4 0 R] /Count 1 >>", rf(parent)).into_bytes()));
        }
    } else {
        objs.push((2, b"<< /Type /Pages /Kids [3 0 R] /Count 1 /MediaBox [0 0 1 1] >>".to_vec()));
        objs.push((3, b"<< /Type /Page /Parent 2 0 R /Resources << /Font << /F1 10 0 R >> >> >>".to_vec()));
        for i in 0..n {
            let me = 10 + i;
            if i + 1 == n {
                objs.push((me, b"<< /Type /Font /Subtype /Type1 /BaseFont /Leaf >>".to_vec()));
            } else {
                objs.push((me, format!("<< /Type /Font /Subtype /Type0 /BaseFont /C /Encoding /Identity-H /DescendantFonts [{}] >>", rf(me + 1)).into_bytes()));
            }
        }
    }
    Planted { frag: "deep-chain", desc: format!("deep-chain[{} n={}]", kind, n), bytes: build_doc(&objs, "/Root 1 0 R") }
}

/// the references of the trailer pointed at every kind of object
pub fn trailer_refs() -> Frag {
    let objs = vec![
        (1, Body::Plain("<< /Type /Catalog /Pages 2 0 R >>".into())),
        (2, Body::Plain("<< /Type /Pages /Kids [3 0 R] /Count 1 /MediaBox [0 0 10 10] >>".into())),
        (3, Body::Plain("<< /Type /Page /Parent 2 0 R /Resources << >> /Contents 5 0 R >>".into())),
        (5, Body::Stream(String::new(), None, b"q Q".to_vec())),
        (6, Body::Plain("6 0 R".into())),
        (7, Body::Plain("<< /Title (t) /Producer (p) /CreationDate (D:20200101000000Z) >>".into())),
        (8, Body::Plain("[1 0 R]".into())),
    ];
    let t = [1u64, 2, 3, 5, 6, 7, 8, 9];
    let slots = vec![refs_slot(&t, 1), opt_key_slot("Info", &t, Some(7)), opt_key_slot("Encrypt", &t, None), opt_key_slot("Prev", &t, None)];
    Frag { name: "trailer-refs", objs, slots, trailer: "/Root {0} {1} {2} {3} /ID [(0123456789abcdef) (0123456789abcdef)]".into() }
}

/// A hostile construct as a kit that can be combined with another one in the same document: entries for
/// the catalog, the page, the resources dictionary, and the kit's own objects.
pub struct Kit {
    pub name: &'static str,
    pub catalog: String,
    pub page: String,
    pub resources: String,
    pub objs: Vec<(u64, Vec<u8>)>,
}

pub fn kits() -> Vec<Kit> {
    let f2 = "<< /FunctionType 2 /Domain [0.0 1.0] /N 1.0 >>";
    let mut v = vec![
        Kit { name: "cyclic-name-tree", catalog: "/Names << /Dests 110 0 R /EmbeddedFiles 110 0 R >>".into(), page: String::new(), resources: String::new(),
            objs: vec![(110, b"<< /Kids [111 0 R] >>".to_vec()), (111, b"<< /Kids [110 0 R 111 0 R] >>".to_vec())] },
        Kit { name: "cyclic-number-tree", catalog: "/PageLabels 120 0 R".into(), page: String::new(), resources: String::new(),
            objs: vec![(120, b"<< /Kids [121 0 R] >>".to_vec()), (121, b"<< /Kids [120 0 R] >>".to_vec())] },
        Kit { name: "self-reference", catalog: String::new(), page: "/CropBox 130 0 R /Rotate 130 0 R".into(), resources: "/Properties << /P0 131 0 R >>".into(),
            objs: vec![(130, b"130 0 R".to_vec()), (131, b"132 0 R".to_vec()), (132, b"131 0 R".to_vec())] },
        Kit { name: "font-cycle", catalog: String::new(), page: String::new(), resources: "/Font << /F9 140 0 R >>".into(),
            objs: vec![(140, b"<< /Type /Font /Subtype /Type0 /BaseFont /C /Encoding /Identity-H /DescendantFonts [141 0 R] >>".to_vec()),
                       (141, b"<< /Type /Font /Subtype /Type0 /BaseFont /C /Encoding /Identity-H /DescendantFonts [140 0 R] >>".to_vec())] },
        Kit { name: "devicen-self", catalog: String::new(), page: String::new(), resources: "/ColorSpace << /C9 150 0 R >>".into(),
            objs: vec![(150, format!("[/DeviceN [/A] 150 0 R {}]", f2).into_bytes())] },
        Kit { name: "appearance-self", catalog: String::new(), page: "/Annots [160 0 R]".into(), resources: String::new(),
            objs: vec![(160, b"<< /Type /Annot /Subtype /Widget /Rect [0 0 1 1] /P 3 0 R /AP << /N 161 0 R >> >>".to_vec()), (161, b"<< /On 161 0 R >>".to_vec())] },
        Kit { name: "outline-ring", catalog: "/Outlines << /Type /Outlines /First 180 0 R /Last 180 0 R /Count 2147483647 >>".into(), page: String::new(), resources: String::new(),
            objs: vec![(180, b"<< /Title (t) /Next 180 0 R /Prev 180 0 R /First 180 0 R /Count -1 >>".to_vec())] },
        Kit { name: "hostile-function", catalog: String::new(), page: String::new(), resources: "/XObject << /X9 192 0 R >> /Pattern << /P9 191 0 R >>".into(),
            objs: vec![(190, stream_body("/FunctionType 4 /Domain [0.0 1.0] /Range [0.0 1.0]", b"{ 5 1 roll }")), (191, b"191 0 R".to_vec()),
                       (192, stream_body("/Type /XObject /Subtype /Image /Width 1 /Height 1 /BitsPerComponent 8 /ColorSpace [/Separation /S /DeviceRGB 190 0 R]", &[7u8]))] },
    ];
    // a chain of 70 composite fonts (deeper than the nesting limit)
    let mut chain = vec![];
    for i in 0..70u64 {
        let me = 200 + i;
        chain.push((me, if i == 69 { b"<< /Type /Font /Subtype /Type1 /BaseFont /Leaf >>".to_vec() } else { format!("<< /Type /Font /Subtype /Type0 /BaseFont /C /Encoding /Identity-H /DescendantFonts [{}] >>", rf(me + 1)).into_bytes() }));
    }
    v.push(Kit { name: "deep-font-chain", catalog: String::new(), page: String::new(), resources: "/ExtGState << /G9 << /Font [200 0 R 1.0] >> >>".into(), objs: chain });
    v
}

/// two kits in one document
pub fn combo(a: &Kit, b: &Kit, v: Variant) -> Planted {
    let mut objs: Vec<(u64, Body)> = vec![
        (1, Body::Plain(format!("<< /Type /Catalog /Pages 2 0 R {} {} >>", a.catalog, b.catalog))),
        (2, Body::Plain("<< /Type /Pages /Kids [3 0 R] /Count 1 /MediaBox [0 0 10 10] >>".into())),
        (3, Body::Plain(format!("<< /Type /Page /Parent 2 0 R /Resources 4 0 R /Contents 5 0 R {} {} >>", a.page, b.page))),
        (4, Body::Plain(format!("<< {} {} >>", a.resources, b.resources))),
        (5, Body::Stream(String::new(), None, CONTENT.to_vec())),
    ];
    for k in [a, b] {
        for (id, body) in &k.objs {
            // plain bodies may be stored compressed; streams may not
            if body.windows(6).any(|w| w == b"stream") {
                objs.push((*id, Body::Raw(body.clone())));
            } else {
                objs.push((*id, Body::Plain(String::from_utf8_lossy(body).replace('{', "{{").replace('}', "}}"))));
            }
        }
    }
    // (the bodies contain no slot placeholders: the doubled braces above are undone here)
    for o in objs.iter_mut() {
        if let Body::Plain(t) = &mut o.1 {
            *t = t.replace("{{", "{").replace("}}", "}");
        }
    }
    let f = Frag { name: "combo", objs, slots: vec![], trailer: "/Root 1 0 R".into() };
    let mut p = f.instantiate_as(&[], v);
    p.desc = format!("combo[{} + {}]|prefix={}|compressed={}", a.name, b.name, v.prefix, v.compressed);
    p
}

// ---------------------------------------------------------------------------------------------------
// documents that need their own layout (cross-reference streams, object streams, /Prev)

pub struct RawDoc {
    pub out: Vec<u8>,
    /// position of the header: every offset written into the file is relative to it
    pub base: usize,
}
impl RawDoc {
    pub fn new() -> RawDoc {
        RawDoc::with_prefix(0)
    }
    pub fn with_prefix(prefix: usize) -> RawDoc {
        let mut out = junk(prefix);
        out.extend_from_slice(b"%PDF-1.7\n%\xe2\xe3\xcf\xd3\n");
        RawDoc { out, base: prefix }
    }
    /// header-relative position of the next byte
    pub fn pos(&self) -> usize {
        self.out.len() - self.base
    }
    pub fn obj(&mut self, id: u64, body: &[u8]) -> usize {
        let p = self.pos();
        self.out.extend_from_slice(format!("{} 0 obj\n", id).as_bytes());
        self.out.extend_from_slice(body);
        self.out.extend_from_slice(b"\nendobj\n");
        p
    }
    pub fn text(&mut self, s: &str) {
        self.out.extend_from_slice(s.as_bytes());
    }
    pub fn end(&mut self, startxref: &str) {
        self.text(&format!("startxref\n{}\n%%EOF\n", startxref));
    }
}

fn basic_three(d: &mut RawDoc) -> Vec<(u64, usize)> {
    let mut offs = vec![];
    offs.push((1, d.obj(1, b"<< /Type /Catalog /Pages 2 0 R >>")));
    offs.push((2, d.obj(2, b"<< /Type /Pages /Kids [3 0 R] /Count 1 /MediaBox [0 0 10 10] >>")));
    offs.push((3, d.obj(3, b"<< /Type /Page /Parent 2 0 R /Resources << >> >>")));
    offs
}

/// cross-reference stream with arbitrary /W, /Index, /Size texts. `rows`: (type, f1, f2) written with the
/// *honest* widths `hw`; the dictionary may lie.
pub fn xref_stream_doc(w: [&str; 3], index: Option<&str>, size: &str, hw: [usize; 3], extra_rows: usize, prev: Option<&str>) -> Vec<u8> {
    xref_stream_doc_at(0, w, index, size, hw, extra_rows, prev)
}

pub fn xref_stream_doc_at(prefix: usize, w: [&str; 3], index: Option<&str>, size: &str, hw: [usize; 3], extra_rows: usize, prev: Option<&str>) -> Vec<u8> {
    let mut d = RawDoc::with_prefix(prefix);
    let offs = basic_three(&mut d);
    let xpos = d.pos();
    let mut rows: Vec<(u64, u64, u64)> = vec![(0, 0, 65535)];
    for (_, o) in &offs {
        rows.push((1, *o as u64, 0));
    }
    rows.push((1, xpos as u64, 0));
    for _ in 0..extra_rows {
        rows.push((0, 0, 0));
    }
    let mut data = vec![];
    for (t, a, b) in rows {
        data.extend_from_slice(&t.to_be_bytes()[8 - hw[0]..]);
        data.extend_from_slice(&a.to_be_bytes()[8 - hw[1]..]);
        data.extend_from_slice(&b.to_be_bytes()[8 - hw[2]..]);
    }
    let idx = index.map(|i| format!("/Index [{}]", i)).unwrap_or_default();
    let pv = prev.map(|p| format!("/Prev {}", p)).unwrap_or_default();
    let dict = format!("/Type /XRef /Size {} /W [{} {} {}] {} {} /Root 1 0 R", size, w[0], w[1], w[2], idx, pv);
    d.obj(4, &stream_body(&dict, &data));
    d.end(&xpos.to_string());
    d.out
}

/// hostile *entries*: objects 1..3 plus a content stream 5; the table (classic or stream, 8-byte offset
/// field) gives object `victim` the offset `off` (header-relative, as every offset in a file) and, for
/// `startxref`, `sx` instead of the true position (None: true position).
#[derive(Clone, Debug)]
pub enum Off {
    /// the true (header-relative) offset of this object
    Of(u64),
    /// the true offset of this object plus a signed distance
    OfPlus(u64, i64),
    Lit(u64),
}

pub fn xref_offsets_doc(prefix: usize, stream_table: bool, victim: u64, off: &Off, sx: Option<&str>) -> Vec<u8> {
    let mut d = RawDoc::with_prefix(prefix);
    let mut offs = basic_three(&mut d);
    offs[2].1 = {
        // the page gets contents so that a stream range depends on the offsets too
        let p = d.obj(3, b"<< /Type /Page /Parent 2 0 R /Resources << >> /Contents 5 0 R >>");
        p
    };
    offs.push((5, d.obj(5, &stream_body("", b"q Q BT ET"))));
    let xpos = d.pos();
    let mut rows: Vec<(u64, u64)> = vec![(0, 0); 7];
    for (id, o) in &offs {
        rows[*id as usize] = (1, *o as u64);
    }
    rows[4] = (0, 0);
    if victim < 6 {
        let truth = |id: u64| offs.iter().find(|o| o.0 == id).map(|o| o.1 as u64).unwrap_or(0);
        let off = match off {
            Off::Of(id) => truth(*id),
            Off::OfPlus(id, d) => (truth(*id) as i64 + d).max(0) as u64,
            Off::Lit(v) => *v,
        };
        rows[victim as usize] = (1, off);
    }
    if stream_table {
        rows[6] = (1, xpos as u64);
        let mut data = vec![];
        for (i, (t, a)) in rows.iter().enumerate() {
            data.push(if i == 0 { 0 } else { *t as u8 });
            data.extend_from_slice(&a.to_be_bytes());
            data.extend_from_slice(&(if i == 0 { 65535u16 } else { 0 }).to_be_bytes());
        }
        d.obj(6, &stream_body("/Type /XRef /Size 7 /W [1 8 2] /Root 1 0 R", &data));
    } else {
        d.text("xref\n0 6\n");
        for (i, (t, a)) in rows.iter().take(6).enumerate() {
            if i == 0 || *t == 0 {
                d.text("0000000000 65535 f \n");
            } else {
                // a classic entry has ten digits; larger numbers are written as they are (the reader takes tokens)
                d.text(&format!("{:010} 00000 n \n", a));
            }
        }
        d.text("trailer\n<< /Size 6 /Root 1 0 R >>\n");
    }
    match sx {
        None => d.end(&xpos.to_string()),
        Some(t) => d.end(&t.replace("@x", &xpos.to_string()).replace("@X", &(xpos + prefix).to_string())),
    }
    d.out
}

/// object streams: members, N, First, offsets as texts; cross-reference entries may put an object
/// stream inside itself or inside another one
pub struct ObjStmSpec {
    pub n: String,
    pub first: String,
    /// the header text (pairs "objnr offset")
    pub header: String,
    pub body: Vec<u8>,
    pub extends: Option<u64>,
}

/// objects 1..3 plain; object streams 10 (and 11); compressed members 20, 21 in stream `m_stm` at
/// indices 0, 1; `stm10_in` / `stm11_in`: Some((stream, index)) puts the xref entry of the object stream
/// itself into a stream (instead of its file offset).
pub fn objstm_doc(s10: &ObjStmSpec, s11: Option<&ObjStmSpec>, members: &[(u64, u64, u64)], stm10_in: Option<(u64, u64)>, stm11_in: Option<(u64, u64)>) -> Vec<u8> {
    objstm_doc_at(0, s10, s11, members, stm10_in, stm11_in)
}

pub fn objstm_doc_at(prefix: usize, s10: &ObjStmSpec, s11: Option<&ObjStmSpec>, members: &[(u64, u64, u64)], stm10_in: Option<(u64, u64)>, stm11_in: Option<(u64, u64)>) -> Vec<u8> {
    let mut d = RawDoc::with_prefix(prefix);
    let offs = basic_three(&mut d);
    let mk = |s: &ObjStmSpec| -> Vec<u8> {
        let mut data = s.header.clone().into_bytes();
        data.extend_from_slice(&s.body);
        let ext = s.extends.map(|e| format!("/Extends {}", rf(e))).unwrap_or_default();
        stream_body(&format!("/Type /ObjStm /N {} /First {} {}", s.n, s.first, ext), &data)
    };
    let p10 = d.obj(10, &mk(s10));
    let p11 = s11.map(|s| d.obj(11, &mk(s)));
    let xpos = d.pos();
    // rows for ids 0..=21 + xref stream 22
    let mut rows: Vec<(u64, u64, u64)> = vec![(0, 0, 0); 23];
    rows[0] = (0, 0, 65535);
    for (id, o) in &offs {
        rows[*id as usize] = (1, *o as u64, 0);
    }
    rows[10] = match stm10_in { Some((s, i)) => (2, s, i), None => (1, p10 as u64, 0) };
    if let Some(p) = p11 {
        rows[11] = match stm11_in { Some((s, i)) => (2, s, i), None => (1, p as u64, 0) };
    }
    for (id, stm, idx) in members {
        rows[*id as usize] = (2, *stm, *idx);
    }
    rows[22] = (1, xpos as u64, 0);
    let mut data = vec![];
    for (t, a, b) in rows {
        data.push(t as u8);
        data.extend_from_slice(&a.to_be_bytes()[4..]);
        data.extend_from_slice(&b.to_be_bytes()[6..]);
    }
    let dict = "/Type /XRef /Size 23 /W [1 4 2] /Root 1 0 R".to_string();
    d.obj(22, &stream_body(&dict, &data));
    d.end(&xpos.to_string());
    d.out
}

/// a /Prev value (or `startxref`): all numbers written into the file are header-relative
#[derive(Clone, Debug, PartialEq)]
pub enum Pv {
    None,
    /// the position of section j
    Sec(usize),
    /// the position of section j plus a signed distance (e.g. the prefix length: a wrongly based offset)
    SecPlus(usize, i64),
    /// this text
    Lit(String),
}

pub struct PrevDoc {
    pub bytes: Vec<u8>,
    pub prefix: usize,
    /// header-relative position of every section (section 0 is the newest one)
    pub sec_pos: Vec<usize>,
    /// the number written for every /Prev (None: absent or not a number)
    pub prev_val: Vec<Option<u64>>,
    pub startxref_val: Option<u64>,
}

pub const SECTION_SPACING: usize = 320;

/// Cross-reference sections (classic tables or streams) chained by /Prev behind `prefix` junk bytes. The
/// sections start `SECTION_SPACING` bytes apart, so that a prefix of that length (or twice that) makes an
/// offset taken in the wrong coordinate system land exactly on another section.
pub fn prev_doc_at(prefix: usize, prevs: &[Pv], stream_sections: bool, startxref: &Pv) -> PrevDoc {
    let mut d = RawDoc::with_prefix(prefix);
    let offs = basic_three(&mut d);
    let n = prevs.len();
    // the gaps are filled with a junk token, not with white space: a reader skips white space, which
    // would make every position of a gap an alias of the section behind it
    let pad_to = |d: &mut RawDoc, target: usize| {
        while d.pos() + 1 < target {
            d.text("j");
        }
        if d.pos() < target {
            d.text("\n");
        }
    };
    let origin = (d.pos() + 2 + SECTION_SPACING - 1) / SECTION_SPACING * SECTION_SPACING;
    pad_to(&mut d, origin);
    // written oldest first: section n-1 at the origin, section 0 last
    let sec_pos: Vec<usize> = (0..n).map(|k| origin + (n - 1 - k) * SECTION_SPACING).collect();
    let value = |p: &Pv| -> (String, Option<u64>) {
        match p {
            Pv::None => (String::new(), None),
            Pv::Sec(j) => (sec_pos[*j].to_string(), Some(sec_pos[*j] as u64)),
            Pv::SecPlus(j, delta) => { let v = (sec_pos[*j] as i64 + delta).max(0) as u64; (v.to_string(), Some(v)) }
            Pv::Lit(t) => (t.clone(), t.parse::<u64>().ok()),
        }
    };
    let mut prev_val = vec![None; n];
    for k in (0..n).rev() {
        pad_to(&mut d, sec_pos[k]);
        assert_eq!(d.pos(), sec_pos[k], "section longer than the spacing");
        let (t, v) = value(&prevs[k]);
        prev_val[k] = v;
        let pv = if prevs[k] == Pv::None { String::new() } else { format!("/Prev {}", t) };
        if stream_sections {
            // one-digit object numbers: "30 0 obj" read from its second byte is the valid "0 0 obj"
            let id = 4 + (k as u64 % 6);
            let mut rows: Vec<(u64, u64, u64)> = vec![(0, 0, 65535)];
            for (_, o) in &offs {
                rows.push((1, *o as u64, 0));
            }
            let mut data = vec![];
            for (t, a, b) in rows {
                data.push(t as u8);
                data.extend_from_slice(&a.to_be_bytes()[4..]);
                data.extend_from_slice(&b.to_be_bytes()[6..]);
            }
            let dict = format!("/Type /XRef /Size 40 /W [1 4 2] /Index [0 4] {} /Root 1 0 R", pv);
            d.obj(id, &stream_body(&dict, &data));
        } else {
            d.text("xref\n0 4\n0000000000 65535 f \n");
            for (_, o) in &offs {
                d.text(&format!("{:010} 00000 n \n", o));
            }
            d.text(&format!("trailer\n<< /Size 4 /Root 1 0 R {} >>\n", pv));
        }
    }
    let (t, v) = value(startxref);
    d.end(&t);
    PrevDoc { bytes: d.out, prefix, sec_pos, prev_val, startxref_val: v }
}

/// the former interface: `prevs[i]` is the /Prev text of section i, `@k` stands for the position of section k
pub fn prev_doc(prevs: &[Option<String>], stream_sections: bool) -> Vec<u8> {
    let pv: Vec<Pv> = prevs.iter().map(|p| match p {
        None => Pv::None,
        Some(t) => match t.strip_prefix('@').and_then(|k| k.parse::<usize>().ok()) { Some(k) => Pv::Sec(k), None => Pv::Lit(t.clone()) },
    }).collect();
    prev_doc_at(0, &pv, stream_sections, &Pv::Sec(0)).bytes
}
