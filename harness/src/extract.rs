//! The translator (DESIGN.md §2.2): `pdfverif extract --out-dir <lean/PdfModel/Generated>`.
//!
//! Parses `<repo>/pdf/src/**/*.rs` with `syn`, finds every `#[derive(Object)]` / `#[derive(ObjectWrite)]`
//! struct and enum together with its `#[pdf(..)]` attributes and the *shape* of every field type, and writes
//!
//!   Generated/Schemas.lean   Lean data (`Generated.generatedSchemas : List Derive.Schema`, the error kinds the
//!                            `Option` reader treats as "object does not exist")
//!   Generated/schemas.json   the same registry for the harness / the evidence
//!
//! The attribute grammar mirrors `pdf_derive/src/lib.rs` (`GlobalAttrs::from_ast`, `FieldAttrs::parse`,
//! `enum_pairs`, the discriminant test of `impl_object_for_enum`). Anything the translator does not
//! understand (an unknown attribute, a type form it has no shape for, a file that does not parse, two derive
//! items with the same name, a generic model with more than one parameter, the `Option` reader not found) is a
//! *problem*: the sub-command exits 1 and `./check` reports it like a broken proof obligation. Nothing is
//! skipped silently.
//!
//! This file is self-contained (std + syn + serde_json) because `build.rs` includes it too: the typed Rust
//! registry (`$OUT_DIR/typed_registry.rs`, see `rust_registry`) is produced at build time from the very tree
//! the harness is compiled against.
//!
//! Two methods (follow-up 4): the `#[pdf(..)]` schemas are read off the source with `syn` (attributes are
//! declarations). Byte classes, numeric limits, the facts about the `Option` reader and the tag ↔ variant dispatch of
//! the hand-written readers / writers are *observed* by probing the compiled crate (`c15_probe.rs`, harness binary
//! only) wherever they are observable; the source patterns below are then the fallback and a cross-check
//! (`finalize`: the behaviour wins, a disagreement is a note, an item neither method determines is a failure).

use serde_json::{json, Value};
use std::collections::{BTreeMap, BTreeSet};
use std::path::{Path, PathBuf};

#[derive(Clone, Debug, PartialEq)]
pub enum Shape {
    Leaf(String),
    LeafApp(String, Box<Shape>),
    Model(String),
    ModelApp(String, Box<Shape>),
    Param(String),
    Option(Box<Shape>),
    Vec(Box<Shape>),
    HashMap(Box<Shape>),
    Boxed(Box<Shape>),
    MaybeRef(Box<Shape>),
    RcRef(Box<Shape>),
    Ref(Box<Shape>),
    Lazy(Box<Shape>),
    Pair(Box<Shape>, Box<Shape>),
}

#[derive(Clone, Debug)]
pub struct Field {
    pub ident: String,
    pub key: Option<String>,
    pub default: Option<String>,
    pub other: bool,
    pub skip: bool,
    pub indirect: bool,
    pub ty: String,
    pub shape: Shape,
    /// `pub` field (the harness can take the value apart / clear the catch-all from outside the crate)
    pub public: bool,
}

#[derive(Clone, Debug)]
pub struct Variant {
    pub ident: String,
    pub name: String,
    pub other: bool,
    pub disc: Option<i64>,
    /// payload type of a stream-enum variant / of the `other` variant
    pub payload: Option<String>,
}

#[derive(Clone, Debug)]
pub struct Model {
    pub name: String,
    pub file: String,
    pub line: usize,
    /// struct | name_enum | int_enum | stream_enum | stream_struct
    pub kind: String,
    pub params: Vec<String>,
    pub derives_read: bool,
    pub derives_write: bool,
    pub derives_debug: bool,
    pub public: bool,
    /// Rust path under which the harness can name the type (None: private / not reachable)
    pub path: Option<String>,
    pub type_name: Option<String>,
    pub type_required: bool,
    pub checks: Vec<(String, String)>,
    pub is_stream: bool,
    pub fields: Vec<Field>,
    pub variants: Vec<Variant>,
}

#[derive(Default, Debug)]
pub struct OptionReader {
    /// error variants for which `Option<T>::from_primitive` answers `Ok(None)` in every mode
    pub missing_kinds: Vec<String>,
    /// wrappers looked through before that test
    pub peeled: Vec<String>,
    /// the remaining errors are mapped to `None` iff this option flag is set
    pub tolerant_flag: Option<String>,
    /// where the variants were found: "arms" (listed in the match of the Option reader itself) or the name
    /// of the `PdfError` method the guard calls
    pub via: String,
}

/// one `match` arm of a hand-written reader (`tags` in the pattern / guard → `variants` constructed in the body)
/// or writer (`variants` in the pattern → `tags` emitted in the body)
#[derive(Clone, Debug, PartialEq)]
pub struct Arm {
    pub func: String,
    pub tags: Vec<String>,
    pub variants: Vec<String>,
}

/// the tag ↔ variant dispatch of the hand-written readers and writers of one value enum (`FontData`, `DestView`,
/// `ColorSpace`, `StreamFilter`, `XObject`, `Action`, …)
#[derive(Clone, Debug, Default)]
pub struct Dispatch {
    pub value_enum: String,
    pub variants: Vec<String>,
    pub reader: Vec<Arm>,
    pub writer: Vec<Arm>,
}

/// byte classes and constants read off the source (Generated/Lexical.lean)
#[derive(Default, Debug, Clone)]
pub struct Lexical {
    /// name → sorted set of byte values
    pub sets: BTreeMap<String, Vec<u8>>,
    /// name → byte string (order kept)
    pub strings: BTreeMap<String, Vec<u8>>,
    /// name → number
    pub nats: BTreeMap<String, u64>,
    /// where each item was found (documentation)
    pub origin: BTreeMap<String, String>,
}

#[derive(Default, Debug)]
pub struct Extracted {
    pub lexical: Lexical,
    pub dispatch: Vec<Dispatch>,
    pub models: Vec<Model>,
    pub option_reader: OptionReader,
    pub problems: Vec<String>,
    pub files: Vec<String>,
    /// `X` of every `Stream<X>` spelled anywhere in the sources (`()` or the name of a derived model)
    pub stream_infos: Vec<String>,
    /// every `enum` of the crate with its variants, as declared
    pub enums: BTreeMap<String, Vec<String>>,
    /// what the syntactic extraction of the byte classes / constants could not find (a failure only if the probe
    /// of the compiled crate cannot determine the item either — see `finalize`)
    pub lex_problems: Vec<String>,
    /// the same for the `Option` reader
    pub opt_problems: Vec<String>,
    /// discrepancies between the two methods, fallbacks (printed, not failures)
    pub notes: Vec<String>,
}

/// What probing the compiled crate observed (harness binary only: `c15_probe.rs`; build.rs has no crate to probe).
/// Same names as `Lexical`; `None` / absent = the probe could not determine the item.
#[derive(Default, Debug)]
pub struct Probed {
    pub sets: BTreeMap<String, Vec<u8>>,
    pub strings: BTreeMap<String, Vec<u8>>,
    pub nats: BTreeMap<String, u64>,
    /// why an item could not be probed
    pub failed: BTreeMap<String, String>,
    pub option_reader: Option<OptionReader>,
    /// error kinds the probe can construct (the others keep their syntactic classification)
    pub option_kinds_probed: Vec<String>,
    /// canonical tables for the value enums the probe knows how to feed
    pub dispatch: Vec<Dispatch>,
    pub notes: Vec<String>,
}

/// every item of Generated/Lexical.lean with the text that documents it there (fixed: the file must not change
/// when the source is rewritten without changing behaviour)
pub const LEXICAL_ITEMS: &[(&str, char, &str)] = &[
    ("a85DecodeWhitespace", 's', "bytes the ASCII85 decoder skips (enc.rs decode_85)"),
    ("hexDecodeWhitespace", 's', "bytes the ASCIIHex decoder skips (enc.rs decode_hex)"),
    ("lexDelimiters", 's', "delimiter bytes of the lexer (parser/lexer: a token ends before them)"),
    ("lexWhitespace", 's', "white-space bytes of the lexer (parser/lexer)"),
    ("nameVerbatimExcept", 's', "bytes between nameVerbatimLo and nameVerbatimHi that `serialize_name` (primitive.rs) escapes as #xx all the same"),
    ("headerMarker", 'b', "the header marker `Backend::locate_start_offset` (backend.rs) searches for"),
    ("appearanceDepth", 'n', "nesting budget of appearance dictionaries (object/types.rs AppearanceStreamEntry::from_primitive)"),
    ("colorSpaceDepth", 'n', "nesting budget of colour spaces (object/color.rs ColorSpace::from_primitive)"),
    ("headerWindow", 'n', "the header marker must lie within this many bytes from the start (backend.rs Backend::locate_start_offset)"),
    ("maxCid", 'n', "largest CID a /W array may talk about (font.rs)"),
    ("maxId", 'n', "largest /Size the cross-reference reader accepts (backend.rs)"),
    ("maxNestedGets", 'n', "typed loads that may be in progress inside each other (file.rs)"),
    ("maxTreeDepth", 'n', "depth to which name / number trees are walked (object/types.rs)"),
    ("nameVerbatimHi", 'n', "largest byte `serialize_name` (primitive.rs) writes as itself"),
    ("nameVerbatimLo", 'n', "smallest byte `serialize_name` (primitive.rs) writes as itself"),
    ("pageTreeDepth", 'n', "depth budget of the page lookup (object/types.rs PageTree::page)"),
    ("parserMaxDepth", 'n', "nesting budget of the object parser (parser/mod.rs)"),
    ("resolveDepth", 'n', "reference-chain budget `Resolve::resolve` passes to `resolve_flags` (object/mod.rs)"),
];

/// Behavioural facts win over syntactic ones; a disagreement is a note; an item neither method determines is a
/// translator failure. `probed = None` (build.rs): syntactic values only, nothing is added to `problems`.
pub fn finalize(ex: &mut Extracted, probed: Option<Probed>) {
    let Some(pr) = probed else { return };
    ex.notes.extend(pr.notes.iter().cloned());
    let syn = ex.lexical.clone();
    let mut lx = Lexical::default();
    for (name, kind, doc) in LEXICAL_ITEMS {
        let name_s = name.to_string();
        lx.origin.insert(name_s.clone(), doc.to_string());
        macro_rules! pick {
            ($field:ident) => {{
                match (pr.$field.get(*name), syn.$field.get(*name)) {
                    (Some(b), Some(s)) => {
                        if b != s {
                            ex.notes.push(format!("{}: the source pattern says {:?}, the compiled crate behaves as {:?} — the behaviour is used", name, s, b));
                        }
                        lx.$field.insert(name_s.clone(), b.clone());
                    }
                    (Some(b), None) => {
                        lx.$field.insert(name_s.clone(), b.clone());
                    }
                    (None, Some(s)) => {
                        ex.notes.push(format!("{}: not observable by probing ({}) — taken from the source pattern", name, pr.failed.get(*name).cloned().unwrap_or_else(|| "no probe".into())));
                        lx.$field.insert(name_s.clone(), s.clone());
                    }
                    (None, None) => ex.problems.push(format!("lexical: {}: neither the probe of the compiled crate ({}) nor a source pattern determines it ({})", name, pr.failed.get(*name).cloned().unwrap_or_else(|| "no probe".into()), ex.lex_problems.join("; "))),
                }
            }};
        }
        match kind {
            's' => pick!(sets),
            'b' => pick!(strings),
            _ => pick!(nats),
        }
    }
    ex.lexical = lx;
    // the Option reader
    match pr.option_reader {
        Some(b) => {
            let s = &ex.option_reader;
            let mut fin = OptionReader { missing_kinds: b.missing_kinds.clone(), peeled: b.peeled.clone(), tolerant_flag: b.tolerant_flag.clone(), via: String::new() };
            // kinds the probe cannot construct keep what the source says about them
            for k in &s.missing_kinds {
                if !pr.option_kinds_probed.contains(k) && !fin.missing_kinds.contains(k) {
                    ex.notes.push(format!("Option reader: error kind {} cannot be constructed by the probe — classified as in the source", k));
                    fin.missing_kinds.push(k.clone());
                }
            }
            if ex.opt_problems.is_empty() {
                let set = |v: &Vec<String>| v.iter().cloned().collect::<BTreeSet<String>>();
                if set(&s.missing_kinds) != set(&fin.missing_kinds) || set(&s.peeled) != set(&fin.peeled) || s.tolerant_flag != fin.tolerant_flag {
                    ex.notes.push(format!("Option reader: the source patterns say missing={:?} peeled={:?} flag={:?}, the compiled crate behaves as missing={:?} peeled={:?} flag={:?} — the behaviour is used", s.missing_kinds, s.peeled, s.tolerant_flag, fin.missing_kinds, fin.peeled, fin.tolerant_flag));
                }
            }
            ex.option_reader = fin;
        }
        None => {
            ex.notes.push("Option reader: not probed — taken from the source patterns".into());
            let ps = std::mem::take(&mut ex.opt_problems);
            ex.problems.extend(ps);
        }
    }
    // dispatch tables: the probed (canonical) table of an enum replaces the syntactic one
    let syn_d = std::mem::take(&mut ex.dispatch);
    let mut out: Vec<Dispatch> = vec![];
    for b in pr.dispatch {
        if let Some(s) = syn_d.iter().find(|d| d.value_enum == b.value_enum) {
            let pairs = |arms: &Vec<Arm>| -> BTreeSet<(String, String)> { arms.iter().flat_map(|a| a.tags.iter().flat_map(move |t| a.variants.iter().map(move |v| (t.clone(), v.clone())))).collect() };
            let (ps, pb) = (pairs(&s.reader), pairs(&b.reader));
            if ps != pb {
                ex.notes.push(format!("dispatch of {}: reader arms in the source give {:?}, the compiled crate reads {:?} — the behaviour is used", b.value_enum, ps.difference(&pb).collect::<Vec<_>>(), pb.difference(&ps).collect::<Vec<_>>()));
            }
        }
        out.push(b);
    }
    for s in syn_d {
        if !out.iter().any(|d| d.value_enum == s.value_enum) {
            ex.notes.push(format!("dispatch of {}: no probe for this enum — taken from the match arms of the source", s.value_enum));
            out.push(s);
        }
    }
    out.sort_by(|a, b| a.value_enum.cmp(&b.value_enum));
    ex.dispatch = out;
    if ex.dispatch.is_empty() {
        ex.problems.push("no hand-written reader / writer dispatch found at all (neither probed nor in the source)".into());
    }
}

// ------------------------------------------------------------------------------------------------
// walking the source tree

/// The files that are modules of the crate: `lib.rs` and, transitively, every `mod x;` (`x.rs` or
/// `x/mod.rs` next to the declaring file). Files lying around in `src/` that no `mod` names (path.rs,
/// repair.rs, macros.rs at the pinned commit) are not compiled and are not read.
fn module_files(src_root: &Path, rel: &str, parsed: &mut BTreeMap<String, syn::File>, sources: &mut BTreeMap<String, String>, problems: &mut Vec<String>) {
    if parsed.contains_key(rel) {
        return;
    }
    let path: PathBuf = src_root.join(rel);
    let text = match std::fs::read_to_string(&path) {
        Ok(s) => s,
        Err(e) => {
            problems.push(format!("{}: cannot read: {}", rel, e));
            return;
        }
    };
    let file = match syn::parse_file(&text) {
        Ok(f) => f,
        Err(e) => {
            problems.push(format!("{}: does not parse: {}", rel, e));
            return;
        }
    };
    // directory in which this file's child modules live
    let stem = rel.trim_end_matches(".rs");
    let child_dir = if stem == "lib" || stem.ends_with("/mod") || stem == "mod" {
        match stem.rfind('/') {
            Some(i) => format!("{}/", &stem[..i]),
            None => String::new(),
        }
    } else {
        format!("{}/", stem)
    };
    let mut children = vec![];
    for it in &file.items {
        if let syn::Item::Mod(m) = it {
            if m.content.is_none() && !is_cfg_test(&m.attrs) {
                children.push(m.ident.to_string());
            }
        }
    }
    parsed.insert(rel.to_string(), file);
    sources.insert(rel.to_string(), text);
    for c in children {
        let a = format!("{}{}.rs", child_dir, c);
        let b = format!("{}{}/mod.rs", child_dir, c);
        if src_root.join(&a).exists() {
            module_files(src_root, &a, parsed, sources, problems);
        } else if src_root.join(&b).exists() {
            module_files(src_root, &b, parsed, sources, problems);
        } else {
            problems.push(format!("{}: `mod {};` has no file", rel, c));
        }
    }
}

fn derive_names(attrs: &[syn::Attribute]) -> Vec<String> {
    let mut out = vec![];
    for a in attrs {
        if a.path().is_ident("derive") {
            let _ = a.parse_nested_meta(|m| {
                if let Some(s) = m.path.segments.last() {
                    out.push(s.ident.to_string());
                }
                Ok(())
            });
        }
    }
    out
}

fn is_cfg_test(attrs: &[syn::Attribute]) -> bool {
    attrs.iter().any(|a| {
        a.path().is_ident("cfg") && {
            let mut t = false;
            let _ = a.parse_nested_meta(|m| {
                if m.path.is_ident("test") {
                    t = true;
                }
                Ok(())
            });
            t
        }
    })
}

struct RawItem {
    file: String,
    line: usize,
    /// inline modules the item sits in
    inline_mods: Vec<(String, bool)>,
    item: syn::DeriveInput,
    public: bool,
}

fn line_of(src: &str, needle_kind: &str, name: &str) -> usize {
    // proc-macro2 span locations are not available outside a proc macro without a feature; a plain text
    // search for the declaration is enough for a human-readable pointer
    for (i, l) in src.lines().enumerate() {
        let t = l.trim_start();
        if (t.starts_with("pub ") || t.starts_with(needle_kind) || t.starts_with("pub(")) && t.contains(&format!("{} {}", needle_kind, name)) {
            let rest = &t[t.find(&format!("{} {}", needle_kind, name)).unwrap() + needle_kind.len() + 1 + name.len()..];
            if rest.is_empty() || !rest.chars().next().unwrap().is_alphanumeric() && !rest.starts_with('_') {
                return i + 1;
            }
        }
    }
    0
}

fn collect_items(items: &[syn::Item], file: &str, src: &str, mods: &mut Vec<(String, bool)>, out: &mut Vec<RawItem>) {
    for it in items {
        match it {
            syn::Item::Struct(s) => {
                let d = derive_names(&s.attrs);
                if d.iter().any(|x| x == "Object" || x == "ObjectWrite") {
                    let di = syn::DeriveInput {
                        attrs: s.attrs.clone(),
                        vis: s.vis.clone(),
                        ident: s.ident.clone(),
                        generics: s.generics.clone(),
                        data: syn::Data::Struct(syn::DataStruct { struct_token: s.struct_token, fields: s.fields.clone(), semi_token: s.semi_token }),
                    };
                    out.push(RawItem { file: file.into(), line: line_of(src, "struct", &s.ident.to_string()), inline_mods: mods.clone(), item: di, public: matches!(s.vis, syn::Visibility::Public(_)) });
                }
            }
            syn::Item::Enum(e) => {
                let d = derive_names(&e.attrs);
                if d.iter().any(|x| x == "Object" || x == "ObjectWrite") {
                    let di = syn::DeriveInput {
                        attrs: e.attrs.clone(),
                        vis: e.vis.clone(),
                        ident: e.ident.clone(),
                        generics: e.generics.clone(),
                        data: syn::Data::Enum(syn::DataEnum { enum_token: e.enum_token, brace_token: e.brace_token, variants: e.variants.clone() }),
                    };
                    out.push(RawItem { file: file.into(), line: line_of(src, "enum", &e.ident.to_string()), inline_mods: mods.clone(), item: di, public: matches!(e.vis, syn::Visibility::Public(_)) });
                }
            }
            syn::Item::Mod(m) => {
                if is_cfg_test(&m.attrs) {
                    continue;
                }
                if let Some((_, inner)) = &m.content {
                    mods.push((m.ident.to_string(), matches!(m.vis, syn::Visibility::Public(_))));
                    collect_items(inner, file, src, mods, out);
                    mods.pop();
                }
            }
            _ => {}
        }
    }
}

// ------------------------------------------------------------------------------------------------
// attributes (mirrors pdf_derive)

struct Global {
    checks: Vec<(String, String)>,
    type_name: Option<String>,
    type_required: bool,
    is_stream: bool,
}

fn global_attrs(attrs: &[syn::Attribute], who: &str, problems: &mut Vec<String>) -> Global {
    let mut g = Global { checks: vec![], type_name: None, type_required: false, is_stream: false };
    for attr in attrs.iter().filter(|a| a.path().is_ident("pdf")) {
        let r = attr.parse_nested_meta(|meta| {
            if meta.path.is_ident("Type") {
                let value = meta.value()?;
                let lit: syn::Lit = value.parse()?;
                match lit {
                    syn::Lit::Str(s) => {
                        let mut v = s.value();
                        g.type_required = if v.ends_with('?') {
                            v.pop();
                            false
                        } else {
                            true
                        };
                        g.type_name = Some(v);
                    }
                    _ => return Err(meta.error("Value of 'Type' attribute must be a String")),
                }
                return Ok(());
            }
            if meta.path.is_ident("is_stream") {
                g.is_stream = true;
                return Ok(());
            }
            if let Ok(value) = meta.value() {
                let lit: syn::Lit = value.parse()?;
                match lit {
                    syn::Lit::Str(s) => {
                        let segs = meta.path.segments.iter().map(|s| s.ident.to_string()).collect::<Vec<_>>().join("::");
                        g.checks.push((segs, s.value()));
                    }
                    _ => return Err(meta.error("Other checks must have RHS String")),
                }
                return Ok(());
            }
            // the derive macro ignores a bare word it does not know; so does the model, but say so
            Err(meta.error("bare word in #[pdf(..)] on an item (ignored by pdf_derive)"))
        });
        if let Err(e) = r {
            problems.push(format!("{}: item attribute not understood: {}", who, e));
        }
    }
    g
}

#[derive(Default)]
struct FieldA {
    key: Option<String>,
    default: Option<String>,
    name: Option<String>,
    skip: bool,
    other: bool,
    indirect: bool,
}

fn field_attrs(attrs: &[syn::Attribute], who: &str, problems: &mut Vec<String>) -> FieldA {
    let mut a = FieldA::default();
    for attr in attrs.iter().filter(|x| x.path().is_ident("pdf")) {
        let r = attr.parse_nested_meta(|meta| {
            let mut strval = |slot: &mut Option<String>| -> syn::Result<()> {
                let v = meta.value()?;
                let l: syn::LitStr = v.parse()?;
                *slot = Some(l.value());
                Ok(())
            };
            if meta.path.is_ident("key") {
                return strval(&mut a.key);
            }
            if meta.path.is_ident("default") {
                return strval(&mut a.default);
            }
            if meta.path.is_ident("name") {
                return strval(&mut a.name);
            }
            if meta.path.is_ident("skip") {
                a.skip = true;
                return Ok(());
            }
            if meta.path.is_ident("other") {
                a.other = true;
                return Ok(());
            }
            if meta.path.is_ident("indirect") {
                a.indirect = true;
                return Ok(());
            }
            Err(meta.error("unsupported key"))
        });
        if let Err(e) = r {
            problems.push(format!("{}: field attribute not understood: {}", who, e));
        }
    }
    a
}

// ------------------------------------------------------------------------------------------------
// type shapes

fn type_text(t: &syn::Type) -> String {
    // token text without the spaces `quote` inserts
    fn ts(t: &syn::Type) -> String {
        match t {
            syn::Type::Path(p) => {
                let mut s = String::new();
                for (i, seg) in p.path.segments.iter().enumerate() {
                    if i > 0 {
                        s.push_str("::");
                    }
                    s.push_str(&seg.ident.to_string());
                    if let syn::PathArguments::AngleBracketed(a) = &seg.arguments {
                        s.push('<');
                        let mut first = true;
                        for g in &a.args {
                            if !first {
                                s.push_str(", ");
                            }
                            first = false;
                            match g {
                                syn::GenericArgument::Type(t) => s.push_str(&ts(t)),
                                syn::GenericArgument::Lifetime(l) => s.push_str(&format!("'{}", l.ident)),
                                _ => s.push('?'),
                            }
                        }
                        s.push('>');
                    }
                }
                s
            }
            syn::Type::Tuple(t) => format!("({})", t.elems.iter().map(ts).collect::<Vec<_>>().join(", ")),
            syn::Type::Slice(s) => format!("[{}]", ts(&s.elem)),
            syn::Type::Reference(r) => format!("&{}", ts(&r.elem)),
            syn::Type::Array(a) => format!("[{}; _]", ts(&a.elem)),
            _ => "?".into(),
        }
    }
    ts(t)
}

struct Names<'a> {
    /// derive(Object/ObjectWrite) items: name → number of type parameters
    models: &'a BTreeMap<String, usize>,
    params: &'a [String],
}

fn shape_of(t: &syn::Type, n: &Names, who: &str, problems: &mut Vec<String>) -> Shape {
    match t {
        syn::Type::Tuple(tt) => match tt.elems.len() {
            0 => Shape::Leaf("()".into()),
            2 => Shape::Pair(Box::new(shape_of(&tt.elems[0], n, who, problems)), Box::new(shape_of(&tt.elems[1], n, who, problems))),
            k => {
                problems.push(format!("{}: tuple of {} elements has no shape (only pairs implement Object)", who, k));
                Shape::Leaf(type_text(t))
            }
        },
        syn::Type::Path(p) if p.qself.is_none() => {
            let seg = p.path.segments.last().unwrap();
            let id = seg.ident.to_string();
            let args: Vec<&syn::Type> = match &seg.arguments {
                syn::PathArguments::None => vec![],
                syn::PathArguments::AngleBracketed(a) => a
                    .args
                    .iter()
                    .filter_map(|g| match g {
                        syn::GenericArgument::Type(t) => Some(t),
                        _ => None,
                    })
                    .collect(),
                _ => {
                    problems.push(format!("{}: parenthesised type arguments in {}", who, type_text(t)));
                    vec![]
                }
            };
            let mut one = |mk: fn(Box<Shape>) -> Shape, problems: &mut Vec<String>| -> Shape {
                if args.len() != 1 {
                    problems.push(format!("{}: {} expects one type argument: {}", who, id, type_text(t)));
                    return Shape::Leaf(type_text(t));
                }
                mk(Box::new(shape_of(args[0], n, who, problems)))
            };
            match id.as_str() {
                "Option" => one(Shape::Option, problems),
                "Vec" => one(Shape::Vec, problems),
                "Box" => one(Shape::Boxed, problems),
                "MaybeRef" => one(Shape::MaybeRef, problems),
                "RcRef" => one(Shape::RcRef, problems),
                "Ref" => one(Shape::Ref, problems),
                "Lazy" => one(Shape::Lazy, problems),
                "HashMap" => {
                    if args.len() != 2 || type_text(args[0]) != "Name" {
                        problems.push(format!("{}: only HashMap<Name, V> implements Object: {}", who, type_text(t)));
                        return Shape::Leaf(type_text(t));
                    }
                    Shape::HashMap(Box::new(shape_of(args[1], n, who, problems)))
                }
                _ => {
                    if n.params.contains(&id) && args.is_empty() && p.path.segments.len() == 1 {
                        return Shape::Param(id);
                    }
                    if let Some(&np) = n.models.get(&id) {
                        if np != args.len() {
                            problems.push(format!("{}: model {} has {} type parameter(s), used with {}: {}", who, id, np, args.len(), type_text(t)));
                        }
                        return match args.len() {
                            0 => Shape::Model(id),
                            1 => Shape::ModelApp(id, Box::new(shape_of(args[0], n, who, problems))),
                            _ => {
                                problems.push(format!("{}: generic model with more than one argument: {}", who, type_text(t)));
                                Shape::Leaf(type_text(t))
                            }
                        };
                    }
                    match args.len() {
                        0 => Shape::Leaf(id),
                        1 => Shape::LeafApp(id, Box::new(shape_of(args[0], n, who, problems))),
                        _ => {
                            problems.push(format!("{}: type with more than one argument has no shape: {}", who, type_text(t)));
                            Shape::Leaf(type_text(t))
                        }
                    }
                }
            }
        }
        _ => {
            problems.push(format!("{}: type form has no shape: {}", who, type_text(t)));
            Shape::Leaf(type_text(t))
        }
    }
}

// ------------------------------------------------------------------------------------------------
// module paths (for the typed Rust registry)

/// visibility of `mod name` and presence of `pub use self::name::*` in a module file
fn mod_decl(parent_src: &syn::File, name: &str) -> (bool, bool, bool) {
    let mut declared = false;
    let mut public = false;
    let mut reexport = false;
    for it in &parent_src.items {
        match it {
            syn::Item::Mod(m) if m.ident == name => {
                declared = true;
                public = matches!(m.vis, syn::Visibility::Public(_));
            }
            syn::Item::Use(u) if matches!(u.vis, syn::Visibility::Public(_)) => {
                // pub use self::name::*;  |  pub use crate::…::name::*
                fn glob_of(t: &syn::UseTree, name: &str, seen: bool) -> bool {
                    match t {
                        syn::UseTree::Path(p) => glob_of(&p.tree, name, p.ident == name),
                        syn::UseTree::Glob(_) => seen,
                        syn::UseTree::Group(g) => g.items.iter().any(|x| glob_of(x, name, seen)),
                        _ => false,
                    }
                }
                if glob_of(&u.tree, name, false) {
                    reexport = true;
                }
            }
            _ => {}
        }
    }
    (declared, public, reexport)
}

fn rust_path(src_root: &Path, rel: &str, inline: &[(String, bool)], ident: &str, public: bool, parsed: &BTreeMap<String, syn::File>) -> Option<String> {
    if !public {
        return None;
    }
    // rel: "object/types.rs" | "font.rs" | "object/mod.rs" | "lib.rs"
    let mut comps: Vec<String> = rel.trim_end_matches(".rs").split('/').map(|s| s.to_string()).collect();
    if comps.last().map(|s| s == "mod" || s == "lib").unwrap_or(false) {
        comps.pop();
    }
    let mut path = vec!["pdf".to_string()];
    let mut parent_file = "lib.rs".to_string();
    let mut dir = String::new();
    for c in &comps {
        let pf = parsed.get(&parent_file)?;
        let (declared, public, reexport) = mod_decl(pf, c);
        if !declared {
            return None;
        }
        if public {
            path.push(c.clone());
        } else if !reexport {
            return None;
        }
        // next parent: <dir>/<c>/mod.rs or <dir>/<c>.rs
        let as_dir = format!("{}{}/mod.rs", dir, c);
        let as_file = format!("{}{}.rs", dir, c);
        parent_file = if src_root.join(&as_dir).exists() { as_dir } else { as_file };
        dir = format!("{}{}/", dir, c);
    }
    for (m, p) in inline {
        if !*p {
            return None;
        }
        path.push(m.clone());
    }
    path.push(ident.to_string());
    Some(path.join("::"))
}

// ------------------------------------------------------------------------------------------------
// the Option reader (object/mod.rs) and the error classification it relies on (error.rs)

fn pat_variant(p: &syn::Pat) -> Option<String> {
    // Err(PdfError::X {..})  →  X
    fn pdf_error_variant(p: &syn::Pat) -> Option<String> {
        let path = match p {
            syn::Pat::Struct(s) => &s.path,
            syn::Pat::TupleStruct(s) => &s.path,
            syn::Pat::Path(s) => &s.path,
            _ => return None,
        };
        let segs: Vec<String> = path.segments.iter().map(|s| s.ident.to_string()).collect();
        if segs.len() >= 2 && segs[segs.len() - 2] == "PdfError" {
            Some(segs[segs.len() - 1].clone())
        } else {
            None
        }
    }
    match p {
        syn::Pat::TupleStruct(ts) if ts.path.is_ident("Err") && ts.elems.len() == 1 => pdf_error_variant(&ts.elems[0]),
        _ => None,
    }
}

fn expr_is_ok_none(e: &syn::Expr) -> bool {
    let s = quote_expr(e);
    s == "Ok(None)"
}

fn quote_expr(e: &syn::Expr) -> String {
    // compact token text
    let mut s = String::new();
    fn walk(ts: proc_macro2::TokenStream, s: &mut String) {
        for t in ts {
            match t {
                proc_macro2::TokenTree::Group(g) => {
                    let (o, c) = match g.delimiter() {
                        proc_macro2::Delimiter::Parenthesis => ("(", ")"),
                        proc_macro2::Delimiter::Brace => ("{", "}"),
                        proc_macro2::Delimiter::Bracket => ("[", "]"),
                        proc_macro2::Delimiter::None => ("", ""),
                    };
                    s.push_str(o);
                    walk(g.stream(), s);
                    s.push_str(c);
                }
                x => s.push_str(&x.to_string()),
            }
        }
    }
    walk(quote::ToTokens::to_token_stream(e), &mut s);
    s
}

/// variants matched by a `match self { A{..} | B{..} => true, W{source,..} => source.f(), _ => false }` method
fn classify_method(err_file: &syn::File, method: &str) -> Option<(Vec<String>, Vec<String>)> {
    for it in &err_file.items {
        if let syn::Item::Impl(im) = it {
            if im.trait_.is_some() || type_text(&im.self_ty) != "PdfError" {
                continue;
            }
            for ii in &im.items {
                if let syn::ImplItem::Fn(f) = ii {
                    if f.sig.ident != method {
                        continue;
                    }
                    // the body is one match expression
                    let m = f.block.stmts.iter().find_map(|s| match s {
                        syn::Stmt::Expr(syn::Expr::Match(m), _) => Some(m),
                        _ => None,
                    })?;
                    let mut yes = vec![];
                    let mut peel = vec![];
                    fn variants(p: &syn::Pat, out: &mut Vec<String>) {
                        match p {
                            syn::Pat::Or(o) => o.cases.iter().for_each(|c| variants(c, out)),
                            syn::Pat::Struct(s) => out.push(s.path.segments.last().unwrap().ident.to_string()),
                            syn::Pat::TupleStruct(s) => out.push(s.path.segments.last().unwrap().ident.to_string()),
                            syn::Pat::Path(s) => out.push(s.path.segments.last().unwrap().ident.to_string()),
                            syn::Pat::Reference(r) => variants(&r.pat, out),
                            _ => {}
                        }
                    }
                    for arm in &m.arms {
                        let body = quote_expr(&arm.body);
                        let mut vs = vec![];
                        variants(&arm.pat, &mut vs);
                        if body == "true" {
                            yes.extend(vs);
                        } else if body.contains(&format!(".{}()", method)) {
                            peel.extend(vs);
                        }
                    }
                    return Some((yes, peel));
                }
            }
        }
    }
    None
}

fn option_reader(parsed: &BTreeMap<String, syn::File>, problems: &mut Vec<String>) -> OptionReader {
    let mut r = OptionReader::default();
    let Some(f) = parsed.get("object/mod.rs") else {
        problems.push("object/mod.rs not found: cannot locate `impl Object for Option<T>`".into());
        return r;
    };
    let mut found = false;
    for it in &f.items {
        let syn::Item::Impl(im) = it else { continue };
        let Some((_, tr, _)) = &im.trait_ else { continue };
        if tr.segments.last().map(|s| s.ident != "Object").unwrap_or(true) || type_text(&im.self_ty) != "Option<T>" {
            continue;
        }
        for ii in &im.items {
            let syn::ImplItem::Fn(func) = ii else { continue };
            if func.sig.ident != "from_primitive" {
                continue;
            }
            // match p { Primitive::Null => Ok(None), p => match T::from_primitive(..) { arms } }
            let outer = func.block.stmts.iter().find_map(|s| match s {
                syn::Stmt::Expr(syn::Expr::Match(m), _) => Some(m),
                _ => None,
            });
            let Some(outer) = outer else { continue };
            for arm in &outer.arms {
                if let syn::Expr::Match(inner) = &*arm.body {
                    found = true;
                    for a in &inner.arms {
                        if !expr_is_ok_none_block(&a.body) {
                            continue;
                        }
                        match (&a.guard, pat_variant(&a.pat)) {
                            (None, Some(v)) => {
                                r.missing_kinds.push(v);
                                if r.via.is_empty() {
                                    r.via = "arms".into();
                                }
                            }
                            (Some((_, g)), _) => {
                                let gt = quote_expr(g);
                                if let Some(pos) = gt.find(".options().") {
                                    r.tolerant_flag = Some(gt[pos + ".options().".len()..].to_string());
                                } else if let Some(pos) = gt.rfind('.') {
                                    // e.is_xxx()
                                    let m = gt[pos + 1..].trim_end_matches("()").to_string();
                                    match parsed.get("error.rs").and_then(|ef| classify_method(ef, &m)) {
                                        Some((yes, peel)) => {
                                            r.missing_kinds.extend(yes);
                                            r.peeled.extend(peel);
                                            r.via = m;
                                        }
                                        None => problems.push(format!("Option reader guard `{}`: no `impl PdfError {{ fn {} }}` with a single match found in error.rs", gt, m)),
                                    }
                                } else {
                                    problems.push(format!("Option reader: guard `{}` not understood", gt));
                                }
                            }
                            (None, None) => problems.push(format!("Option reader: arm `{}` answers Ok(None) for a pattern that is not Err(PdfError::…)", quote_pat(&a.pat))),
                        }
                    }
                }
            }
        }
    }
    if !found {
        problems.push("`impl<T: Object> Object for Option<T>` with the nested match on `T::from_primitive` not found in object/mod.rs".into());
    }
    r
}

fn expr_is_ok_none_block(e: &syn::Expr) -> bool {
    match e {
        syn::Expr::Block(b) => b.block.stmts.last().map(|s| matches!(s, syn::Stmt::Expr(x, None) if expr_is_ok_none(x))).unwrap_or(false),
        x => expr_is_ok_none(x),
    }
}

fn quote_pat(p: &syn::Pat) -> String {
    quote::ToTokens::to_token_stream(p).to_string()
}

// ------------------------------------------------------------------------------------------------
// tag ↔ variant dispatch of the hand-written readers and writers

fn scan_tokens(ts: proc_macro2::TokenStream, pairs: &mut Vec<(String, String)>, lits: &mut Vec<String>) {
    let toks: Vec<proc_macro2::TokenTree> = ts.into_iter().collect();
    let mut i = 0;
    while i < toks.len() {
        match &toks[i] {
            proc_macro2::TokenTree::Group(g) => scan_tokens(g.stream(), pairs, lits),
            proc_macro2::TokenTree::Literal(l) => {
                let t = l.to_string();
                if t.len() >= 2 && t.starts_with('"') && t.ends_with('"') {
                    lits.push(t[1..t.len() - 1].replace("\\\"", "\"").replace("\\\\", "\\"));
                }
            }
            proc_macro2::TokenTree::Ident(a) => {
                if i + 3 < toks.len() {
                    if let (proc_macro2::TokenTree::Punct(p1), proc_macro2::TokenTree::Punct(p2), proc_macro2::TokenTree::Ident(b)) = (&toks[i + 1], &toks[i + 2], &toks[i + 3]) {
                        if p1.as_char() == ':' && p2.as_char() == ':' {
                            pairs.push((a.to_string(), b.to_string()));
                        }
                    }
                }
            }
            _ => {}
        }
        i += 1;
    }
}

struct RawArm {
    func: String,
    pat_pairs: Vec<(String, String)>,
    pat_lits: Vec<String>,
    body_pairs: Vec<(String, String)>,
    body_lits: Vec<String>,
}

struct MatchCollector<'a> {
    func: String,
    out: &'a mut Vec<RawArm>,
}

impl<'a, 'ast> syn::visit::Visit<'ast> for MatchCollector<'a> {
    fn visit_expr_match(&mut self, m: &'ast syn::ExprMatch) {
        for arm in &m.arms {
            let mut ra = RawArm { func: self.func.clone(), pat_pairs: vec![], pat_lits: vec![], body_pairs: vec![], body_lits: vec![] };
            scan_tokens(quote::ToTokens::to_token_stream(&arm.pat), &mut ra.pat_pairs, &mut ra.pat_lits);
            if let Some((_, g)) = &arm.guard {
                scan_tokens(quote::ToTokens::to_token_stream(g), &mut ra.pat_pairs, &mut ra.pat_lits);
            }
            scan_tokens(quote::ToTokens::to_token_stream(&arm.body), &mut ra.body_pairs, &mut ra.body_lits);
            self.out.push(ra);
        }
        syn::visit::visit_expr_match(self, m);
    }
}

fn collect_enums(items: &[syn::Item], out: &mut BTreeMap<String, Vec<String>>) {
    for it in items {
        match it {
            syn::Item::Enum(e) => {
                out.insert(e.ident.to_string(), e.variants.iter().map(|v| v.ident.to_string()).collect());
            }
            syn::Item::Mod(m) if !is_cfg_test(&m.attrs) => {
                if let Some((_, inner)) = &m.content {
                    collect_enums(inner, out);
                }
            }
            _ => {}
        }
    }
}

fn collect_impl_arms(items: &[syn::Item], readers: &mut Vec<RawArm>, writers: &mut Vec<RawArm>) {
    for it in items {
        match it {
            syn::Item::Impl(im) => {
                let ty = type_text(&im.self_ty);
                for ii in &im.items {
                    if let syn::ImplItem::Fn(f) = ii {
                        let name = f.sig.ident.to_string();
                        let is_reader = name.starts_with("from_");
                        let is_writer = matches!(name.as_str(), "to_primitive" | "to_dict" | "to_pdf_stream");
                        if !is_reader && !is_writer {
                            continue;
                        }
                        let mut c = MatchCollector { func: format!("{}::{}", ty, name), out: if is_reader { &mut *readers } else { &mut *writers } };
                        syn::visit::Visit::visit_block(&mut c, &f.block);
                    }
                }
            }
            syn::Item::Mod(m) if !is_cfg_test(&m.attrs) => {
                if let Some((_, inner)) = &m.content {
                    collect_impl_arms(inner, readers, writers);
                }
            }
            _ => {}
        }
    }
}

/// enums that are not *values* a reader constructs / a writer takes apart
const NOT_VALUE_ENUMS: &[&str] = &["Primitive", "PdfError", "Option", "Result", "Some", "None", "Ok", "Err", "XRef", "ParseFlags", "StreamInner", "StreamData"];

fn dispatch_tables(parsed: &BTreeMap<String, syn::File>, models: &[Model]) -> Vec<Dispatch> {
    let mut enums: BTreeMap<String, Vec<String>> = BTreeMap::new();
    let mut readers = vec![];
    let mut writers = vec![];
    for f in parsed.values() {
        collect_enums(&f.items, &mut enums);
        collect_impl_arms(&f.items, &mut readers, &mut writers);
    }
    let is_variant = |a: &str, b: &str| enums.get(a).map(|vs| vs.iter().any(|v| v == b)).unwrap_or(false) && !NOT_VALUE_ENUMS.contains(&a);
    // value enums: those taken apart by some writer arm
    let mut value_enums: BTreeSet<String> = BTreeSet::new();
    for w in &writers {
        for (a, b) in &w.pat_pairs {
            if is_variant(a, b) {
                value_enums.insert(a.clone());
            }
        }
    }
    let dedup = |v: Vec<String>| -> Vec<String> {
        let mut out: Vec<String> = vec![];
        for x in v {
            if !out.contains(&x) {
                out.push(x);
            }
        }
        out
    };
    let mut out = vec![];
    for en in &value_enums {
        let tag_pairs = |pairs: &[(String, String)]| -> Vec<String> {
            pairs.iter().filter(|(a, b)| a != en && enums.contains_key(a) && !NOT_VALUE_ENUMS.contains(&a.as_str()) && is_variant(a, b)).map(|(_, b)| b.clone()).collect()
        };
        let own = |pairs: &[(String, String)]| -> Vec<String> { pairs.iter().filter(|(a, b)| a == en && is_variant(a, b)).map(|(_, b)| b.clone()).collect() };
        let mut d = Dispatch { value_enum: en.clone(), variants: enums[en].clone(), reader: vec![], writer: vec![] };
        for r in &readers {
            let variants = dedup(own(&r.body_pairs));
            let mut tags = r.pat_lits.clone();
            tags.extend(tag_pairs(&r.pat_pairs));
            let tags = dedup(tags);
            if !variants.is_empty() && !tags.is_empty() {
                d.reader.push(Arm { func: r.func.clone(), tags, variants });
            }
        }
        // a derived stream / name enum reader dispatches on the variant names
        if let Some(m) = models.iter().find(|m| &m.name == en && m.derives_read && !m.derives_write) {
            for v in &m.variants {
                if !v.other {
                    d.reader.push(Arm { func: format!("derive(Object) for {}", en), tags: vec![v.name.clone()], variants: vec![v.ident.clone()] });
                }
            }
        }
        for w in &writers {
            let variants = dedup(own(&w.pat_pairs));
            let mut tags = w.body_lits.clone();
            tags.extend(tag_pairs(&w.body_pairs));
            let tags = dedup(tags);
            if !variants.is_empty() && !tags.is_empty() {
                d.writer.push(Arm { func: w.func.clone(), tags, variants });
            }
        }
        if !d.reader.is_empty() {
            out.push(d);
        }
    }
    out
}


// ------------------------------------------------------------------------------------------------
// byte classes and constants (Generated/Lexical.lean)

fn find_fn_tokens(items: &[syn::Item], name: &str, self_ty: Option<&str>) -> Option<proc_macro2::TokenStream> {
    for it in items {
        match it {
            syn::Item::Fn(f) if self_ty.is_none() && f.sig.ident == name => return Some(quote::ToTokens::to_token_stream(&f.block)),
            syn::Item::Impl(im) => {
                let ty = type_text(&im.self_ty);
                let base = ty.split('<').next().unwrap_or("").to_string();
                if self_ty.map(|t| t == base).unwrap_or(false) {
                    for ii in &im.items {
                        if let syn::ImplItem::Fn(f) = ii {
                            if f.sig.ident == name {
                                return Some(quote::ToTokens::to_token_stream(&f.block));
                            }
                        }
                    }
                }
            }
            syn::Item::Trait(tr) => {
                if self_ty.map(|t| tr.ident == t).unwrap_or(false) {
                    for ti in &tr.items {
                        if let syn::TraitItem::Fn(f) = ti {
                            if f.sig.ident == name {
                                if let Some(b) = &f.default {
                                    return Some(quote::ToTokens::to_token_stream(b));
                                }
                            }
                        }
                    }
                }
            }
            syn::Item::Mod(m) if !is_cfg_test(&m.attrs) => {
                if let Some((_, inner)) = &m.content {
                    if let Some(t) = find_fn_tokens(inner, name, self_ty) {
                        return Some(t);
                    }
                }
            }
            _ => {}
        }
    }
    None
}

/// byte value of a literal token: `0`, `12`, `b' '`, `b'\\x0c'`
fn lit_byte(l: &proc_macro2::Literal) -> Option<u8> {
    match syn::parse_str::<syn::Lit>(&l.to_string()).ok()? {
        syn::Lit::Byte(b) => Some(b.value()),
        syn::Lit::Int(i) => i.base10_parse::<u8>().ok(),
        _ => None,
    }
}

fn lit_int(l: &proc_macro2::Literal) -> Option<u64> {
    match syn::parse_str::<syn::Lit>(&l.to_string()).ok()? {
        syn::Lit::Int(i) => i.base10_parse::<u64>().ok(),
        _ => None,
    }
}

fn lit_bytestr(l: &proc_macro2::Literal) -> Option<Vec<u8>> {
    match syn::parse_str::<syn::Lit>(&l.to_string()).ok()? {
        syn::Lit::ByteStr(b) => Some(b.value()),
        _ => None,
    }
}

/// the argument groups of the first `name ( … )` / `name ! ( … )` in the token stream, searched depth first
fn first_call_args(ts: &proc_macro2::TokenStream, name: &str) -> Option<Vec<Vec<proc_macro2::TokenTree>>> {
    let toks: Vec<proc_macro2::TokenTree> = ts.clone().into_iter().collect();
    for i in 0..toks.len() {
        if let proc_macro2::TokenTree::Ident(id) = &toks[i] {
            if id == name {
                let mut j = i + 1;
                if let Some(proc_macro2::TokenTree::Punct(p)) = toks.get(j) {
                    if p.as_char() == '!' {
                        j += 1;
                    }
                }
                if let Some(proc_macro2::TokenTree::Group(g)) = toks.get(j) {
                    if g.delimiter() == proc_macro2::Delimiter::Parenthesis {
                        let mut args: Vec<Vec<proc_macro2::TokenTree>> = vec![vec![]];
                        for t in g.stream() {
                            match &t {
                                proc_macro2::TokenTree::Punct(p) if p.as_char() == ',' => args.push(vec![]),
                                _ => args.last_mut().unwrap().push(t),
                            }
                        }
                        return Some(args);
                    }
                }
            }
        }
        if let proc_macro2::TokenTree::Group(g) = &toks[i] {
            if let Some(a) = first_call_args(&g.stream(), name) {
                return Some(a);
            }
        }
    }
    None
}

/// `matches!(b, A | B | …)`: the byte values of the alternatives
fn matches_set(ts: &proc_macro2::TokenStream) -> Option<Vec<u8>> {
    let args = first_call_args(ts, "matches")?;
    if args.len() != 2 {
        return None;
    }
    let mut out = vec![];
    for t in &args[1] {
        match t {
            proc_macro2::TokenTree::Literal(l) => out.push(lit_byte(l)?),
            proc_macro2::TokenTree::Punct(p) if p.as_char() == '|' => {}
            _ => return None,
        }
    }
    out.sort();
    out.dedup();
    Some(out)
}

fn first_bytestr(ts: &proc_macro2::TokenStream) -> Option<Vec<u8>> {
    for t in ts.clone() {
        match t {
            proc_macro2::TokenTree::Literal(l) => {
                if let Some(b) = lit_bytestr(&l) {
                    return Some(b);
                }
            }
            proc_macro2::TokenTree::Group(g) => {
                if let Some(b) = first_bytestr(&g.stream()) {
                    return Some(b);
                }
            }
            _ => {}
        }
    }
    None
}

fn const_value(items: &[syn::Item], name: &str) -> Option<u64> {
    for it in items {
        match it {
            syn::Item::Const(c) if c.ident == name => {
                if let syn::Expr::Lit(syn::ExprLit { lit: syn::Lit::Int(i), .. }) = &*c.expr {
                    return i.base10_parse::<u64>().ok();
                }
                return None;
            }
            syn::Item::Mod(m) if !is_cfg_test(&m.attrs) => {
                if let Some((_, inner)) = &m.content {
                    if let Some(v) = const_value(inner, name) {
                        return Some(v);
                    }
                }
            }
            _ => {}
        }
    }
    None
}

/// last argument of the first call of `callee` inside function `func`, an integer literal
fn last_int_arg(file: &syn::File, func: &str, self_ty: Option<&str>, callee: &str) -> Option<u64> {
    let body = find_fn_tokens(&file.items, func, self_ty)?;
    let args = first_call_args(&body, callee)?;
    let last = args.last()?;
    if last.len() != 1 {
        return None;
    }
    match &last[0] {
        proc_macro2::TokenTree::Literal(l) => lit_int(l),
        _ => None,
    }
}

fn lexical_tables(parsed: &BTreeMap<String, syn::File>, problems: &mut Vec<String>) -> Lexical {
    let mut lx = Lexical::default();
    let mut file = |rel: &str, problems: &mut Vec<String>| -> Option<&syn::File> {
        let f = parsed.get(rel);
        if f.is_none() {
            problems.push(format!("lexical: module file {} not found", rel));
        }
        f
    };
    macro_rules! need {
        ($opt:expr, $what:expr) => {
            match $opt {
                Some(v) => Some(v),
                None => {
                    problems.push(format!("lexical: pattern not found: {}", $what));
                    None
                }
            }
        };
    }
    // parser/lexer/mod.rs: fn is_whitespace(b) { matches!(b, …) } ; Lexer::is_delimiter: b"…".contains(b)
    if let Some(f) = file("parser/lexer/mod.rs", problems) {
        if let Some(v) = need!(find_fn_tokens(&f.items, "is_whitespace", None).and_then(|b| matches_set(&b)), "fn is_whitespace(b) { matches!(b, A | B | …) } in parser/lexer/mod.rs") {
            lx.sets.insert("lexWhitespace".into(), v);
            lx.origin.insert("lexWhitespace".into(), "parser/lexer/mod.rs fn is_whitespace".into());
        }
        if let Some(mut v) = need!(find_fn_tokens(&f.items, "is_delimiter", Some("Lexer")).and_then(|b| first_bytestr(&b)), "Lexer::is_delimiter: b\"…\".contains(b) in parser/lexer/mod.rs") {
            v.sort();
            v.dedup();
            lx.sets.insert("lexDelimiters".into(), v);
            lx.origin.insert("lexDelimiters".into(), "parser/lexer/mod.rs Lexer::is_delimiter".into());
        }
    }
    // enc.rs: the white-space filters of the two ASCII decoders
    if let Some(f) = file("enc.rs", problems) {
        for (func, name) in [("decode_hex", "hexDecodeWhitespace"), ("decode_85", "a85DecodeWhitespace")] {
            if let Some(v) = need!(find_fn_tokens(&f.items, func, None).and_then(|b| matches_set(&b)), format!("fn {}: .filter(|&b| !matches!(b, …)) in enc.rs", func)) {
                lx.sets.insert(name.into(), v);
                lx.origin.insert(name.into(), format!("enc.rs fn {}", func));
            }
        }
    }
    // primitive.rs: serialize_name: `b'!' ..= b'~' if !b"…".contains(&b)` stands for itself
    if let Some(f) = file("primitive.rs", problems) {
        let mut found = false;
        for it in &f.items {
            if let syn::Item::Fn(func) = it {
                if func.sig.ident != "serialize_name" {
                    continue;
                }
                struct V {
                    out: Option<(u8, u8, Vec<u8>)>,
                }
                impl<'ast> syn::visit::Visit<'ast> for V {
                    fn visit_arm(&mut self, arm: &'ast syn::Arm) {
                        if let syn::Pat::Range(r) = &arm.pat {
                            let b = |e: &Option<Box<syn::Expr>>| match e.as_deref() {
                                Some(syn::Expr::Lit(syn::ExprLit { lit: syn::Lit::Byte(b), .. })) => Some(b.value()),
                                _ => None,
                            };
                            let closed = matches!(r.limits, syn::RangeLimits::Closed(_));
                            if let (Some(lo), Some(hi), true, Some((_, g))) = (b(&r.start), b(&r.end), closed, &arm.guard) {
                                if let syn::Expr::Unary(syn::ExprUnary { op: syn::UnOp::Not(_), expr, .. }) = &**g {
                                    if let Some(mut ex) = first_bytestr(&quote::ToTokens::to_token_stream(expr)) {
                                        ex.sort();
                                        ex.dedup();
                                        self.out = Some((lo, hi, ex));
                                    }
                                }
                            }
                        }
                        syn::visit::visit_arm(self, arm);
                    }
                }
                let mut v = V { out: None };
                syn::visit::Visit::visit_block(&mut v, &func.block);
                if let Some((lo, hi, ex)) = v.out {
                    found = true;
                    lx.nats.insert("nameVerbatimLo".into(), lo as u64);
                    lx.nats.insert("nameVerbatimHi".into(), hi as u64);
                    lx.sets.insert("nameVerbatimExcept".into(), ex);
                    for k in ["nameVerbatimLo", "nameVerbatimHi", "nameVerbatimExcept"] {
                        lx.origin.insert(k.into(), "primitive.rs fn serialize_name".into());
                    }
                }
            }
        }
        if !found {
            problems.push("lexical: pattern not found: serialize_name: arm `b'lo' ..= b'hi' if !b\"…\".contains(&b)` in primitive.rs".into());
        }
    }
    // named constants
    for (rel, cname, name) in [
        ("parser/mod.rs", "MAX_DEPTH", "parserMaxDepth"),
        ("backend.rs", "MAX_ID", "maxId"),
        ("file.rs", "MAX_NESTED_GETS", "maxNestedGets"),
        ("object/types.rs", "MAX_TREE_DEPTH", "maxTreeDepth"),
        ("font.rs", "MAX_CID", "maxCid"),
    ] {
        if let Some(f) = file(rel, problems) {
            if let Some(v) = need!(const_value(&f.items, cname), format!("const {}: _ = <integer literal> in {}", cname, rel)) {
                lx.nats.insert(name.into(), v);
                lx.origin.insert(name.into(), format!("{} const {}", rel, cname));
            }
        }
    }
    // backend.rs: the header search
    if let Some(f) = file("backend.rs", problems) {
        let body = find_fn_tokens(&f.items, "locate_start_offset", Some("Backend"));
        if let Some(v) = need!(body.as_ref().and_then(|b| first_call_args(b, "min")).and_then(|a| a.first().and_then(|x| if x.len() == 1 { if let proc_macro2::TokenTree::Literal(l) = &x[0] { lit_int(l) } else { None } } else { None })), "Backend::locate_start_offset: min(<integer>, self.len()) in backend.rs") {
            lx.nats.insert("headerWindow".into(), v);
            lx.origin.insert("headerWindow".into(), "backend.rs Backend::locate_start_offset".into());
        }
        if let Some(v) = need!(body.as_ref().and_then(first_bytestr), "Backend::locate_start_offset: const HEADER = b\"…\" in backend.rs") {
            lx.strings.insert("headerMarker".into(), v);
            lx.origin.insert("headerMarker".into(), "backend.rs Backend::locate_start_offset".into());
        }
    }
    // depth budgets passed as the last argument of a call
    for (rel, func, self_ty, callee, name) in [
        ("object/types.rs", "page", Some("PageTree"), "page_limited", "pageTreeDepth"),
        ("object/color.rs", "from_primitive", Some("ColorSpace"), "from_primitive_depth", "colorSpaceDepth"),
        ("object/types.rs", "from_primitive", Some("AppearanceStreamEntry"), "from_primitive_depth", "appearanceDepth"),
        ("object/mod.rs", "resolve", Some("Resolve"), "resolve_flags", "resolveDepth"),
    ] {
        if let Some(f) = file(rel, problems) {
            if let Some(v) = need!(last_int_arg(f, func, self_ty, callee), format!("{}::{}: {}(.., <integer literal>) in {}", self_ty.unwrap_or(""), func, callee, rel)) {
                lx.nats.insert(name.into(), v);
                lx.origin.insert(name.into(), format!("{} {}::{} → {}", rel, self_ty.unwrap_or(""), func, callee));
            }
        }
    }
    lx
}

pub fn lean_lexical_text(ex: &Extracted) -> String {
    let lx = &ex.lexical;
    let mut o = String::new();
    o.push_str("/-! GENERATED by `pdfverif extract` (harness/src/extract.rs) from `pdf/src/**/*.rs`. Do not edit.\n");
    o.push_str("    Byte classes (sorted sets of byte values) and constants of the tree under test: observed by probing the compiled\n    crate wherever the fact is observable (the syntactic pattern is the fallback and the cross-check). The\n");
    o.push_str("    `constants_match_source` theorems of Props/C01, C03, C04, C05, C07, C14, C17, C19 tie each model's own\n");
    o.push_str("    classifier / constant to these. -/\n\nnamespace Generated\n\n");
    let list = |v: &[u8]| format!("[{}]", v.iter().map(|b| b.to_string()).collect::<Vec<_>>().join(", "));
    for (k, v) in &lx.sets {
        o.push_str(&format!("/-- {} -/\ndef {} : List Nat := {}\n\n", lx.origin.get(k).cloned().unwrap_or_default(), k, list(v)));
    }
    for (k, v) in &lx.strings {
        o.push_str(&format!("/-- {} -/\ndef {} : List Nat := {}\n\n", lx.origin.get(k).cloned().unwrap_or_default(), k, list(v)));
    }
    for (k, v) in &lx.nats {
        o.push_str(&format!("/-- {} -/\ndef {} : Nat := {}\n\n", lx.origin.get(k).cloned().unwrap_or_default(), k, v));
    }
    o.push_str("end Generated\n");
    o
}

// ------------------------------------------------------------------------------------------------

pub fn extract(repo_root: &str) -> Extracted {
    let mut ex = Extracted::default();
    let src_root = Path::new(repo_root).join("pdf").join("src");
    let mut parsed: BTreeMap<String, syn::File> = BTreeMap::new();
    let mut sources: BTreeMap<String, String> = BTreeMap::new();
    if !src_root.join("lib.rs").exists() {
        ex.problems.push(format!("{}/lib.rs not found", src_root.display()));
        return ex;
    }
    module_files(&src_root, "lib.rs", &mut parsed, &mut sources, &mut ex.problems);
    ex.files = parsed.keys().cloned().collect();
    let mut raw: Vec<RawItem> = vec![];
    for (rel, p) in &parsed {
        let mut mods = vec![];
        collect_items(&p.items, rel, &sources[rel], &mut mods, &mut raw);
    }
    if raw.is_empty() {
        ex.problems.push("no #[derive(Object)] / #[derive(ObjectWrite)] item found".into());
    }
    // pass 1: names
    let mut names: BTreeMap<String, usize> = BTreeMap::new();
    for r in &raw {
        let n = r.item.ident.to_string();
        let np = r.item.generics.type_params().count();
        if names.insert(n.clone(), np).is_some() {
            ex.problems.push(format!("two derive(Object) items are called {}: field types naming it are ambiguous", n));
        }
    }
    // pass 2: schemas
    for r in &raw {
        let name = r.item.ident.to_string();
        let who = format!("{} ({})", name, r.file);
        let derives = derive_names(&r.item.attrs);
        let g = global_attrs(&r.item.attrs, &who, &mut ex.problems);
        let params: Vec<String> = r.item.generics.type_params().map(|p| p.ident.to_string()).collect();
        if params.len() > 1 {
            ex.problems.push(format!("{}: more than one type parameter", who));
        }
        let nm = Names { models: &names, params: &params };
        let mut fields = vec![];
        let mut variants = vec![];
        let kind;
        match &r.item.data {
            syn::Data::Struct(ds) => {
                kind = if g.is_stream { "stream_struct" } else { "struct" };
                match &ds.fields {
                    syn::Fields::Named(nf) => {
                        for f in &nf.named {
                            let ident = f.ident.as_ref().unwrap().to_string();
                            let fw = format!("{}.{}", who, ident);
                            let a = field_attrs(&f.attrs, &fw, &mut ex.problems);
                            if a.name.is_some() {
                                ex.problems.push(format!("{}: `name` on a struct field (only meaningful on enum variants)", fw));
                            }
                            if !g.is_stream && !a.skip && !a.other && a.key.is_none() {
                                ex.problems.push(format!("{}: field without key / other / skip (the derive macro panics)", fw));
                            }
                            let shape = shape_of(&f.ty, &nm, &fw, &mut ex.problems);
                            fields.push(Field { ident, key: a.key, default: a.default, other: a.other, skip: a.skip, indirect: a.indirect, ty: type_text(&f.ty), shape, public: matches!(f.vis, syn::Visibility::Public(_)) });
                        }
                    }
                    _ => ex.problems.push(format!("{}: derive on a struct without named fields", who)),
                }
            }
            syn::Data::Enum(de) => {
                let with_disc = de.variants.iter().filter(|v| v.discriminant.is_some()).count();
                kind = if g.is_stream {
                    "stream_enum"
                } else if with_disc > 0 {
                    if with_disc != de.variants.len() {
                        ex.problems.push(format!("{}: either none or all variants can have a discriminant", who));
                    }
                    "int_enum"
                } else {
                    "name_enum"
                };
                for v in &de.variants {
                    let ident = v.ident.to_string();
                    let vw = format!("{}::{}", who, ident);
                    let a = field_attrs(&v.attrs, &vw, &mut ex.problems);
                    let disc = match &v.discriminant {
                        Some((_, syn::Expr::Lit(syn::ExprLit { lit: syn::Lit::Int(i), .. }))) => i.base10_parse::<i64>().ok(),
                        Some((_, syn::Expr::Unary(syn::ExprUnary { op: syn::UnOp::Neg(_), expr, .. }))) => match &**expr {
                            syn::Expr::Lit(syn::ExprLit { lit: syn::Lit::Int(i), .. }) => i.base10_parse::<i64>().ok().map(|x| -x),
                            _ => None,
                        },
                        Some(_) => {
                            ex.problems.push(format!("{}: discriminant is not an integer literal", vw));
                            None
                        }
                        None => None,
                    };
                    let payload = match &v.fields {
                        syn::Fields::Unit => None,
                        syn::Fields::Unnamed(u) if u.unnamed.len() == 1 => Some(type_text(&u.unnamed[0].ty)),
                        _ => {
                            ex.problems.push(format!("{}: variant with named or several fields", vw));
                            None
                        }
                    };
                    if kind == "name_enum" && payload.is_some() != a.other {
                        ex.problems.push(format!("{}: in a name enum exactly the `other` variant carries a field", vw));
                    }
                    if kind == "stream_enum" && payload.is_none() {
                        ex.problems.push(format!("{}: all variants in a stream enum have exactly one unnamed field", vw));
                    }
                    variants.push(Variant { name: a.name.clone().unwrap_or_else(|| ident.clone()), ident, other: a.other, disc, payload });
                }
                if variants.iter().filter(|v| v.other).count() > 1 {
                    ex.problems.push(format!("{}: only one 'other' variant is allowed in a name enum", who));
                }
            }
            syn::Data::Union(_) => {
                kind = "union";
                ex.problems.push(format!("{}: derive on a union", who));
            }
        }
        let path = rust_path(&src_root, &r.file, &r.inline_mods, &name, r.public, &parsed);
        ex.models.push(Model {
            name,
            file: r.file.clone(),
            line: r.line,
            kind: kind.into(),
            params,
            derives_read: derives.iter().any(|d| d == "Object"),
            derives_write: derives.iter().any(|d| d == "ObjectWrite"),
            derives_debug: derives.iter().any(|d| d == "Debug"),
            public: r.public,
            path,
            type_name: g.type_name,
            type_required: g.type_required,
            checks: g.checks,
            is_stream: g.is_stream,
            fields,
            variants,
        });
    }
    ex.models.sort_by(|a, b| a.name.cmp(&b.name));
    // the dictionaries of typed streams: `Stream<X>` anywhere in the token text of the sources
    {
        let mut infos: BTreeSet<String> = BTreeSet::new();
        for src in sources.values() {
            let mut rest = src.as_str();
            while let Some(i) = rest.find("Stream<") {
                let before_ok = !rest[..i].chars().last().map(|c| c.is_alphanumeric() || c == '_').unwrap_or(false);
                rest = &rest[i + 7..];
                if !before_ok {
                    continue;
                }
                let Some(j) = rest.find('>') else { break };
                let x = rest[..j].trim();
                if x == "()" || ex.models.iter().any(|m| m.name == x) {
                    infos.insert(x.to_string());
                }
            }
        }
        if !infos.contains("()") {
            ex.problems.push("stream infos: `Stream<()>` is spelled nowhere in the sources (pattern not found)".into());
        }
        ex.stream_infos = infos.into_iter().collect();
    }
    // facts that are also observable through the compiled crate: what the source patterns say, and what they do not
    // say, is kept apart from `problems` until `finalize` has seen the probes
    let mut opt_problems = vec![];
    ex.option_reader = option_reader(&parsed, &mut opt_problems);
    ex.opt_problems = opt_problems;
    let mut lex_problems = vec![];
    ex.lexical = lexical_tables(&parsed, &mut lex_problems);
    ex.lex_problems = lex_problems;
    ex.dispatch = dispatch_tables(&parsed, &ex.models);
    for f in parsed.values() {
        collect_enums(&f.items, &mut ex.enums);
    }
    ex
}

// ------------------------------------------------------------------------------------------------
// output: Lean

fn lean_str(s: &str) -> String {
    let mut o = String::from("\"");
    for c in s.chars() {
        match c {
            '"' => o.push_str("\\\""),
            '\\' => o.push_str("\\\\"),
            '\n' => o.push_str("\\n"),
            c => o.push(c),
        }
    }
    o.push('"');
    o
}

fn lean_opt_str(s: &Option<String>) -> String {
    match s {
        Some(x) => format!("some {}", lean_str(x)),
        None => "none".into(),
    }
}

fn lean_shape(s: &Shape) -> String {
    match s {
        Shape::Leaf(n) => format!(".leaf {}", lean_str(n)),
        Shape::LeafApp(n, a) => format!(".leafApp {} ({})", lean_str(n), lean_shape(a)),
        Shape::Model(n) => format!(".model {}", lean_str(n)),
        Shape::ModelApp(n, a) => format!(".modelApp {} ({})", lean_str(n), lean_shape(a)),
        Shape::Param(n) => format!(".param {}", lean_str(n)),
        Shape::Option(a) => format!(".option ({})", lean_shape(a)),
        Shape::Vec(a) => format!(".vec ({})", lean_shape(a)),
        Shape::HashMap(a) => format!(".hashMap ({})", lean_shape(a)),
        Shape::Boxed(a) => format!(".box ({})", lean_shape(a)),
        Shape::MaybeRef(a) => format!(".maybeRef ({})", lean_shape(a)),
        Shape::RcRef(a) => format!(".rcRef ({})", lean_shape(a)),
        Shape::Ref(a) => format!(".ref ({})", lean_shape(a)),
        Shape::Lazy(a) => format!(".lazy ({})", lean_shape(a)),
        Shape::Pair(a, b) => format!(".pair ({}) ({})", lean_shape(a), lean_shape(b)),
    }
}

fn lean_kind(k: &str) -> &'static str {
    match k {
        "struct" => ".struct",
        "name_enum" => ".nameEnum",
        "int_enum" => ".intEnum",
        "stream_enum" => ".streamEnum",
        "stream_struct" => ".streamStruct",
        _ => ".struct",
    }
}

pub fn lean_ident(name: &str) -> String {
    format!("s_{}", name)
}

pub fn lean_text(ex: &Extracted) -> String {
    let mut o = String::new();
    o.push_str("import PdfModel.Model.Schema\n\n");
    o.push_str("/-! GENERATED by `pdfverif extract` (harness/src/extract.rs) from `pdf/src/**/*.rs` of the repository under\n");
    o.push_str("    test. Do not edit: `./check` regenerates this file before every Lean build of the properties listed in\n");
    o.push_str("    translator.json, and the theorems over `generatedSchemas` (Props/C15, Props/C18) are re-checked against it. -/\n\n");
    o.push_str("namespace Generated\nopen Derive\n\n");
    for m in &ex.models {
        o.push_str(&format!("/-- `{}` ({}) -/\n", m.name, m.file));
        o.push_str(&format!("def {} : Schema where\n", lean_ident(&m.name)));
        o.push_str(&format!("  name := {}\n", lean_str(&m.name)));
        o.push_str(&format!("  kind := {}\n", lean_kind(&m.kind)));
        o.push_str(&format!("  params := [{}]\n", m.params.iter().map(|p| lean_str(p)).collect::<Vec<_>>().join(", ")));
        o.push_str(&format!("  derivesRead := {}\n", m.derives_read));
        o.push_str(&format!("  derivesWrite := {}\n", m.derives_write));
        o.push_str(&format!("  typeName := {}\n", lean_opt_str(&m.type_name)));
        o.push_str(&format!("  typeRequired := {}\n", m.type_required));
        o.push_str(&format!("  checks := [{}]\n", m.checks.iter().map(|(k, v)| format!("({}, {})", lean_str(k), lean_str(v))).collect::<Vec<_>>().join(", ")));
        if m.fields.is_empty() {
            o.push_str("  fields := []\n");
        } else {
            o.push_str("  fields := [\n");
            for (i, f) in m.fields.iter().enumerate() {
                o.push_str(&format!(
                    "    {{ ident := {}, key := {}, default := {}, other := {}, skip := {}, indirect := {}, shape := {} }}{}\n",
                    lean_str(&f.ident),
                    lean_opt_str(&f.key),
                    lean_opt_str(&f.default),
                    f.other,
                    f.skip,
                    f.indirect,
                    lean_shape(&f.shape),
                    if i + 1 < m.fields.len() { "," } else { "" }
                ));
            }
            o.push_str("  ]\n");
        }
        if m.variants.is_empty() {
            o.push_str("  variants := []\n");
        } else {
            o.push_str("  variants := [\n");
            for (i, v) in m.variants.iter().enumerate() {
                o.push_str(&format!(
                    "    {{ ident := {}, name := {}, other := {}, disc := {} }}{}\n",
                    lean_str(&v.ident),
                    lean_str(&v.name),
                    v.other,
                    match v.disc {
                        Some(d) if d < 0 => format!("some ({})", d),
                        Some(d) => format!("some {}", d),
                        None => "none".into(),
                    },
                    if i + 1 < m.variants.len() { "," } else { "" }
                ));
            }
            o.push_str("  ]\n");
        }
        o.push('\n');
    }
    o.push_str("/-- every `#[derive(Object)]` / `#[derive(ObjectWrite)]` item of `pdf/src`, sorted by name -/\n");
    o.push_str("def generatedSchemas : List Schema := [\n");
    for (i, m) in ex.models.iter().enumerate() {
        o.push_str(&format!("  {}{}\n", lean_ident(&m.name), if i + 1 < ex.models.len() { "," } else { "" }));
    }
    o.push_str("]\n\n");
    let r = &ex.option_reader;
    o.push_str("/-- `impl<T: Object> Object for Option<T>` (object/mod.rs): the error variants answered with `Ok(None)` in\n");
    o.push_str("    every mode, the wrappers looked through before that test, and the option under which every other error\n    becomes `None` (observed by calling the reader with a resolver that fails in each of these ways) -/\n");
    o.push_str(&format!("def optionReaderMissingKinds : List String := [{}]\n", r.missing_kinds.iter().map(|s| lean_str(s)).collect::<Vec<_>>().join(", ")));
    o.push_str(&format!("def optionReaderPeeled : List String := [{}]\n", r.peeled.iter().map(|s| lean_str(s)).collect::<Vec<_>>().join(", ")));
    o.push_str(&format!("def optionReaderTolerantFlag : Option String := {}\n", lean_opt_str(&r.tolerant_flag)));
    o.push_str("\nend Generated\n");
    o
}

pub fn lean_dispatch_text(ex: &Extracted) -> String {
    let list = |v: &[String]| format!("[{}]", v.iter().map(|x| lean_str(x)).collect::<Vec<_>>().join(", "));
    let arms = |as_: &[Arm]| {
        if as_.is_empty() {
            "[]".to_string()
        } else {
            format!("[\n{}\n  ]", as_.iter().map(|a| format!("    {{ func := {}, tags := {}, variants := {} }}", lean_str(&a.func), list(&a.tags), list(&a.variants))).collect::<Vec<_>>().join(",\n"))
        }
    };
    let mut o = String::new();
    o.push_str("import PdfModel.Model.Schema\n\n");
    o.push_str("/-! GENERATED by `pdfverif extract` (harness/src/extract.rs) from `pdf/src/**/*.rs`. Do not edit.\n");
    o.push_str("    The tag ↔ variant dispatch of the hand-written readers and writers, by the value enum they construct / take\n");
    o.push_str("    apart. Where the harness can feed the reader (`func` says `probed`), an arm is what the compiled crate does: the\n");
    o.push_str("    variant the reader builds from a minimal input carrying the tag, and the tags found in what the writer makes of\n");
    o.push_str("    that value. Otherwise the `match` arms as they stand in the source. -/\n\n");
    o.push_str("namespace Generated\nopen Derive\n\n");
    for d in &ex.dispatch {
        o.push_str(&format!("def d_{} : Dispatch where\n  valueEnum := {}\n  variants := {}\n  reader := {}\n  writer := {}\n\n", d.value_enum, lean_str(&d.value_enum), list(&d.variants), arms(&d.reader), arms(&d.writer)));
    }
    o.push_str(&format!("def generatedDispatch : List Dispatch := [{}]\n\nend Generated\n", ex.dispatch.iter().map(|d| format!("d_{}", d.value_enum)).collect::<Vec<_>>().join(", ")));
    o
}

// ------------------------------------------------------------------------------------------------
// output: JSON

fn shape_json(s: &Shape) -> Value {
    match s {
        Shape::Leaf(n) => json!({"k": "leaf", "name": n}),
        Shape::LeafApp(n, a) => json!({"k": "leafApp", "name": n, "a": shape_json(a)}),
        Shape::Model(n) => json!({"k": "model", "name": n}),
        Shape::ModelApp(n, a) => json!({"k": "modelApp", "name": n, "a": shape_json(a)}),
        Shape::Param(n) => json!({"k": "param", "name": n}),
        Shape::Option(a) => json!({"k": "option", "a": shape_json(a)}),
        Shape::Vec(a) => json!({"k": "vec", "a": shape_json(a)}),
        Shape::HashMap(a) => json!({"k": "hashMap", "a": shape_json(a)}),
        Shape::Boxed(a) => json!({"k": "box", "a": shape_json(a)}),
        Shape::MaybeRef(a) => json!({"k": "maybeRef", "a": shape_json(a)}),
        Shape::RcRef(a) => json!({"k": "rcRef", "a": shape_json(a)}),
        Shape::Ref(a) => json!({"k": "ref", "a": shape_json(a)}),
        Shape::Lazy(a) => json!({"k": "lazy", "a": shape_json(a)}),
        Shape::Pair(a, b) => json!({"k": "pair", "a": shape_json(a), "b": shape_json(b)}),
    }
}

pub fn json_value(ex: &Extracted) -> Value {
    let models: Vec<Value> = ex
        .models
        .iter()
        .map(|m| {
            json!({
                "name": m.name, "file": m.file, "kind": m.kind, "params": m.params,
                "derives_read": m.derives_read, "derives_write": m.derives_write, "public": m.public, "path": m.path,
                "type_name": m.type_name, "type_required": m.type_required,
                "checks": m.checks.iter().map(|(k, v)| json!([k, v])).collect::<Vec<_>>(),
                "is_stream": m.is_stream,
                "fields": m.fields.iter().map(|f| json!({
                    "ident": f.ident, "key": f.key, "default": f.default, "other": f.other, "skip": f.skip,
                    "indirect": f.indirect, "ty": f.ty, "shape": shape_json(&f.shape)
                })).collect::<Vec<_>>(),
                "variants": m.variants.iter().map(|v| json!({
                    "ident": v.ident, "name": v.name, "other": v.other, "disc": v.disc, "payload": v.payload
                })).collect::<Vec<_>>(),
            })
        })
        .collect();
    json!({
        "generated_by": "pdfverif extract",
        "models": models,
        "option_reader": {
            "missing_kinds": ex.option_reader.missing_kinds, "peeled": ex.option_reader.peeled,
            "tolerant_flag": ex.option_reader.tolerant_flag, "via": ex.option_reader.via,
        },
        "dispatch": ex.dispatch.iter().map(|d| json!({
            "value_enum": d.value_enum, "variants": d.variants,
            "reader": d.reader.iter().map(|a| json!({"func": a.func, "tags": a.tags, "variants": a.variants})).collect::<Vec<_>>(),
            "writer": d.writer.iter().map(|a| json!({"func": a.func, "tags": a.tags, "variants": a.variants})).collect::<Vec<_>>(),
        })).collect::<Vec<_>>(),
        "lexical": {
            "sets": ex.lexical.sets, "strings": ex.lexical.strings, "nats": ex.lexical.nats, "origin": ex.lexical.origin,
        },
        "files_parsed": ex.files.len(),
    })
}

// ------------------------------------------------------------------------------------------------
// output: the typed Rust registry (build.rs → $OUT_DIR/typed_registry.rs)

/// type arguments with which a generic model is used somewhere in a field type (textual)
fn instantiations(ex: &Extracted) -> BTreeMap<String, BTreeSet<String>> {
    fn walk(s: &Shape, out: &mut BTreeMap<String, BTreeSet<String>>) {
        match s {
            Shape::ModelApp(n, a) => {
                if !has_param(a) {
                    out.entry(n.clone()).or_default().insert(rust_type(a));
                }
                walk(a, out);
            }
            Shape::LeafApp(_, a) | Shape::Option(a) | Shape::Vec(a) | Shape::HashMap(a) | Shape::Boxed(a) | Shape::MaybeRef(a) | Shape::RcRef(a) | Shape::Ref(a) | Shape::Lazy(a) => walk(a, out),
            Shape::Pair(a, b) => {
                walk(a, out);
                walk(b, out);
            }
            _ => {}
        }
    }
    let mut out = BTreeMap::new();
    for m in &ex.models {
        for f in &m.fields {
            walk(&f.shape, &mut out);
        }
    }
    out
}

fn has_param(s: &Shape) -> bool {
    match s {
        Shape::Param(_) => true,
        Shape::Leaf(_) | Shape::Model(_) => false,
        Shape::LeafApp(_, a) | Shape::ModelApp(_, a) | Shape::Option(a) | Shape::Vec(a) | Shape::HashMap(a) | Shape::Boxed(a) | Shape::MaybeRef(a) | Shape::RcRef(a) | Shape::Ref(a) | Shape::Lazy(a) => has_param(a),
        Shape::Pair(a, b) => has_param(a) || has_param(b),
    }
}

pub fn rust_type(s: &Shape) -> String {
    match s {
        Shape::Leaf(n) | Shape::Model(n) | Shape::Param(n) => n.clone(),
        Shape::LeafApp(n, a) | Shape::ModelApp(n, a) => format!("{}<{}>", n, rust_type(a)),
        Shape::Option(a) => format!("Option<{}>", rust_type(a)),
        Shape::Vec(a) => format!("Vec<{}>", rust_type(a)),
        Shape::HashMap(a) => format!("HashMap<Name, {}>", rust_type(a)),
        Shape::Boxed(a) => format!("Box<{}>", rust_type(a)),
        Shape::MaybeRef(a) => format!("MaybeRef<{}>", rust_type(a)),
        Shape::RcRef(a) => format!("RcRef<{}>", rust_type(a)),
        Shape::Ref(a) => format!("Ref<{}>", rust_type(a)),
        Shape::Lazy(a) => format!("Lazy<{}>", rust_type(a)),
        Shape::Pair(a, b) => format!("({}, {})", rust_type(a), rust_type(b)),
    }
}

/// `$OUT_DIR/typed_registry.rs`: lets the harness instantiate its generic code at every derived model.
///
///   pub trait ModelVisitor { fn read<T: Object + 'static>(&mut self, name: &str);
///                            fn read_write<T: Object + ObjectWrite + 'static>(&mut self, name: &str); }
///   pub fn visit_model(name: &str, v: &mut impl ModelVisitor) -> bool
///   pub const TYPED_MODELS: &[(&str /*registry name*/, &str /*rust type*/, bool /*writer*/)]
///   pub const UNTYPED_MODELS: &[(&str, &str /*reason*/)]
pub fn rust_registry(ex: &Extracted) -> String {
    let inst = instantiations(ex);
    let mut typed: Vec<(String, String, bool, bool)> = vec![]; // (registry name, rust type, reader, writer)
    let mut untyped: Vec<(String, String)> = vec![];
    for m in &ex.models {
        let Some(path) = &m.path else {
            untyped.push((m.name.clone(), if m.public { "module not reachable from outside the crate".into() } else { "private type".into() }));
            continue;
        };
        if m.params.is_empty() {
            typed.push((m.name.clone(), path.clone(), m.derives_read, m.derives_write));
        } else {
            match inst.get(&m.name) {
                Some(args) if !args.is_empty() => {
                    for a in args {
                        typed.push((format!("{}<{}>", m.name, a), format!("{}<{}>", path, a), m.derives_read, m.derives_write));
                    }
                }
                _ => untyped.push((m.name.clone(), "generic model never instantiated in a field type".into())),
            }
        }
    }
    let mut o = String::new();
    o.push_str("// generated by build.rs (harness/src/extract.rs) from the repository under test — do not edit\n");
    o.push_str("#[allow(unused_imports)] use pdf::object::*;\n#[allow(unused_imports)] use pdf::primitive::*;\n#[allow(unused_imports)] use std::collections::HashMap;\n\n");
    o.push_str("pub trait ModelVisitor {\n    fn read<T: pdf::object::Object + 'static>(&mut self, name: &str);\n    fn read_write<T: pdf::object::Object + pdf::object::ObjectWrite + 'static>(&mut self, name: &str);\n    fn write_only<T: pdf::object::ObjectWrite + 'static>(&mut self, _name: &str) {}\n}\n\n");
    o.push_str("pub fn visit_model(name: &str, v: &mut impl ModelVisitor) -> bool {\n    match name {\n");
    for (n, ty, rd, wr) in &typed {
        let call = match (rd, wr) {
            (true, true) => "read_write",
            (true, false) => "read",
            (false, true) => "write_only",
            _ => continue,
        };
        o.push_str(&format!("        {:?} => {{ v.{}::<{}>(name); true }}\n", n, call, ty));
    }
    o.push_str("        _ => false,\n    }\n}\n\n");
    // the value side: take a value of a derived struct apart from outside the crate
    o.push_str("pub trait ValueSide {\n    /// replaces the catch-all; None: the model has none; Some(false): it is not a public field\n    fn set_other(&mut self, d: Dictionary) -> Option<bool>;\n    /// the catch-all (None: none, or not public)\n    fn other_dict(&self) -> Option<Dictionary>;\n    /// (field, key, Debug text) of every public keyed field\n    fn fields_debug(&self) -> Vec<(&'static str, &'static str, String)>;\n    /// keyed fields that are not public (not compared)\n    fn hidden_fields() -> &'static [&'static str];\n    /// None: no catch-all field; Some(public?)\n    fn catch_all() -> Option<bool>;\n    /// Debug text of the whole value (None: the type has no Debug)\n    fn whole_debug(&self) -> Option<String>;\n}\n\n");
    o.push_str("pub trait ValueVisitor {\n    fn value_side<T: pdf::object::Object + pdf::object::ObjectWrite + ValueSide + 'static>(&mut self, name: &str);\n}\n\n");
    let mut vs_models: Vec<(String, String)> = vec![];
    for (n, ty, rd, wr) in &typed {
        let base = n.split('<').next().unwrap();
        let Some(m) = ex.models.iter().find(|m| m.name == base) else { continue };
        if m.kind != "struct" || !*rd || !*wr {
            continue;
        }
        let other = m.fields.iter().find(|f| f.other);
        let clear = match other {
            None => "let _ = d; None".to_string(),
            Some(f) if f.public => format!("self.{} = d; Some(true)", f.ident),
            Some(_) => "let _ = d; Some(false)".to_string(),
        };
        let other_get = match other {
            Some(f) if f.public => format!("Some(self.{}.clone())", f.ident),
            _ => "None".to_string(),
        };
        let mut dbg = String::new();
        let mut hidden = vec![];
        for f in m.fields.iter().filter(|f| !f.other && !f.skip) {
            if f.public && m.derives_debug {
                dbg.push_str(&format!("            ({:?}, {:?}, format!(\"{{:?}}\", self.{})),\n", f.ident, f.key.clone().unwrap_or_default(), f.ident));
            } else {
                hidden.push(format!("{:?}", f.ident));
            }
        }
        o.push_str(&format!("impl ValueSide for {} {{\n    fn set_other(&mut self, d: Dictionary) -> Option<bool> {{ {} }}\n    fn other_dict(&self) -> Option<Dictionary> {{ {} }}\n    fn fields_debug(&self) -> Vec<(&'static str, &'static str, String)> {{\n        vec![\n{}        ]\n    }}\n    fn hidden_fields() -> &'static [&'static str] {{ &[{}] }}\n    fn catch_all() -> Option<bool> {{ {} }}\n    fn whole_debug(&self) -> Option<String> {{ {} }}\n}}\n\n", ty, clear, other_get, dbg, hidden.join(", "), match other { None => "None", Some(f) if f.public => "Some(true)", Some(_) => "Some(false)" }, if m.derives_debug { "Some(format!(\"{:?}\", self))" } else { "None" }));
        vs_models.push((n.clone(), ty.clone()));
    }
    // dictionaries of typed streams
    o.push_str("impl ValueSide for () {\n    fn set_other(&mut self, _d: Dictionary) -> Option<bool> { None }\n    fn other_dict(&self) -> Option<Dictionary> { None }\n    fn fields_debug(&self) -> Vec<(&'static str, &'static str, String)> { vec![] }\n    fn hidden_fields() -> &'static [&'static str] { &[] }\n    fn catch_all() -> Option<bool> { None }\n    fn whole_debug(&self) -> Option<String> { Some(\"()\".into()) }\n}\n\n");
    o.push_str("pub trait StreamInfoVisitor {\n    fn stream_info<I: pdf::object::Object + pdf::object::ObjectWrite + ValueSide + 'static>(&mut self, name: &str);\n}\n\n");
    o.push_str("pub fn visit_stream_info(name: &str, v: &mut impl StreamInfoVisitor) -> bool {\n    match name {\n        \"()\" => { v.stream_info::<()>(name); true }\n");
    let mut stream_infos: Vec<(String, bool)> = vec![("()".into(), true)];
    for x in ex.stream_infos.iter().filter(|x| x.as_str() != "()") {
        match vs_models.iter().find(|(n, _)| n == x) {
            Some((n, ty)) => {
                o.push_str(&format!("        {:?} => {{ v.stream_info::<{}>(name); true }}\n", n, ty));
                stream_infos.push((x.clone(), true));
            }
            None => stream_infos.push((x.clone(), false)),
        }
    }
    o.push_str("        _ => false,\n    }\n}\n\n");
    o.push_str(&format!("/// (X, can the harness name and take apart the type?) for every `Stream<X>` of the sources\npub const STREAM_INFOS: &[(&str, bool)] = &[{}];\n\n", stream_infos.iter().map(|(n, t)| format!("({:?}, {})", n, t)).collect::<Vec<_>>().join(", ")));
    o.push_str("pub fn visit_value_side(name: &str, v: &mut impl ValueVisitor) -> bool {\n    match name {\n");
    for (n, ty) in &vs_models {
        o.push_str(&format!("        {:?} => {{ v.value_side::<{}>(name); true }}\n", n, ty));
    }
    o.push_str("        _ => false,\n    }\n}\n\n");
    o.push_str("pub const TYPED_MODELS: &[(&str, &str, bool, bool)] = &[\n");
    for (n, ty, rd, wr) in &typed {
        o.push_str(&format!("    ({:?}, {:?}, {}, {}),\n", n, ty, rd, wr));
    }
    o.push_str("];\n\npub const UNTYPED_MODELS: &[(&str, &str)] = &[\n");
    for (n, why) in &untyped {
        o.push_str(&format!("    ({:?}, {:?}),\n", n, why));
    }
    o.push_str("];\n\n");
    o.push_str(&format!("pub const SCHEMAS_JSON: &str = {:?};\n", serde_json::to_string(&json_value(ex)).unwrap()));
    o.push_str(&format!("pub const EXTRACT_PROBLEMS: &[&str] = &[{}];\n", ex.problems.iter().map(|p| format!("{:?}", p)).collect::<Vec<_>>().join(", ")));
    o
}

// ------------------------------------------------------------------------------------------------

pub fn write_if_changed(path: &Path, body: &str) -> std::io::Result<bool> {
    if let Ok(old) = std::fs::read_to_string(path) {
        if old == body {
            return Ok(false);
        }
    }
    if let Some(d) = path.parent() {
        std::fs::create_dir_all(d)?;
    }
    std::fs::write(path, body)?;
    Ok(true)
}

/// `pdfverif extract --out-dir DIR [--repo ROOT]`; exit status 0 = every pattern understood
pub fn main(args: &[String], default_repo: &str) -> i32 {
    let mut out_dir: Option<String> = None;
    let mut repo = default_repo.to_string();
    let mut i = 0;
    while i < args.len() {
        match args[i].as_str() {
            "--out-dir" if i + 1 < args.len() => {
                out_dir = Some(args[i + 1].clone());
                i += 2;
            }
            "--repo" if i + 1 < args.len() => {
                repo = args[i + 1].clone();
                i += 2;
            }
            x => {
                eprintln!("extract: unknown argument {}", x);
                return 2;
            }
        }
    }
    let Some(out_dir) = out_dir else {
        eprintln!("usage: pdfverif extract --out-dir <lean/PdfModel/Generated> [--repo <root>]");
        return 2;
    };
    let mut ex = extract(&repo);
    let probed = crate::registry::c15::probe::run(&ex);
    finalize(&mut ex, Some(probed));
    let lean = lean_text(&ex);
    let js = serde_json::to_string_pretty(&json_value(&ex)).unwrap() + "\n";
    let disp = lean_dispatch_text(&ex);
    let lexi = lean_lexical_text(&ex);
    let dir = Path::new(&out_dir);
    for (name, body) in [("Schemas.lean", &lean), ("Dispatch.lean", &disp), ("Lexical.lean", &lexi), ("schemas.json", &js)] {
        match write_if_changed(&dir.join(name), body) {
            Ok(ch) => println!("extract: {} {}", dir.join(name).display(), if ch { "rewritten" } else { "unchanged" }),
            Err(e) => {
                println!("extract: cannot write {}: {}", dir.join(name).display(), e);
                return 1;
            }
        }
    }
    println!(
        "extract: {} files parsed, {} derived models ({} structs, {} enums), Option reader: missing={:?} peeled={:?} tolerant_flag={:?}",
        ex.files.len(),
        ex.models.len(),
        ex.models.iter().filter(|m| m.kind.contains("struct")).count(),
        ex.models.iter().filter(|m| m.kind.contains("enum")).count(),
        ex.option_reader.missing_kinds,
        ex.option_reader.peeled,
        ex.option_reader.tolerant_flag
    );
    for n in &ex.notes {
        println!("extract: note: {}", n);
    }
    if !ex.problems.is_empty() {
        for p in &ex.problems {
            println!("extract: PROBLEM {}", p);
        }
        println!("extract: {} pattern(s) not understood — the generated tables cannot be trusted", ex.problems.len());
        return 1;
    }
    0
}
