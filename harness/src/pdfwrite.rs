//! Independent, minimal PDF writer used to produce the documents the checks read with the library.
//! It shares no code with pdf-rs: bodies are byte strings supplied by the caller, the writer only adds
//! `n g obj … endobj` framing, object streams, classic tables / cross-reference streams, trailers,
//! `startxref` and incremental revisions. All offsets are relative to the header (`%PDF-`), as the
//! specification and the library's `start_offset` logic expect; `prefix` bytes go before the header.

use std::io::Write as _;

#[derive(Clone, Copy, Debug, PartialEq, Eq)]
pub enum XrefFormat {
    Classic,
    Stream,
}

#[derive(Clone, Debug, PartialEq, Eq)]
pub enum Entry {
    Free { next: u64, gen: u64 },
    InUse { off: u64, gen: u64 },
    Compressed { stm: u64, idx: u64 },
}

#[derive(Clone, Debug)]
pub struct Revision {
    /// entries recorded for this revision (object number, entry) in insertion order
    pub entries: Vec<(u64, Entry)>,
    /// offset (relative to header) of this revision's xref section, once finished
    pub xref_off: u64,
    pub format: XrefFormat,
    /// the subsections as written: (first, entries)
    pub subsections: Vec<(u64, Vec<Entry>)>,
    pub size: u64,
}

pub struct PdfWriter {
    pub out: Vec<u8>,
    pub header_pos: usize,
    pub cur: Vec<(u64, Entry)>,
    pub revisions: Vec<Revision>,
}

pub fn zlib(data: &[u8]) -> Vec<u8> {
    let mut e = flate2::write::ZlibEncoder::new(Vec::new(), flate2::Compression::default());
    e.write_all(data).unwrap();
    e.finish().unwrap()
}

pub fn ascii_hex(data: &[u8]) -> Vec<u8> {
    let mut o = Vec::new();
    for b in data {
        o.extend_from_slice(format!("{:02X}", b).as_bytes());
    }
    o.push(b'>');
    o
}

/// `<< dict_entries /Length n >> stream … endstream`
pub fn stream_body(dict_entries: &str, data: &[u8]) -> Vec<u8> {
    let mut o = Vec::new();
    write!(o, "<< {} /Length {} >>\nstream\n", dict_entries, data.len()).unwrap();
    o.extend_from_slice(data);
    o.extend_from_slice(b"\nendstream");
    o
}

/// stream with explicit length text (e.g. an indirect reference `12 0 R`)
pub fn stream_body_len(dict_entries: &str, length: &str, data: &[u8], eol: &[u8]) -> Vec<u8> {
    let mut o = Vec::new();
    write!(o, "<< {} /Length {} >>\nstream", dict_entries, length).unwrap();
    o.extend_from_slice(eol);
    o.extend_from_slice(data);
    o.extend_from_slice(b"\nendstream");
    o
}

#[derive(Clone, Copy, Debug, PartialEq, Eq)]
pub enum StmFilter {
    None,
    Flate,
    HexFlate,
}

impl PdfWriter {
    pub fn new(prefix: &[u8], version: &str) -> PdfWriter {
        let mut out = prefix.to_vec();
        let header_pos = out.len();
        write!(out, "%PDF-{}\n%\u{e2}\u{e3}\u{cf}\u{d3}\n", version).unwrap();
        PdfWriter { out, header_pos, cur: vec![], revisions: vec![] }
    }
    pub fn rel(&self) -> u64 {
        (self.out.len() - self.header_pos) as u64
    }
    /// write `id gen obj body endobj`, record it in the current revision; returns the relative offset
    pub fn object(&mut self, id: u64, gen: u64, body: &[u8]) -> u64 {
        let off = self.rel();
        write!(self.out, "{} {} obj\n", id, gen).unwrap();
        self.out.extend_from_slice(body);
        self.out.extend_from_slice(b"\nendobj\n");
        self.cur.push((id, Entry::InUse { off, gen }));
        off
    }
    /// same, but not recorded (the caller records or omits the entry itself)
    pub fn object_unrecorded(&mut self, id: u64, gen: u64, body: &[u8]) -> u64 {
        let off = self.rel();
        write!(self.out, "{} {} obj\n", id, gen).unwrap();
        self.out.extend_from_slice(body);
        self.out.extend_from_slice(b"\nendobj\n");
        off
    }
    pub fn record(&mut self, id: u64, e: Entry) {
        self.cur.push((id, e));
    }
    pub fn free(&mut self, id: u64, next: u64, gen: u64) {
        self.cur.push((id, Entry::Free { next, gen }));
    }
    pub fn raw(&mut self, bytes: &[u8]) {
        self.out.extend_from_slice(bytes);
    }
    /// object stream `stm_id` holding `members` (object number, body); `sep` is written after each member
    pub fn object_stream(&mut self, stm_id: u64, members: &[(u64, Vec<u8>)], filter: StmFilter, sep: &[u8], extra_dict: &str) -> u64 {
        let mut body = Vec::new();
        let mut offs = Vec::new();
        for (i, (_, b)) in members.iter().enumerate() {
            offs.push(body.len());
            body.extend_from_slice(b);
            if i + 1 < members.len() || !sep.is_empty() {
                body.extend_from_slice(sep);
            }
        }
        let mut head = String::new();
        for ((id, _), off) in members.iter().zip(offs.iter()) {
            head.push_str(&format!("{} {} ", id, off));
        }
        let first = head.len();
        let mut data = head.into_bytes();
        data.extend_from_slice(&body);
        let (fname, data) = match filter {
            StmFilter::None => (String::new(), data),
            StmFilter::Flate => ("/Filter /FlateDecode".to_string(), zlib(&data)),
            StmFilter::HexFlate => ("/Filter [/ASCIIHexDecode /FlateDecode]".to_string(), ascii_hex(&zlib(&data))),
        };
        let dict = format!("/Type /ObjStm /N {} /First {} {} {}", members.len(), first, fname, extra_dict);
        let off = self.object(stm_id, 0, &stream_body(&dict, &data));
        for (i, (id, _)) in members.iter().enumerate() {
            self.cur.push((*id, Entry::Compressed { stm: stm_id, idx: i as u64 }));
        }
        off
    }

    /// group the current revision's entries into maximal runs of consecutive object numbers, then
    /// optionally cut runs further at the given cut points (any splitting is legal)
    fn subsections(entries: &[(u64, Entry)], cuts: &[usize]) -> Vec<(u64, Vec<Entry>)> {
        let mut es: Vec<(u64, Entry)> = entries.to_vec();
        es.sort_by_key(|e| e.0);
        es.dedup_by_key(|e| e.0);
        let mut subs: Vec<(u64, Vec<Entry>)> = vec![];
        for (k, (id, e)) in es.into_iter().enumerate() {
            let start_new = match subs.last() {
                Some((first, v)) => first + v.len() as u64 != id || cuts.contains(&k),
                None => true,
            };
            if start_new {
                subs.push((id, vec![e]));
            } else {
                subs.last_mut().unwrap().1.push(e);
            }
        }
        subs
    }

    /// Finish the current revision: write the cross-reference section in `format`, the trailer
    /// (`trailer_extra` goes inside the dictionary, e.g. `/Root 1 0 R`), startxref and %%EOF.
    /// For `XrefFormat::Stream` the section is object `xref_id` (which is itself listed).
    pub fn finish(&mut self, format: XrefFormat, size: u64, trailer_extra: &str, cuts: &[usize], xref_id: u64) -> u64 {
        let prev = self.revisions.last().map(|r| r.xref_off);
        let prev_txt = prev.map(|p| format!(" /Prev {}", p)).unwrap_or_default();
        let xref_off = self.rel();
        let subs;
        match format {
            XrefFormat::Classic => {
                subs = Self::subsections(&self.cur, cuts);
                self.out.extend_from_slice(b"xref\n");
                for (first, es) in &subs {
                    write!(self.out, "{} {}\n", first, es.len()).unwrap();
                    for e in es {
                        match e {
                            Entry::Free { next, gen } => write!(self.out, "{:010} {:05} f \n", next, gen).unwrap(),
                            Entry::InUse { off, gen } => write!(self.out, "{:010} {:05} n \n", off, gen).unwrap(),
                            Entry::Compressed { .. } => panic!("classic table cannot hold compressed entries"),
                        }
                    }
                }
                write!(self.out, "trailer\n<< /Size {}{} {} >>\n", size, prev_txt, trailer_extra).unwrap();
            }
            XrefFormat::Stream => {
                self.cur.push((xref_id, Entry::InUse { off: xref_off, gen: 0 }));
                subs = Self::subsections(&self.cur, cuts);
                let maxv = |f: &dyn Fn(&Entry) -> u64| subs.iter().flat_map(|s| s.1.iter()).map(|e| f(e)).max().unwrap_or(0);
                let w1 = byte_width(maxv(&|e| match e { Entry::Free { next, .. } => *next, Entry::InUse { off, .. } => *off, Entry::Compressed { stm, .. } => *stm }));
                let w2 = byte_width(maxv(&|e| match e { Entry::Free { gen, .. } => *gen, Entry::InUse { gen, .. } => *gen, Entry::Compressed { idx, .. } => *idx }));
                let mut data = Vec::new();
                let mut index = String::new();
                for (first, es) in &subs {
                    index.push_str(&format!("{} {} ", first, es.len()));
                    for e in es {
                        let (t, a, b) = match e {
                            Entry::Free { next, gen } => (0u8, *next, *gen),
                            Entry::InUse { off, gen } => (1, *off, *gen),
                            Entry::Compressed { stm, idx } => (2, *stm, *idx),
                        };
                        data.push(t);
                        data.extend_from_slice(&a.to_be_bytes()[8 - w1..]);
                        data.extend_from_slice(&b.to_be_bytes()[8 - w2..]);
                    }
                }
                let dict = format!("/Type /XRef /Size {}{} /W [1 {} {}] /Index [{}] {}", size, prev_txt, w1, w2, index.trim_end(), trailer_extra);
                let body = stream_body(&dict, &data);
                write!(self.out, "{} 0 obj\n", xref_id).unwrap();
                self.out.extend_from_slice(&body);
                self.out.extend_from_slice(b"\nendobj\n");
            }
        }
        write!(self.out, "startxref\n{}\n%%EOF\n", xref_off).unwrap();
        let entries = std::mem::take(&mut self.cur);
        self.revisions.push(Revision { entries, xref_off, format, subsections: subs, size });
        xref_off
    }
    pub fn bytes(&self) -> &[u8] {
        &self.out
    }
}

pub fn byte_width(n: u64) -> usize {
    let mut w = 1;
    while w < 8 && n >= (1u64 << (8 * w)) {
        w += 1;
    }
    w
}
